"""Binding of the buffer specifications to rl_blox.blox.replay_buffer.

D1 tags: the transition with id k is a whole record whose every field encodes
k; decoding a stored / sampled row gives the id each field carries, and a row
is *whole* iff all fields agree.
"""
from __future__ import annotations

import numpy as np

from .graph import Mismatch


class Profile:
    """Field layout of a buffer: keys, dtypes, shapes and id<->value coding."""

    def __init__(self, name, keys, dtypes, shapes, weak=()):
        self.name, self.keys, self.dtypes, self.shapes, self.weak = name, keys, dtypes, shapes, set(weak)

    def encode(self, i, **over):
        """Values passed to add_sample for transition id i (python / numpy values)."""
        out = {}
        for j, (k, dt, sh) in enumerate(zip(self.keys, self.dtypes, self.shapes)):
            if k in self.weak:
                v = i % 2
            else:
                v = i
            arr = np.full(sh, v, dtype=np.float64)
            if sh:
                # make components distinguishable: component c carries id + c/8 .. still decodes to id
                flat = arr.reshape(-1)
                if np.dtype(dt).kind == "f":
                    flat += np.arange(flat.size) / 8.0 / max(flat.size, 1)
                arr = flat.reshape(sh)
            out[k] = arr if sh else (float(v) if np.dtype(dt).kind == "f" else int(v))
        out.update(over)
        return out

    def stored(self, i):
        """What the slot must contain: the added value cast to the storage dtype."""
        enc = self.encode(i)
        return {k: np.asarray(enc[k]).astype(dt) for k, dt in zip(self.keys, self.dtypes)}

    def decode_row(self, row: dict, stored_ids=None):
        """row: key -> numpy value of ONE transition. Returns id, or raises Mismatch."""
        ids = {}
        for k, dt, sh in zip(self.keys, self.dtypes, self.shapes):
            v = np.asarray(row[k])
            if tuple(v.shape) != tuple(sh):
                raise Mismatch(f"field {k} has shape {v.shape}, expected {sh}")
            f = float(np.floor(v.reshape(-1)[0] + 1e-9)) if v.size else 0.0
            if not np.isfinite(f) or abs(f) > 1e9:
                raise Mismatch(f"field {k} holds {v.reshape(-1)[0]!r}: not a stored transition (unwritten slot?)")
            ids[k] = int(f)
        strong = {k: v for k, v in ids.items() if k not in self.weak}
        vals = set(strong.values())
        if len(vals) != 1:
            raise Mismatch(f"row mixes fields of different transitions: {ids}")
        i = vals.pop()
        for k in self.weak:
            if ids[k] != i % 2:
                raise Mismatch(f"field {k} does not belong to transition {i}: {ids}")
        # exact content (unmodified up to storage dtype; jnp default precision float32)
        want = self.stored(i)
        for k in self.keys:
            got = np.asarray(row[k])
            w = want[k]
            if np.dtype(got.dtype).kind == "f" and got.dtype != w.dtype:
                w = w.astype(got.dtype)
            if not np.array_equal(got.astype(np.float64), np.asarray(w).astype(np.float64)):
                raise Mismatch(f"field {k} of transition {i} was modified: {got!r} != {w!r}")
        return i


def default_profile(discrete=False):
    return Profile(
        "default" + ("-discrete" if discrete else ""),
        ["observation", "action", "reward", "next_observation", "termination"],
        [float, int if discrete else float, float, float, int],
        [(3,), (), (), (3,), ()],
        weak=["termination"],
    )


def profiles():
    return [
        default_profile(False),
        default_profile(True),
        Profile("custom-mixed", ["a", "b", "c", "d"], [np.float32, np.int64, bool, np.float64], [(2, 2), (), (), (1,)], weak=["c"]),
        Profile("scalar-only", ["x", "y"], [np.int32, np.float32], [(), ()]),
    ]


def subtraj_profile(discrete=False):
    return Profile(
        "subtraj" + ("-discrete" if discrete else ""),
        ["observation", "action", "reward", "next_observation", "terminated", "truncated"],
        [float, int if discrete else float, float, float, int, int],
        [(2,), (), (), (2,), (), ()],
    )


# ------------------------------------------------------------------ spelled calls of add_sample
VALUE_FORMS = ("float", "pyint", "npint", "npuint8", "jaxint")
KEY_ORDERS = (0, 1, 2)  # 0: declared key order, 1: reversed, 2: fields of equal shape exchanged


def key_order(keys, order, shapes=None):
    """Keyword order `order` of the model (spec/Ring.tla Orders) for the declared keys.
    Order 2 exchanges the first and the last field of every group of equal-shaped fields (all other fields stay):
    the values then fit the storage of the field whose place they take."""
    keys = list(keys)
    if order == 0:
        return keys
    if order == 1:
        return keys[::-1]
    if order == 2:
        groups = {}
        for j, sh in enumerate(shapes if shapes is not None else [()] * len(keys)):
            groups.setdefault(tuple(sh), []).append(j)
        out = list(keys)
        for js in groups.values():
            out[js[0]], out[js[-1]] = keys[js[-1]], keys[js[0]]
        return out
    raise AssertionError(order)


class SpelledProfile(Profile):
    """A Profile whose add_sample arguments can be spelled the way the model chooses (spec/Ring.tla AddAs):
    value form of the documented-float fields, integral (half=0) or fractional (half=1) values, keyword order.
    The profile remembers what was passed for every id, and a stored / sampled row of that id must equal exactly
    those values cast to the documented storage dtype.  Without spelled calls it behaves like the base profile."""

    def __init__(self, base):
        super().__init__(base.name, base.keys, base.dtypes, base.shapes, base.weak)
        self.fed = {}

    def encode_as(self, i, form="float", half=0, order=0):
        """Keyword arguments (in the order the call site writes them) for transition id i."""
        if form not in VALUE_FORMS or (half and form != "float"):
            raise AssertionError((form, half))
        vals = self.encode(i)
        for k, dt, sh in zip(self.keys, self.dtypes, self.shapes):
            if np.dtype(dt).kind != "f":
                continue  # integer / bool fields: always Python ints
            if form == "float":
                if half:
                    vals[k] = (np.asarray(vals[k], dtype=np.float64) + 0.5) if sh else float(vals[k]) + 0.5
                continue
            v = i % 2 if k in self.weak else i
            if form == "pyint":
                vals[k] = np.full(sh, v, dtype=np.int64).tolist()  # int, or nested lists of ints
            elif form == "npint":
                vals[k] = np.full(sh, v, dtype=np.int64) if sh else np.int64(v)
            elif form == "npuint8":
                vals[k] = np.full(sh, v, dtype=np.uint8) if sh else np.uint8(v)
            elif form == "jaxint":
                import jax.numpy as jnp

                vals[k] = jnp.full(sh, v, dtype=jnp.int32)
        self.fed[int(i)] = {k: np.array(np.asarray(vals[k])) for k in self.keys}
        return {k: vals[k] for k in key_order(self.keys, order, self.shapes)}

    def stored(self, i):
        if i in self.fed:
            return {k: self.fed[i][k].astype(dt) for k, dt in zip(self.keys, self.dtypes)}
        return super().stored(i)


def spelled(profile):
    return profile if isinstance(profile, SpelledProfile) else SpelledProfile(profile)


class StubRng:
    """Stands in for numpy.random.Generator; answers from a script and records
    how it was asked, so that the *range* the buffer samples from is observable."""

    def __init__(self):
        self.script = []  # list of (kind, value)
        self.calls = []

    def push(self, kind, value):
        self.script.append((kind, value))

    def _pop(self, kind):
        if not self.script:
            raise Mismatch(f"buffer drew more random numbers than the model ({kind})")
        k, v = self.script.pop(0)
        if k != kind:
            raise Mismatch(f"buffer drew '{kind}' where the model expects '{k}'")
        return v

    def integers(self, low, high=None, size=None, **kw):
        if high is None:
            low, high = 0, low
        self.calls.append(("integers", int(low), int(high), size))
        v = np.asarray(self._pop("integers"), dtype=int)
        n = size if isinstance(size, int) else (int(np.prod(size)) if size is not None else 1)
        if v.size != n:
            raise Mismatch(f"batch size {n} differs from model {v.size}")
        if np.any(v < low) or np.any(v >= high):
            raise Mismatch(f"model index {v.tolist()} outside the sampled range [{low},{high})")
        return v

    def uniform(self, low=0.0, high=1.0, size=None):
        self.calls.append(("uniform", np.asarray(low).tolist(), np.asarray(high).tolist(), size))
        f = self._pop("uniform")
        return np.asarray(f(np.asarray(low, dtype=float), np.asarray(high, dtype=float), size), dtype=float)

    def choice(self, a, size=None, **kw):
        self.calls.append(("choice", [int(x) for x in a], size))
        v = self._pop("choice")
        if v not in list(a):
            raise Mismatch(f"model task {v} not offered by the buffer's active set {list(a)}")
        return np.asarray([v])


def batch_rows(batch, profile):
    """namedtuple Batch -> list of per-row dicts (numpy)."""
    d = batch._asdict()
    if list(d.keys()) != list(profile.keys):
        raise Mismatch(f"batch fields {list(d.keys())} differ from keys {profile.keys}")
    n = None
    for k in d:
        a = np.asarray(d[k])
        n = a.shape[0] if n is None else n
        if a.shape[0] != n:
            raise Mismatch("fields of a batch have different leading sizes")
    return [{k: np.asarray(d[k])[j] for k in d} for j in range(n)]


def project_ring(buf, profile):
    """Abstract state of a (uniform / LAP / PER) ring buffer: ids per valid slot."""
    n = buf.buffer_size
    store = []
    for i in range(n):
        if i < buf.current_len:
            row = {k: buf.buffer[k][i] for k in profile.keys}
            for k, dt in zip(profile.keys, profile.dtypes):
                if buf.buffer[k].dtype != np.dtype(dt):
                    raise Mismatch(f"storage dtype of {k} is {buf.buffer[k].dtype}, documented {np.dtype(dt)}")
            store.append(profile.decode_row(row))
        else:
            store.append(0)
    if len(buf) != buf.current_len:
        raise Mismatch("len() differs from current_len")
    return store, int(buf.insert_idx), int(buf.current_len)


# ------------------------------------------------------------------ subtrajectory buffers
def st_reward(ep, t):
    """reward tag of step t of episode ep: negative on odd steps (a query that takes absolute values in place,
    or any other read-only call that writes, then shows in the stored / sampled rows)"""
    v = 1000 + 64 * ep + t
    return -v if t % 2 else v


def st_values(ep, t, end):
    """add_sample arguments for step t of episode ep (D1 tags)."""
    return dict(
        observation=np.array([ep, t], dtype=float),
        action=float(64 * ep + t),
        reward=float(st_reward(ep, t)),
        next_observation=np.array([ep, t + 1], dtype=float),
        terminated=int(end == "term"),
        truncated=int(end == "trunc"),
    )


def st_expected_fields(row):
    """Field values a model row [kind, ep, t, term, trunc] stands for."""
    ep, t = row["ep"], row["t"]
    if row["kind"] == "step":
        return dict(observation=[ep, t], action=64 * ep + t, reward=st_reward(ep, t), next_observation=[ep, t + 1],
                    terminated=int(row["term"]), truncated=int(row["trunc"]))
    if row["kind"] == "extra":
        return dict(observation=[ep, t], action=64 * ep + t - 1, reward=0, next_observation=[ep, t],
                    terminated=int(row["term"]), truncated=int(row["trunc"]))
    raise Mismatch("model row is an unwritten slot")


def st_decode(fields):
    """One stored / sampled row -> model record, or Mismatch if the fields do not belong together."""
    o = [float(x) for x in np.asarray(fields["observation"]).reshape(-1)]
    n = [float(x) for x in np.asarray(fields["next_observation"]).reshape(-1)]
    a, r = float(fields["action"]), float(fields["reward"])
    te, tr = int(fields["terminated"]), int(fields["truncated"])
    for v in o + n + [a, r]:
        if not np.isfinite(v) or abs(v) > 1e7 or v != int(v):
            raise Mismatch(f"row holds {v!r}: not a stored transition (unwritten slot?)")
    ep, t = int(o[0]), int(o[1])
    if r == 0 and o == n:
        if a != 64 * ep + t - 1:
            raise Mismatch(f"successor row of episode {ep} carries a foreign action {a}")
        return {"kind": "extra", "ep": ep, "t": t, "term": bool(te), "trunc": bool(tr)}
    if n != [ep, t + 1] or a != 64 * ep + t or r != st_reward(ep, t):
        raise Mismatch(f"row mixes fields of different transitions: obs={o} next={n} action={a} reward={r}")
    return {"kind": "step", "ep": ep, "t": t, "term": bool(te), "trunc": bool(tr)}


NONE_ROW = {"kind": "none", "ep": 0, "t": 0, "term": False, "trunc": False}


def project_subtraj(buf, prio=False):
    n = buf.buffer_size
    slots = []
    for i in range(n):
        if i < buf.current_len:
            slots.append(st_decode({k: buf.buffer[k][i] for k in buf.buffer}))
        else:
            slots.append(dict(NONE_ROW))
    v = {
        "slots": slots,
        "mask": [int(x) for x in buf.mask_],
        "ins": int(buf.insert_idx),
        "len": int(buf.current_len),
        "epT": int(buf.episode_timesteps),
        "envTerm": bool(buf.environment_terminates),
        "prio": [0] * n,
        "maxPrio": 1,
        "sampled": [],
    }
    if len(buf) != buf.current_len:
        raise Mismatch("len() differs from current_len")
    if prio:
        pr = []
        for i in range(n):
            if i < buf.current_len:
                x = float(buf.priority.priority[i])
                if x != int(x):
                    raise Mismatch(f"priority {x} of slot {i} is not one of the supplied values")
                pr.append(int(x))
            else:
                pr.append(0)
        v["prio"] = pr
        mp = float(buf.priority.max_priority)
        v["maxPrio"] = int(mp) if mp == int(mp) else mp
        v["sampled"] = [int(x) for x in np.asarray(buf.priority.sampled_indices).reshape(-1)]
    return v
