"""Run TLC / SANY on the specification modules under /verif/spec and parse results.

One source of truth: every module lives flat in /verif/spec so that EXTENDS /
INSTANCE resolve; configurations (constants per tier) are generated here as
cfg text and written under out/tmp.
"""
from __future__ import annotations

import json
import os
import re
import shutil
import subprocess
import time
import uuid
from dataclasses import dataclass, field

ROOT = os.path.dirname(os.path.dirname(os.path.abspath(__file__)))
SPEC = os.path.join(ROOT, "spec")
OUT = os.path.join(ROOT, "out")
JAR = "/opt/veriftools/tla/tla2tools.jar"
CM = "/opt/veriftools/tla/CommunityModules-deps.jar"


class MachineryError(Exception):
    """The verifier itself failed (exit 2), never a property verdict."""


@dataclass
class TlcResult:
    ok: bool  # no invariant / property violation, no error
    stdout: str
    generated: int = 0  # "states generated"  (= transitions examined)
    distinct: int = 0
    depth: int = 0
    violated: str | None = None  # name of violated invariant/property
    emitted: list = field(default_factory=list)  # parsed PrintT <<"EMIT", json>>
    printed: list = field(default_factory=list)  # other PrintT tuples (raw text)
    coverage: dict = field(default_factory=dict)  # action name -> (distinct, total)
    wall_s: float = 0.0
    error_trace: str = ""


def _java_cmd():
    # the `tlc` wrapper on PATH sets the classpath incl. CommunityModules
    return shutil.which("tlc") or "tlc"


def cfg_text(
    *,
    init="Init",
    next="Next",
    spec=None,
    constants=None,
    invariants=(),
    properties=(),
    constraints=(),
    action_constraints=(),
    view=None,
    postcondition=None,
    deadlock=False,
    symmetry=None,
):
    lines = []
    if spec:
        lines.append(f"SPECIFICATION {spec}")
    else:
        lines += [f"INIT {init}", f"NEXT {next}"]
    if constants:
        lines.append("CONSTANTS")
        for k, v in constants.items():
            lines.append(f"  {k} = {tla_value(v)}" if not isinstance(v, Subst) else f"  {k} <- {v.name}")
    for i in invariants:
        lines.append(f"INVARIANT {i}")
    for p in properties:
        lines.append(f"PROPERTY {p}")
    for c in constraints:
        lines.append(f"CONSTRAINT {c}")
    for c in action_constraints:
        lines.append(f"ACTION_CONSTRAINT {c}")
    if view:
        lines.append(f"VIEW {view}")
    if postcondition:
        lines.append(f"POSTCONDITION {postcondition}")
    if symmetry:
        lines.append(f"SYMMETRY {symmetry}")
    lines.append(f"CHECK_DEADLOCK {'TRUE' if deadlock else 'FALSE'}")
    return "\n".join(lines) + "\n"


class Subst:
    def __init__(self, name):
        self.name = name


def tla_value(v):
    if isinstance(v, bool):
        return "TRUE" if v else "FALSE"
    if isinstance(v, int):
        if v < 0:
            raise ValueError("cfg cannot hold negative ints; use Subst")
        return str(v)
    if isinstance(v, str):
        return json.dumps(v)
    if isinstance(v, (set, frozenset)):
        return "{" + ", ".join(tla_value(x) for x in sorted(v, key=repr)) + "}"
    if isinstance(v, (list, tuple)):
        return "<<" + ", ".join(tla_value(x) for x in v) + ">>"
    raise TypeError(v)


_STATS = re.compile(r"(\d+) states generated, (\d+) distinct states found")
_DEPTH = re.compile(r"The depth of the complete state graph search is (\d+)")
_INV = re.compile(r"Error: Invariant (\S+) is violated")
_PROP = re.compile(r"Error: (?:Action property|Temporal properties?) (\S+)?.*violated")
_COV = re.compile(r"^<(\w+) line \d+, col \d+ to line \d+, col \d+ of module (\w+)>: (\d+):(\d+)", re.M)


def _parse_emits(stdout, res):
    # PrintT of <<"EMIT", "json-escaped">> always is on one line with 1 worker
    for line in stdout.splitlines():
        if line.startswith('<<"EMIT", "'):
            body = line[len('<<"EMIT", ') : -2]
            try:
                res.emitted.append(json.loads(json.loads(body)))
            except Exception as e:  # pragma: no cover
                raise MachineryError(f"cannot parse EMIT line: {line[:200]} ({e})")
        elif line.startswith("<<") and line.endswith(">>"):
            res.printed.append(line)


def run(
    module,
    cfg,
    *,
    workers=16,
    timeout=900,
    env=None,
    coverage=False,
    simulate=None,
    depth=None,
    seed=None,
    tag=None,
    expect_violation=False,
    dfs=False,
    heap_gb=8,
):
    """Run TLC on spec/<module>.tla with the given cfg text."""
    tag = tag or module
    rid = f"{tag}-{os.getpid()}-{uuid.uuid4().hex[:6]}"
    tmp = os.path.join(OUT, "tmp", rid)
    os.makedirs(tmp, exist_ok=True)
    cfgp = os.path.join(tmp, module + ".cfg")
    with open(cfgp, "w") as f:
        f.write(cfg)
    cmd = [
        _java_cmd(),
        "-workers",
        str(workers),
        "-metadir",
        os.path.join(tmp, "meta"),
        "-noGenerateSpecTE",
        "-config",
        cfgp,
    ]
    if coverage:
        cmd += ["-coverage", "1"]
    if simulate:
        cmd += ["-simulate", simulate]
    if depth:
        cmd += ["-depth", str(depth)]
    if seed is not None:
        cmd += ["-seed", str(seed)]
    cmd.append(os.path.join(SPEC, module + ".tla"))
    e = dict(os.environ)
    opts = f"-Xmx{heap_gb}g"
    if dfs:
        opts += " -Dtlc2.tool.queue.IStateQueue=StateDeque"
    e["JAVA_TOOL_OPTIONS"] = (e.get("JAVA_TOOL_OPTIONS", "") + " " + opts).strip()
    if env:
        e.update(env)
    t0 = time.time()
    try:
        p = subprocess.run(cmd, capture_output=True, text=True, timeout=timeout, env=e, cwd=tmp)
    except subprocess.TimeoutExpired:
        subprocess.run(["pkill", "-f", rid], check=False)
        shutil.rmtree(tmp, ignore_errors=True)
        raise MachineryError(f"TLC timeout after {timeout}s on {module}")
    out = p.stdout
    res = TlcResult(ok=False, stdout=out, wall_s=time.time() - t0)
    m = None
    for m in _STATS.finditer(out):
        pass
    if m:
        res.generated, res.distinct = int(m.group(1)), int(m.group(2))
    m = _DEPTH.search(out)
    if m:
        res.depth = int(m.group(1))
    for m in _COV.finditer(out):
        name = m.group(1)
        d, t = int(m.group(3)), int(m.group(4))
        od, ot = res.coverage.get(name, (0, 0))
        res.coverage[name] = (od + d, ot + t)
    _parse_emits(out, res)
    mi = _INV.search(out)
    if mi:
        res.violated = mi.group(1)
    elif "is violated" in out:
        mp = re.search(r"Error: (.*violated.*)", out)
        res.violated = mp.group(1) if mp else "property"
    if res.violated:
        i = out.find("Error:")
        res.error_trace = out[i : i + 6000]
    finished = "Model checking completed. No error has been found." in out or (
        simulate and "Finished in" in out and "Error:" not in out
    )
    res.ok = bool(finished) and res.violated is None
    shutil.rmtree(tmp, ignore_errors=True)
    if not res.ok and res.violated is None:
        # parse/semantic error, evaluation error, assumption failure, crash
        i = out.find("Error")
        raise MachineryError(f"TLC failed on {module}: {out[i:i+3000] if i >= 0 else out[-3000:]}\n{p.stderr[-500:]}")
    if res.violated and not expect_violation:
        pass  # caller decides (design-level violation)
    return res


def sany(module):
    p = subprocess.run(
        [shutil.which("tla-sany") or "tla-sany", os.path.join(SPEC, module + ".tla")],
        capture_output=True,
        text=True,
        cwd=SPEC,
    )
    if "Semantic errors" in p.stdout or "***Parse Error***" in p.stdout or p.returncode != 0:
        raise MachineryError(f"SANY rejects {module}:\n{p.stdout[-2000:]}")
    return True


def require_covered(res: TlcResult, actions):
    """Vacuity guard: every named action must have been taken at least once."""
    missing = [a for a in actions if res.coverage.get(a, (0, 0))[1] == 0]
    if missing:
        raise MachineryError(f"actions never taken (vacuous model): {missing}")
