"""Stub networks for function-level checks (DESIGN 3.3, "Stub modules").

Every class here is a genuine ``flax.nnx.Module`` whose forward pass is a
bias-free linear map.  Fed with one-hot observations the map is a *table
lookup*, so that

* every "network output" is a number chosen by the specification (TLC) - if
  the table holds dyadic rationals all float32 arithmetic downstream is exact;
* parameters are ``nnx.Param``s: ``jax.grad`` / ``nnx.grad`` exist, are
  rational, and the gradient w.r.t. cell ``[s, k]`` of a table is exactly the
  derivative of the loss w.r.t. output ``k`` of the row(s) whose observation
  is state ``s`` (each batch row can be given its own state);
* the REAL rl_blox code (losses, ``ContinuousClippedDoubleQNet``, ``SALE``,
  ``ModelBasedEncoder`` methods) runs unmodified on top of them.

Conventions
-----------
``onehot(idx, n)``                     observation encoding, float32, shape (..., n)
``LinearTable(T)``                     ``x -> x @ T``; ``T`` shape (n_in, n_out)
  discrete critic   Q(onehot(s))             = T[s, :]           (n_out = #actions)
  det. policy       pi(onehot(s))            = T[s, :]           (n_out = action dim)
  logits            logits(onehot(s))        = T[s, :]
  cont. critic      Q([onehot(s), a])        = w[s] + v . a      (``qsa_table(w, v)``; output shape (N, 1) like an MLP head)
``SaleCritic(K, Ka, Kb)``              TD7 critic signature ``q(sa, zsa=, zs=) = sa@K + zsa@Ka + zs@Kb``
``ScriptedStochasticPolicy(A, L, c)``  ``sample(o, key) = o @ A`` (key recorded, not used),
                                       ``log_probability(o, a) = (o @ L)[:, 0] + a @ c``
``Scale(s)``                           ``x -> s * x`` (exact stand-in for a normalisation layer)
``Affine(g, b)``                       ``x -> g * x + b`` (does not commute with relu: stage order is visible)
``make_model_based_encoder_cfg``       ``ModelBasedEncoder`` through its REAL constructor (activation name, activation-in-last-layer
                                       flag), sub-networks swapped for tables afterwards
``make_double_q``, ``make_sale``, ``make_model_based_encoder``
                                       the repository's own wrapper classes around stub sub-networks

Row identity device: give batch row ``i`` its own one-hot state (and, where a
network sees only latent codes, a one-hot action ``e_i``); then the cell that
belongs to row ``i`` can be solved for so that the network output equals the
value the specification chose, and all other cells are free ("irrelevant
cells", randomised by the drivers).

NNX: never close over these modules in a differentiated / jitted lambda.  Use
``split(m)`` -> (graphdef, state) and ``nnx.merge`` inside the function, see
``functional``.

Nothing in this file imports rl_blox at module import time.
"""
from __future__ import annotations

import jax
import jax.numpy as jnp
import numpy as np
from flax import nnx


def onehot(idx, n):
    """One-hot float32 encoding of integer states; shape ``idx.shape + (n,)``."""
    idx = np.asarray(idx, dtype=np.int64)
    out = np.zeros(idx.shape + (n,), dtype=np.float32)
    np.put_along_axis(out, idx[..., None], 1.0, axis=-1)
    return out


def identity(x):
    """Identity activation (module-level so that it hashes stably as a static attribute)."""
    return x


class LinearTable(nnx.Module):
    """Bias-free linear map ``x -> x @ T``; a table lookup on one-hot inputs."""

    def __init__(self, table):
        self.kernel = nnx.Param(jnp.asarray(np.asarray(table, dtype=np.float32)))

    def __call__(self, x):
        return x @ self.kernel.value


def qsa_table(w, v):
    """Continuous-action critic ``Q([onehot(s), a]) = w[s] + v . a`` with output shape (N, 1)."""
    w = np.asarray(w, dtype=np.float32).reshape(-1, 1)
    v = np.asarray(v, dtype=np.float32).reshape(-1, 1)
    return LinearTable(np.concatenate([w, v], axis=0))


class SaleCritic(nnx.Module):
    """TD7 ``CriticSALE`` signature: ``q(sa, zsa=, zs=) = sa @ K + zsa @ Ka + zs @ Kb`` (shape (N, 1))."""

    def __init__(self, k, ka, kb):
        self.k = nnx.Param(jnp.asarray(np.asarray(k, dtype=np.float32).reshape(-1, 1)))
        self.ka = nnx.Param(jnp.asarray(np.asarray(ka, dtype=np.float32).reshape(-1, 1)))
        self.kb = nnx.Param(jnp.asarray(np.asarray(kb, dtype=np.float32).reshape(-1, 1)))

    def __call__(self, sa, zsa, zs):
        return sa @ self.k.value + zsa @ self.ka.value + zs @ self.kb.value


class ScriptedStochasticPolicy(nnx.Module):
    """Stochastic policy with scripted sample / log-probability.

    ``sample(o, key) = o @ A`` - the "sampled" action of state ``s`` is ``A[s]``;
    ``log_probability(o, a) = (o @ L)[:, 0] + a @ c`` - shape (N,), depends on
    the action so that passing a wrong action is visible.  All three tables are
    parameters (gradients w.r.t. them must vanish in a critic loss).
    """

    def __init__(self, actions, logp, c):
        self.actions = nnx.Param(jnp.asarray(np.asarray(actions, dtype=np.float32)))
        self.logp = nnx.Param(jnp.asarray(np.asarray(logp, dtype=np.float32).reshape(-1, 1)))
        self.c = nnx.Param(jnp.asarray(np.asarray(c, dtype=np.float32).reshape(-1)))

    def __call__(self, observation):
        return observation @ self.actions.value

    def sample(self, observation, key):
        return observation @ self.actions.value

    def log_probability(self, observation, action):
        return (observation @ self.logp.value)[..., 0] + action @ self.c.value

    def entropy(self, observation):
        return -(observation @ self.logp.value)[..., 0]


class Scale(nnx.Module):
    """``x -> s * x``; with s a power of two an exact stand-in for a normalisation layer."""

    def __init__(self, s):
        self.s = float(s)

    def __call__(self, x):
        return self.s * x


def make_double_q(q1, q2):
    """The repository's ``ContinuousClippedDoubleQNet`` around two stub critics."""
    from rl_blox.blox.double_qnet import ContinuousClippedDoubleQNet

    return ContinuousClippedDoubleQNet(q1, q2)


def make_sale(state_table, sa_table):
    """The repository's ``SALE`` (incl. its AvgL1Norm) around two ``LinearTable``s.

    ``state_table``: (n_states, zs_dim) un-normalised state embedding;
    ``sa_table``: (zs_dim + action_dim, zs_dim) state-action embedding.
    """
    from rl_blox.blox.embedding.sale import SALE

    return SALE(LinearTable(state_table), LinearTable(sa_table))


def make_model_based_encoder(zs_table, za_table, zsa_table, model_table, zs_dim, norm_scale=2.0):
    """The repository's ``ModelBasedEncoder`` with stub sub-networks.

    The real ``encode_zs`` / ``encode_zsa`` / ``model_head`` methods run
    unmodified; only the sub-networks are replaced:
    ``zs`` = LinearTable (n_states, zs_dim), ``zs_layer_norm`` = Scale(norm_scale),
    ``za`` = LinearTable (action_dim, za_dim), activation = identity,
    ``zsa`` = LinearTable (zs_dim + za_dim, zsa_dim),
    ``model`` = LinearTable (zsa_dim, 1 + zs_dim + n_bins).
    So ``encode_zs(onehot(s)) = norm_scale * zs_table[s]`` differs from
    ``zs(onehot(s))``.
    """
    from rl_blox.blox.embedding.model_based_encoder import ModelBasedEncoder

    class StubModelBasedEncoder(ModelBasedEncoder):
        def __init__(self):  # the real constructor builds MLPs; not called
            self.zs = LinearTable(zs_table)
            self.za = LinearTable(za_table)
            self.zsa = LinearTable(zsa_table)
            self.model = LinearTable(model_table)
            self.zs_dim = int(zs_dim)
            self.activation = identity
            self.zs_layer_norm = Scale(norm_scale)
            self.encoder_activation_in_last_layer = False

    return StubModelBasedEncoder()


class Affine(nnx.Module):
    """``x -> gain * x + shift`` (static numbers): the affine part of a normalisation layer.  With dyadic gain / shift the
    map is exact on dyadic inputs; with ``shift != 0`` it does not commute with relu-like activations, so the ORDER of a
    normalisation stage and an activation stage is visible in the values."""

    def __init__(self, gain, shift):
        self.gain = float(gain)
        self.shift = float(shift)

    def __call__(self, x):
        return self.gain * x + self.shift


def make_model_based_encoder_cfg(zs_table, za_table, zsa_table, model_table, zs_dim, activation="relu",
                                 encoder_activation_in_last_layer=False, ln_gain=2.0, ln_shift=0.0, zsa_module=None):
    """The repository's ``ModelBasedEncoder`` built by its REAL constructor in a given configuration.

    ``activation`` (name of a ``flax.nnx`` function, resolved by the real constructor) and
    ``encoder_activation_in_last_layer`` go through ``ModelBasedEncoder.__init__``; the real ``encode_zs`` /
    ``encode_zsa`` / ``model_head`` run unmodified.  Afterwards only the sub-networks are swapped for table lookups
    (``zs``, ``za``, ``zsa``, ``model`` = ``LinearTable``; ``zs_layer_norm`` = ``Affine(ln_gain, ln_shift)``), so
    ``encode_zs(onehot(s)) = [activation](ln_gain * zs_table[s] + ln_shift)``.
    ``zsa_module``: optional replacement for the state-action layer (a module with a ``kernel`` parameter).
    """
    from rl_blox.blox.embedding.model_based_encoder import ModelBasedEncoder

    enc = ModelBasedEncoder(
        n_state_features=1, n_action_features=1, n_bins=1, zs_dim=int(zs_dim), za_dim=1, zsa_dim=1, hidden_nodes=[],
        activation=activation, encoder_activation_in_last_layer=encoder_activation_in_last_layer, rngs=nnx.Rngs(0),
    )
    enc.zs = LinearTable(zs_table)
    enc.za = LinearTable(za_table)
    enc.zsa = LinearTable(zsa_table) if zsa_module is None else zsa_module
    enc.model = LinearTable(model_table)
    enc.zs_layer_norm = Affine(ln_gain, ln_shift)
    return enc


def split(module):
    """``(graphdef, state)`` of a module; states are pytrees that can be stacked / differentiated."""
    return nnx.split(module)


def functional(fn, graphdefs):
    """Turn ``fn(*modules, *arrays)`` into ``g(states_tuple, *arrays)``.

    The modules are re-created from ``graphdefs`` and the given states *inside*
    ``g``, so ``g`` may be wrapped by ``jax.grad`` / ``jax.vmap`` / ``jax.jit``
    (differentiate w.r.t. argument 0 to get gradients for every module).
    """

    def g(states, *arrays):
        mods = [nnx.merge(gd, st) for gd, st in zip(graphdefs, states)]
        return fn(*mods, *arrays)

    return g


def stack_states(states_list):
    """Stack a list of identically structured state pytrees along a new leading axis (for ``jax.vmap``)."""
    return jax.tree.map(lambda *xs: jnp.stack(xs), *states_list)


def leaves(state):
    """Dict path -> numpy array of the parameter leaves of a state / gradient pytree."""
    out = {}
    for path, leaf in jax.tree_util.tree_flatten_with_path(state)[0]:
        out[jax.tree_util.keystr(path)] = np.asarray(leaf)
    return out
