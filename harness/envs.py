"""Scripted, recording environments (device D1: observations ARE identifiers).

ScriptEnv is a real gymnasium.Env whose episodes follow a script
[(length, "term" | "trunc" | "both"), ...] (cycled; "both": the last step of the
episode returns terminated=True AND truncated=True at once, as gymnasium's
TimeLimit does when a terminal state is reached on the limit step).  Observation of step t of episode
ep is the tag [ep, t, env_id]; reward = 16*(ep % 8) + t + 1/4 (exact).  Every
reset / step / action_space.sample() is reported to a Recorder.  A step taken
after the episode ended is logged (after_end) instead of raised, so that the
trace specification - not the environment - gives the verdict; after a few
such steps the environment aborts the run (RunAway) to keep runs finite.

Options (defaults leave everything above unchanged): `stay=k` holds every
state for k consecutive steps (observation of step t is that of t // k:
self-transitions, next_observation == observation); `reward_scale` multiplies
the reward (negative: the value of the action just tried goes DOWN, so an
update can change the maximiser of the row it touches); `exec_probe` - set by
an adapter of a value-based routine - is called with the observation the
environment returned last at the moment an action is received and returns
extra fields of the `step` event (`qrow_fields`: the action values of the
routine's CURRENT estimate at that observation).
"""
from __future__ import annotations

import hashlib

import gymnasium as gym
import numpy as np


class RunAway(Exception):
    """The routine keeps stepping an ended environment / exceeds every bound."""


def adigest(a) -> str:
    a = np.asarray(a)
    return hashlib.sha1(a.dtype.str.encode() + repr(a.shape).encode() + a.tobytes()).hexdigest()[:12]


class Recorder:
    """Collects the event stream of one run."""

    def __init__(self):
        self.events = []
        self.watch = {}  # name -> callable returning digest string
        self.versions = {}  # name -> {digest: version id}
        self.enabled = True
        self.max_events = 200000
        self.last_digest = ""
        self.last_same = []
        self._last_raw = {}
        self.law = {}
        self.last_rel = []

    def watch_module(self, name, module):
        from .digests import module_digest

        self.watch[name] = lambda m=module: module_digest(m)

    def watch_fn(self, name, fn):
        self.watch[name] = fn

    def watch_law(self, target_name, target_module, online_module, tau):
        """The watched target is documented to follow target' = tau*online + (1-tau)*target (tau=1: hard copy).
        Whenever its content changes, the relation between its previous value, the online network's current value
        and its new value is judged (float32 recomputation, a few ulp) and logged as the event field `rel`."""
        self.law[target_name] = [target_module, online_module, float(tau), None]

    @staticmethod
    def _leaves(module):
        import jax
        from flax import nnx

        return [np.asarray(x) for x in jax.tree_util.tree_leaves(nnx.state(module))]

    def _judge_laws(self, changed_names):
        rel = []
        for name, ent in self.law.items():
            tmod, omod, tau, prev = ent
            cur = self._leaves(tmod)
            if prev is not None and name in changed_names:
                on = self._leaves(omod)
                ok = len(on) == len(cur) == len(prev)
                if ok:
                    for a, b, c in zip(on, prev, cur):
                        if a.shape != c.shape or b.shape != c.shape:
                            ok = False
                            break
                        if not np.issubdtype(c.dtype, np.floating):
                            continue
                        want = np.float32(tau) * a.astype(np.float32) + np.float32(1.0 - tau) * b.astype(np.float32)
                        tol = 8 * np.finfo(np.float32).eps * (np.abs(a) + np.abs(b) + 1e-30)
                        if not np.all(np.abs(c.astype(np.float32) - want) <= tol):
                            ok = False
                            break
                rel.append([name, "polyak" if ok else "other"])
            ent[3] = cur
        return rel

    def snapshot(self):
        out = {}
        hh = hashlib.sha1()
        before = dict(self._last_raw)
        for name, fn in self.watch.items():
            try:
                d = fn()
            except Exception as e:  # a watched object may be mid-update inside a transform
                d = f"unreadable:{type(e).__name__}"
            self._last_raw[name] = d
            ids = self.versions.setdefault(name, {})
            if d not in ids:
                ids[d] = len(ids)
            out[name] = ids[d]
            hh.update(name.encode() + d.encode())
        self.last_digest = hh.hexdigest()[:12]  # content digest of all watched components (for determinism)
        # groups of watched components with bit-identical content (copy relations, e.g. target == online after a hard update)
        by = {}
        for name in self.watch:
            dd = self._last_raw.get(name)
            if dd is not None and not dd.startswith("unreadable"):
                by.setdefault(dd, []).append(name)
        self.last_same = [sorted(v) for v in by.values() if len(v) > 1]
        if self.law:
            self.last_rel = self._judge_laws({n for n in self.law if n in before and before[n] != self._last_raw.get(n)})
        return out

    def emit(self, ev, **fields):
        if not self.enabled:
            return
        if len(self.events) > self.max_events:
            raise RunAway("event limit")
        rec = {"ev": ev}
        rec.update(fields)
        if self.watch:
            rec["ver"] = self.snapshot()
            rec["vd"] = self.last_digest
            rec["same"] = self.last_same
            if self.law:
                rec["rel"] = self.last_rel
        self.events.append(rec)


def qrow_fields(values):
    """Action values of a routine's current estimate at one observation -> fields of the `step` event:
    has_q, qrow (float32 ordinals, device D4: TLC decides who the maximisers are)."""
    from .exact import ord32

    try:
        v = np.asarray(values, dtype=np.float32).reshape(-1)
    except Exception as e:  # the estimate cannot be read: nothing to judge (never a verdict)
        return {"has_q": False, "q_note": f"unreadable:{type(e).__name__}"}
    if v.size == 0 or not bool(np.all(np.isfinite(v))):
        return {"has_q": False, "q_note": "empty or non-finite"}
    return {"has_q": True, "qrow": [ord32(x) for x in v]}


class LoggedBox(gym.spaces.Box):
    def attach(self, rec, env_id=0):
        self._rec, self._env_id = rec, env_id
        return self

    def sample(self, mask=None, probability=None):
        a = super().sample()
        r = getattr(self, "_rec", None)
        if r is not None:
            r.emit("explore", act=adigest(np.asarray(a, dtype=np.float32)), env=self._env_id)
        return a


class LoggedDiscrete(gym.spaces.Discrete):
    def attach(self, rec, env_id=0):
        self._rec, self._env_id = rec, env_id
        return self

    def sample(self, mask=None, probability=None):
        a = super().sample()
        r = getattr(self, "_rec", None)
        if r is not None:
            r.emit("explore", act=int(a), env=self._env_id)
        return a


class ScriptEnv(gym.Env):
    metadata = {"render_modes": []}

    def __init__(self, rec: Recorder, script, *, discrete_actions=None, low=(-1.0,), high=(1.0,), discrete_obs=None, env_id=0, max_after_end=3, obs_dim=3,
                 act_dtype=np.float32, stay=1, reward_scale=1.0):
        self.rec, self.script, self.env_id = rec, list(script), env_id
        self.stay = max(1, int(stay))
        self.reward_scale = float(reward_scale)
        self.exec_probe = None  # callable(observation the env returned last) -> extra fields of the step event
        self.discrete_obs = discrete_obs
        if discrete_obs:
            self.observation_space = gym.spaces.Discrete(discrete_obs)
        else:
            self.observation_space = gym.spaces.Box(low=-1e6, high=1e6, shape=(obs_dim,), dtype=np.float32)
        self.obs_dim = obs_dim
        if discrete_actions:
            self.action_space = LoggedDiscrete(discrete_actions).attach(rec, env_id)
        else:
            self.action_space = LoggedBox(low=np.asarray(low, dtype=act_dtype), high=np.asarray(high, dtype=act_dtype), dtype=act_dtype).attach(rec, env_id)
        self.ep = -1
        self.t = 0
        self.ended = True
        self.after_end = 0
        self.max_after_end = max_after_end
        self.n_steps = 0

    # -- tags
    def _obs(self):
        if self.stay > 1:
            # every state is held for `stay` consecutive steps: self-transitions (successor == observation)
            return self._obs_at(self.t // self.stay)
        return self._obs_at(self.t)

    def _obs_at(self, t):
        if self.discrete_obs:
            # few states, and odd episodes advance two states per step: the same (state, action) pair is seen with
            # different successors (stochastic-looking transitions for model-based tabular learners), consecutive
            # observations always differ and a reset observation differs from the previous final one (lengths < 5)
            k = min(self.discrete_obs, 8)
            return int((self.ep * 5 + t * (1 + self.ep % 2)) % k)
        o = np.zeros(self.obs_dim, dtype=np.float32)
        o[0], o[1] = self.ep, t
        if self.obs_dim > 2:
            o[2] = self.env_id
        return o

    def _tag(self):
        return decode_obs(self._obs())

    def reset(self, *, seed=None, options=None):
        super().reset(seed=seed)
        if seed is not None:
            self.action_space.seed(seed)
        self.ep += 1
        self.t = 0
        self.ended = False
        self.after_end = 0
        self.rec.emit("reset", obs=self._tag(), env=self.env_id, seeded=seed is not None)
        return self._obs(), {}

    def step(self, action):
        a = np.asarray(action)
        after_end = self.ended
        if after_end:
            self.after_end += 1
        length, ending = self.script[self.ep % len(self.script)] if self.ep >= 0 else (1, "term")
        extra = {}
        if self.exec_probe is not None:
            # the routine's current estimate at the observation this action is executed in, read BEFORE anything moves
            extra = dict(self.exec_probe(self._obs()) or {})
        self.t += 1
        self.n_steps += 1
        done = self.t >= length
        term = bool(done and ending in ("term", "both"))
        trunc = bool(done and ending in ("trunc", "both"))
        reward = float(16 * (self.ep % 8) + self.t) + 0.25
        if self.reward_scale != 1.0:
            reward = self.reward_scale * reward
        if not after_end:
            self.ended = done
        inb = None
        if isinstance(self.action_space, gym.spaces.Box):
            a32 = np.asarray(a, dtype=np.float32).reshape(self.action_space.shape)
            from .exact import ord32

            actf = {"a": [ord32(x) for x in a32], "lo": [ord32(x) for x in self.action_space.low], "hi": [ord32(x) for x in self.action_space.high],
                    "finite": bool(np.all(np.isfinite(a32)))}
            act = adigest(a32)
        else:
            actf = {"n": int(self.action_space.n), "valid": bool(np.issubdtype(a.dtype, np.integer) or float(a) == int(a)) and 0 <= int(a) < int(self.action_space.n)}
            act = int(a)
        self.rec.emit("step", env=self.env_id, act=act, actf=actf, obs=self._tag(), r4=int(round(reward * 4)), term=term, trunc=trunc, after_end=bool(after_end), **extra)
        if self.after_end >= self.max_after_end:
            raise RunAway("routine keeps stepping an environment whose episode has ended")
        return self._obs(), reward, term, trunc, {}


def decode_obs(o, discrete_obs=None):
    """Observation value as handed around by a routine -> tag or raw int."""
    a = np.asarray(o)
    if a.ndim == 0:
        return [int(a), 0, 0]
    a = a.reshape(-1)
    return [int(round(float(x))) for x in a[:3]] if a.size >= 3 else [int(round(float(x))) for x in a] + [0] * (3 - a.size)
