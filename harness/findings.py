"""Known findings: /verif/known_findings.json, never written at run time.

Each entry: {"property": "Cxx", "key": "<stable id of the failing call site /
input / history>", "status": "open" | "fixed", "what": "...", "commit": "..."}.
Only status == "open" suppresses a VIOLATION (turning it into a KNOWN-FINDING
line); a fixed entry suppresses nothing.
"""
import json
import os

ROOT = os.path.dirname(os.path.dirname(os.path.abspath(__file__)))
PATH = os.path.join(ROOT, "known_findings.json")


def load():
    if not os.path.exists(PATH):
        return []
    with open(PATH) as f:
        return json.load(f)["findings"]


def open_keys(pid):
    return {e["key"]: e for e in load() if e["property"] == pid and e.get("status") == "open"}
