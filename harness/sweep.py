"""The training-routine sweep: run every registered adapter on the standard
scenarios (one worker process per routine, in parallel), validate all traces
with spec/LoopTrace.tla in one TLC run, and cache traces + verdicts keyed by
the content of /repo/rl_blox, the harness, the tier and the seed - so that the
seven properties served by the sweep (C01 C05 C06 C09 C10 C11 C13) share one
recording, and any change to the repository re-records.
"""
from __future__ import annotations

import fcntl
import hashlib
import json
import os
import subprocess
import sys
import time
from concurrent.futures import ThreadPoolExecutor

from . import tlc

ROOT = os.path.dirname(os.path.dirname(os.path.abspath(__file__)))
CACHE = os.path.join(ROOT, ".cache", "sweep")

CLAUSE_PROPERTY = {
    "StoreObs": "C01", "StoreAct": "C01", "StoreReward": "C01", "StoreNext": "C01", "StoreTerm": "C01", "StoredNotProduced": "C01",
    "StoreTrunc": "C01", "FinalBufferFaithful": "C01", "LearnerOnCurrentEstimate": "C14", "InnerCallStart": "C11", "InnerReturnedCount": "C11",
    # rows that reach a learner (prepared batches of the on-policy routines) are single real environment steps; the experience
    # record of a model-based tabular learner (Dyna-Q's Counter) equals the multiset of environment steps so far
    "LearnRowObs": "C01", "LearnRowAct": "C01", "LearnRowReward": "C01", "LearnRowNext": "C01", "LearnRowTerm": "C01",
    "RecordNotProduced": "C01", "RecordCount": "C01", "RecordReward": "C01", "RecordMissing": "C01",
    "CondFaithful": "C01", "ExploredActionPassed": "C01", "ChosenActionPassed": "C01", "ActionWithoutChoice": "C01",
    "ActionInBounds": "C10",
    # exploration noise level 0: the environment receives exactly the live policy's (clipped) action
    "ExplorationNoiseScale": "C10",
    "NoStepAfterEnd": "C11", "BudgetRespected": "C11", "StopsAtEpisodeLimit": "C11", "NoLearnBeforeWarmup": "C11", "ReturnedCount": "C11",
    "GreedyIsMaximiser": "C13", "GreedyOnCurrentEstimate": "C13", "EpsilonZeroAlwaysGreedy": "C13", "EpsilonOneNeverGreedy": "C13",
    "PolicyBeforeWarmup": "C13", "ExploreOnlyInWarmup": "C13", "ExecutedActionGreedy": "C13",
    "FrozenComponentChanged": "C05", "StoringChangesNothing": "C05", "ActingChangesNothing": "C05", "TrainedOnlyWhenDue": "C05",
    "UpdateMissing": "C05", "ChangeOutsideLearning": "C05",
    "ResultComponentsDistinct": ("C05", "C06"), "HardCopyIsCopy": "C06", "TargetLawInRun": "C06", "CopyGroupIncomplete": "C06", # a target / frozen copy changing where no update of it is due means some update routine changed a component it
    # does not train (C05) and the target did not follow its cadence (C06)
    "TargetsOnlyAtUpdatePoints": ("C05", "C06"), "TargetUpdateMissing": "C06", "TargetChangeOutsideLearning": ("C05", "C06"),
}


VALUE_BASED = {"dqn", "nature_dqn", "ddqn", "ddqn_per", "q_learning", "sarsa", "double_q_learning", "monte_carlo", "dynaq"}


def _serves(clause, pid):
    p = CLAUSE_PROPERTY.get(clause)
    return p == pid or (isinstance(p, tuple) and pid in p)


def repo_root():
    return os.environ.get("VERIF_REPO_ROOT", "/repo")


def _hash_tree(h, base, suffix=".py"):
    for d, dirs, files in sorted(os.walk(base)):
        dirs.sort()
        if "__pycache__" in d:
            continue
        for f in sorted(files):
            if f.endswith(suffix):
                p = os.path.join(d, f)
                h.update(os.path.relpath(p, base).encode())
                with open(p, "rb") as fh:
                    h.update(fh.read())


def cache_key(tier, seed, extra=""):
    h = hashlib.sha256()
    _hash_tree(h, os.path.join(repo_root(), "rl_blox"))
    for f in sorted(os.listdir(os.path.join(ROOT, "harness"))):
        if f == "routines_enabled.txt" or f.endswith(".py") and (f.startswith("algos") or f in ("envs.py", "probes.py", "digests.py", "loopbind.py", "sweep.py", "sweep_worker.py")):
            h.update(open(os.path.join(ROOT, "harness", f), "rb").read())
    for f in ("LoopTrace.tla", "LoopClauses.tla"):
        h.update(open(os.path.join(ROOT, "spec", f), "rb").read())
    h.update(f"{tier}|{seed}|{extra}".encode())
    return h.hexdigest()[:24]


def routine_names():
    """Routines of the registered sweep: adapters approved by the coordinator (harness/routines_enabled.txt)."""
    from . import algos

    enabled = []
    tier = os.environ.get("VERIF_SWEEP_TIER", "quick")
    for line in open(os.path.join(ROOT, "harness", "routines_enabled.txt")):
        # "name name ..." applies to every tier, "thorough: name ..." only to the thorough tier
        if line.startswith("thorough:"):
            if tier == "thorough":
                enabled += line.split(":", 1)[1].split()
        else:
            enabled += line.split()
    missing = [n for n in enabled if n not in algos.ROUTINES]
    if missing:
        raise tlc.MachineryError(f"enabled routines without adapter: {missing}")
    return sorted(enabled)


def _run_worker(name, tier, seed, variant, outdir, timeout=420, attempts=3):
    """One worker process per routine.  A worker that hangs (observed rarely: an ordered jax.debug.callback
    inside a jitted sampler never returning under heavy machine load) is killed and re-run; runs are deterministic."""
    last = None
    for k in range(attempts):
        try:
            return _run_worker_once(name, tier, seed, variant, outdir, timeout * (k + 1))
        except subprocess.TimeoutExpired as e:
            last = e
    raise tlc.MachineryError(f"sweep worker {name} v{variant} timed out {attempts} times: {last}")


def _run_worker_once(name, tier, seed, variant, outdir, timeout):
    out = os.path.join(outdir, f"{name}.v{variant}.json")
    env = dict(os.environ)
    env["PYTHONHASHSEED"] = str(variant * 7919 % 4000 + 1) if variant else "0"
    env["PYTHONPATH"] = repo_root() + os.pathsep + ROOT
    env["JAX_PLATFORMS"] = "cpu"
    env["TF_CPP_MIN_LOG_LEVEL"] = "3"
    env["XLA_FLAGS"] = env.get("XLA_FLAGS", "") + " --xla_cpu_multi_thread_eigen=false"
    env.setdefault("OMP_NUM_THREADS", "2")
    t0 = time.time()
    p = subprocess.run([sys.executable, "-m", "harness.sweep_worker", name, tier, str(seed), str(variant), out], env=env, cwd=ROOT,
                       capture_output=True, text=True, timeout=timeout)
    if p.returncode != 0 or not os.path.exists(out):
        raise tlc.MachineryError(f"sweep worker {name} v{variant} failed: {p.stderr[-1500:]}")
    return name, variant, out, time.time() - t0


def record(tier, seed, variants=(0,), names=None, procs=8):
    """-> dict (name, variant) -> list of traces.  Cached."""
    os.environ["VERIF_SWEEP_TIER"] = tier
    names = names or routine_names()
    key = cache_key(tier, seed)
    d = os.path.join(CACHE, key)
    os.makedirs(d, exist_ok=True)
    lock = open(os.path.join(d, ".lock"), "w")
    fcntl.flock(lock, fcntl.LOCK_EX)
    try:
        todo = [(n, v) for n in names for v in variants if not os.path.exists(os.path.join(d, f"{n}.v{v}.json"))]
        if todo:
            with ThreadPoolExecutor(max_workers=procs) as ex:
                futs = [ex.submit(_run_worker, n, tier, seed, v, d) for n, v in todo]
                for f in futs:
                    f.result()
        res = {}
        for n in names:
            for v in variants:
                with open(os.path.join(d, f"{n}.v{v}.json")) as f:
                    res[(n, v)] = json.load(f)
        return res, d
    finally:
        fcntl.flock(lock, fcntl.LOCK_UN)
        lock.close()
        _prune()


def _prune(keep=6):
    try:
        ds = sorted((os.path.getmtime(os.path.join(CACHE, x)), x) for x in os.listdir(CACHE))
        for mt, x in ds[:-keep]:
            import shutil

            if time.time() - mt < 7200:
                # a recording in progress in another process (thorough tier: ~20 min) must not lose its directory
                # because more than `keep` other recordings were started meanwhile (observed with parallel mutant runs)
                continue

            shutil.rmtree(os.path.join(CACHE, x), ignore_errors=True)
    except OSError:
        pass


def verdicts(tier, seed, names=None):
    """Record (variant 0) and validate.  -> traces (list), verdict dict by trace id, tlc stats.  Cached."""
    from . import loopbind

    recs, d = record(tier, seed, (0,), names)
    traces = [t for (n, v), ts in sorted(recs.items()) for t in ts]
    vpath = os.path.join(d, "verdicts." + hashlib.sha1(",".join(sorted(t["id"] for t in traces)).encode()).hexdigest()[:10] + ".json")
    if os.path.exists(vpath):
        with open(vpath) as f:
            v = json.load(f)
        return traces, v["out"], v["stats"]
    out, r, norm = loopbind.validate(traces, timeout=1500)
    stats = {"distinct": r.distinct, "generated": r.generated, "depth": r.depth, "wall_s": round(r.wall_s, 1), "events": sum(len(t["events"]) for t in traces)}
    with open(vpath + f".tmp{os.getpid()}", "w") as f:
        json.dump({"out": out, "stats": stats}, f)
    os.replace(vpath + f".tmp{os.getpid()}", vpath)
    return traces, out, stats


def report_property(rep, pid, tier=None, seed=None, names=None):
    """Add to `rep` everything the sweep says about property pid."""
    tier = tier or rep.tier
    seed = rep.seed if seed is None else seed
    traces, out, stats = verdicts(tier, seed, names)
    rep.states += stats["distinct"]
    rep.transitions += stats["generated"]
    rep.extra.setdefault("tlc_runs", []).append(dict(name="LoopTrace batched trace validation", **stats))
    n_tr = 0
    per_routine = {}
    for t in traces:
        v = out[t["id"]]
        n_tr += 1
        rname = t["cfg"]["routine"]
        pr = per_routine.setdefault(rname, {"traces": 0, "events": 0, "steps": 0, "episodes": 0, "update_events": 0})
        pr["traces"] += 1
        pr["events"] += len(t["events"])
        pr["steps"] += v["executed"]
        pr["episodes"] += v["episodes"]
        pr["update_events"] += v["updates"]
        for pos, clause in v["viol"]:
            if not _serves(clause, pid):
                continue
            if clause in ("PolicyBeforeWarmup", "ExploreOnlyInWarmup") and rname not in VALUE_BASED:
                continue  # C13 speaks of value-based loops only; the warm-up acting of other routines is not a listed property
            ev = t["events"][pos - 1]
            key = f"{rname}:{clause}"
            if clause == "BudgetRespected":
                # identify the failing history: scenario and the number of steps executed against the budget, so that a
                # listed finding does not hide a different overshoot of the same routine
                key += f":{t['scenario'].get('label', '?')}:executed={v['executed']}/budget={t['cfg']['budget'] - t['cfg'].get('start', 0)}"
            rep.violation(key, f"{t['id']} event {pos} ({ev.get('ev')}): clause {clause} fails: { {k: ev[k] for k in ev if k not in ('ver',)} }"[:600],
                          {"kind": "sweep", "routine": rname, "scenario": t["scenario"], "position": pos, "clause": clause})
        err = t.get("error")
        if err:
            if err.startswith("RunAway"):
                if pid == "C11":
                    rep.violation(f"{rname}:RunAway", f"{t['id']}: {err}", {"kind": "sweep", "routine": rname, "scenario": t["scenario"], "clause": "RunAway"})
            elif pid in ("C01", "C11"):
                rep.violation(f"{rname}:raised", f"{t['id']}: the routine raised {err}", {"kind": "sweep", "routine": rname, "scenario": t["scenario"], "clause": "raised"})
    rep.traces += n_tr
    rep.extra["sweep"] = per_routine
    return traces, out


def replay_one(replay, pid):
    """Re-run one routine on one scenario and print its verdict for property pid."""
    from . import algos, loopbind

    t = algos.run(replay["routine"], replay["scenario"])
    t["id"] = f"{replay['routine']}:{replay['scenario'].get('label', '')}"
    out, r, norm = loopbind.validate([t])
    v = out[t["id"]]
    bad = sorted(set(c for _, c in v["viol"] if _serves(c, pid)))
    print(t["id"], "executed", v["executed"], "clauses failing for", pid, ":", bad, "error:", t.get("error"))
    return 1 if bad or (t.get("error") and replay.get("clause") in ("RunAway", "raised")) else 0


LOOP_INVS = ["StoredFaithful", "FirstOfEpisodeFromReset", "CondFaithful", "BudgetRespected", "EpisodeLimitRespected", "NoLearnBeforeWarmup", "ReturnedCount", "ExploreOnlyInWarmup",
             "ExecutedActionGreedy", "EpisodesCountedOnce"]
LOOP_DEVS = {"stale_after_reset": ("C01", None), "store_done_flag": ("C01", "StoredFaithful"),
             # a step that returns terminated AND truncated at once: kept as "not terminated" / counted as two episodes
             "store_term_unless_trunc": ("C01", "StoredFaithful"), "count_flags_separately": ("C11", None), "learn_early": ("C11", "NoLearnBeforeWarmup"),
             "break_before_count": ("C11", "ReturnedCount"), "return_plus_one": ("C11", "ReturnedCount"), "step_after_end": ("C11", None),
             # action ActOnStaleChoice: execute the choice made at the successor before the update instead of evaluating the current estimate
             "stale_choice": ("C13", "ExecutedActionGreedy"),
             # prepared batch whose columns are flattened in different orders / experience record with shared reward lists
             "misaligned_batch": ("C01", "StoredFaithful"), "shared_reward_list": ("C01", "StoredFaithful")}


def _loop_rows(pid):
    """Constant Rows of Loop.tla: the estimate model (two actions, ties, rows that change under updates) is switched on for
    the property that speaks about estimates; for the others one fixed row (no additional branching)."""
    return tlc.Subst("RowsTie" if pid == "C13" else "RowsOne")


def design_model(rep, pid, quick=True):
    """Exhaustive TLC runs of the design model Loop.tla (strict must hold; named deviations must be refuted)."""
    cfgs = [dict(Budget=6, Start=1, EpLimit=2, MaxEpLen=3, WarmAct=2, WarmLearn=3), dict(Budget=5, Start=0, EpLimit=0, MaxEpLen=2, WarmAct=0, WarmLearn=0)]
    if not quick:
        cfgs += [dict(Budget=8, Start=2, EpLimit=3, MaxEpLen=3, WarmAct=4, WarmLearn=4), dict(Budget=7, Start=0, EpLimit=1, MaxEpLen=4, WarmAct=9, WarmLearn=2)]
    for c in cfgs:
        c = dict(c, DEV=set(), Rows=_loop_rows(pid))
        r = tlc.run("Loop", tlc.cfg_text(constants=c, invariants=LOOP_INVS, properties=["NoStepAfterEnd"]), workers=4, tag="loop")
        rep.add_tlc(r, f"Loop design model { {k: (v.name if isinstance(v, tlc.Subst) else v) for k, v in c.items()} }")
        if not r.ok:
            rep.violation(f"spec:Loop:{r.violated}", f"design-level violation {r.violated}", r.error_trace)
    base = dict(Budget=6, Start=1, EpLimit=2, MaxEpLen=3, WarmAct=2, WarmLearn=3)
    for dev, (p, inv) in LOOP_DEVS.items():
        if p != pid:
            continue
        r = tlc.run("Loop", tlc.cfg_text(constants=dict(base, DEV={dev}, Rows=_loop_rows(pid)), invariants=LOOP_INVS, properties=["NoStepAfterEnd"]), workers=4, tag="loopdev")
        if not r.violated:
            raise tlc.MachineryError(f"canary: deviation {dev} not refuted by the design model")
        if pid == "C13" and inv and r.violated != inv:
            raise tlc.MachineryError(f"canary: deviation {dev} refuted by {r.violated}, expected {inv}")


def binding_canary(traces, field="obs", ev="add", clause="StoreObs"):
    """Corrupt one recorded field of one trace; the trace specification must name the clause."""
    import copy

    from . import loopbind

    for t in traces:
        idx = [i for i, e in enumerate(t["events"]) if e["ev"] == ev]
        if len(idx) >= 1 and not t.get("error"):
            bad = copy.deepcopy(t)
            bad["id"] = "canary"
            e = bad["events"][idx[min(2, len(idx) - 1)]]
            if field == "obs":
                e["obs"] = [e["obs"][0] + 7, e["obs"][1], e["obs"][2]]
            elif field == "n":
                e["n"] = e["n"] + 1
            elif field == "term":
                e["term"] = not e["term"]
            elif field == "term_of_both":
                # the kept flag of a step that returned terminated AND truncated at once, stored as "not terminated"
                both = _adds_of_both_steps(t)
                if not both:
                    continue
                e = bad["events"][both[0]]
                e["term"] = False
            elif field == "lrows.act":
                # a prepared batch whose action column is rotated against the observation column
                rows = e["lrows"]
                if len(rows) < 2 or "act" not in rows[0].get("has", []) or len({str(r["act"]) for r in rows}) < 2:
                    continue
                acts = [r["act"] for r in rows]
                for r, a_ in zip(rows, acts[1:] + acts[:1]):
                    r["act"] = a_
            elif field == "rec.rs":
                # an experience record whose first entry lost its reward list to a transition that never happened
                if not e.get("readable") or not e["rec"]:
                    continue
                x = dict(e["rec"][0])
                x["next"] = [x["next"][0] + 7] + list(x["next"][1:])
                e["rec"] = list(e["rec"]) + [x]
            out, r, _ = loopbind.validate([bad], tag="canary")
            if clause not in {c for _, c in out["canary"]["viol"]}:
                raise tlc.MachineryError(f"binding canary: corrupted {ev}.{field} not rejected by clause {clause}")
            return True
    raise tlc.MachineryError(f"binding canary: no trace with an '{ev}' event")


def _adds_of_both_steps(t):
    """Indices of the add events that keep a step which returned terminated=True and truncated=True (matched on the
    successor tag of the kept row; used for non-vacuity and canaries only - the verdicts are LoopTrace's)."""
    both = {(e.get("env", 0), tuple(e["obs"])) for e in t["events"] if e["ev"] == "step" and e.get("term") and e.get("trunc")}
    return [i for i, e in enumerate(t["events"]) if e["ev"] == "add" and not e.get("auto") and "term" in e and e.get("chk_term", True)
            and (e.get("env", 0), tuple(e.get("next", ()))) in both]


def both_flag_coverage(traces):
    """-> {routine: [steps with both flags, kept rows of such steps]}; every routine of the sweep that steps an
    environment must have met a step with both flags set (MachineryError otherwise: vacuous step-kind coverage)."""
    cov = {}
    for t in traces:
        c = cov.setdefault(t["cfg"]["routine"], [0, 0, 0])
        c[0] += sum(1 for e in t["events"] if e["ev"] == "step" and e.get("term") and e.get("trunc"))
        c[1] += len(_adds_of_both_steps(t))
        c[2] += sum(1 for e in t["events"] if e["ev"] == "step")
    missing = sorted(r for r, c in cov.items() if c[2] > 0 and c[0] == 0)
    if missing:
        raise tlc.MachineryError(f"no step with terminated AND truncated set in any run of {missing} (step kind 'both' not covered)")
    return {r: c[:2] for r, c in cov.items() if c[2] > 0}


def binding_canary_noise(traces):
    """Zero-noise runs: replace the live policy's action of one policy-chosen step by a neighbouring float; the trace
    specification must name ExplorationNoiseScale."""
    import copy

    from . import loopbind

    for t in traces:
        if t["cfg"].get("expl_noise8") != 0 or t.get("error"):
            continue
        ev = t["events"]
        for i, e in enumerate(ev):
            if e["ev"] == "step" and e.get("has_pol") and i and ev[i - 1]["ev"] == "policy":
                a, lo, hi = e["actf"]["a"], e["actf"]["lo"], e["actf"]["hi"]
                d = next((k for k in range(len(a)) if lo[k] + 1 < a[k] < hi[k] - 1), None)
                if d is None:
                    continue
                bad = copy.deepcopy(t)
                bad["id"] = "canary"
                bad["events"][i]["pol"][d] += 1
                out, r, _ = loopbind.validate([bad], tag="canaryn")
                if "ExplorationNoiseScale" not in {c for _, c in out["canary"]["viol"]}:
                    raise tlc.MachineryError("binding canary: a policy action one ulp off the executed action (noise level 0) not rejected")
                return True
    raise tlc.MachineryError("binding canary: no zero-noise run with a policy-chosen interior action")


def binding_canary_bounds(traces):
    """Push one recorded action one ulp-step beyond its bound; ActionInBounds must fire."""
    import copy

    from . import loopbind

    for t in traces:
        for i, e in enumerate(t["events"]):
            if e["ev"] == "step" and e.get("actf", {}).get("a"):
                bad = copy.deepcopy(t)
                bad["id"] = "canary"
                af = bad["events"][i]["actf"]
                af["a"][0] = af["hi"][0] + 3 + bad["cfg"].get("ulpk", 0)
                out, r, _ = loopbind.validate([bad], tag="canaryb")
                if "ActionInBounds" not in {c for _, c in out["canary"]["viol"]}:
                    raise tlc.MachineryError("binding canary: out-of-bounds action not rejected")
                return True
    raise tlc.MachineryError("binding canary: no continuous action recorded")
