"""Run independent configurations in parallel worker processes (spawn: JAX is not fork-safe)."""
import multiprocessing as mp
import os
import sys
import traceback


def _call(payload):
    fn_mod, fn_name, arg = payload
    import importlib

    try:
        fn = getattr(importlib.import_module(fn_mod), fn_name)
        return ("ok", fn(*arg))
    except BaseException as e:  # returned to the parent, which decides
        return ("err", f"{type(e).__name__}: {e}\n{traceback.format_exc()[-1500:]}", type(e).__name__)


def pmap(fn, args, procs=4):
    """fn must be a module-level function; args a list of tuples. Order preserved."""
    from .tlc import MachineryError

    if procs <= 1 or len(args) <= 1:
        return [fn(*a) for a in args]
    ctx = mp.get_context("spawn")
    payloads = [(fn.__module__, fn.__name__, a) for a in args]
    with ctx.Pool(min(procs, len(args))) as pool:
        outs = pool.map(_call, payloads, chunksize=1)
    res = []
    for o in outs:
        if o[0] == "err":
            raise MachineryError("worker failed: " + o[1])
        res.append(o[1])
    return res
