"""Normalise recorded event streams and validate them with spec/LoopTrace.tla."""
from __future__ import annotations

import json
import os
import re

from . import tlc

CFG_DEFAULTS = dict(
    routine="?", nenvs=1, budget=-1, start=0, eplimit=0, warmlearn=-1, warmact=-1, explore_only_in_warmup=False,
    ulpk=0, policy_probe=False, check_act=True, ret_applicable=False, trained=[], targets=[], frozen=[], autoreset=False,
    epsilon4=-1, eps_switch=-1, expl_noise8=-1, rules=[], segment="add", check_term=True, check_next=True, check_bounds=True, pairs=[], hard_pairs=[], copy_groups=[],
)
RULE_DEFAULTS = dict(comps=[], counter="always", mod=1, rem=0, after=0, needs_sample=True)
EV_DEFAULTS = dict(
    env=0, obs=[-1, -1, -1], next=[-1, -1, -1], act="none", r4=0, term=False, trunc=False, after_end=False,
    box=False, a=[], lo=[], hi=[], finite=True, valid=True, n=0, key="", changed=[], step=-1,
    chosen=-1, argmax=[], current=True, auto=False, chk_next=True, chk_term=True, has_trunc=False, table_current=True, start=-1, same=[], rel=[], rows=[], aliased=[],
    # step events of value-based routines (envs.ScriptEnv.exec_probe): action values (float32 ordinals) of the routine's
    # current estimate at the observation the action is executed in; acti = the discrete action as an int (-1: none)
    has_q=False, qrow=[], acti=-1,
    # step events of continuous-control routines with an exploration-noise parameter: pol = action of the routine's LIVE
    # deterministic policy at the observation the action is executed in (float32 ordinals), evaluated by the environment
    has_pol=False, pol=[],
    # learn_rows: rows handed to a learner (obs, act, r4, next, term, has = names of the fields the row carries);
    # experience: whole experience record of a model-based tabular learner (entries obs, act, next, n, rs), readable
    lrows=[], rec=[], readable=True,
)
LROW_DEFAULTS = dict(obs=[-1, -1, -1], act="none", r4=0, next=[-1, -1, -1], term=False, has=[])
REC_DEFAULTS = dict(obs=[-1, -1, -1], act="none", next=[-1, -1, -1], n=0, rs=[])


def _sub(defaults, d):
    out = dict(defaults)
    out.update({k: v for k, v in d.items() if k in defaults})
    out["act"] = str(out["act"])
    return out


def normalise(trace):
    """trace: {id, cfg, events} as recorded -> uniform records for TLC (no nulls, ints < 2^31)."""
    cfg = dict(CFG_DEFAULTS)
    cfg.update({k: v for k, v in trace["cfg"].items() if k in CFG_DEFAULTS})
    cfg["rules"] = [dict(RULE_DEFAULTS, **r) for r in cfg["rules"]]
    prev = None
    evs = []
    for e in trace["events"]:
        n = dict(EV_DEFAULTS)
        for k in ("ev", "env", "obs", "next", "r4", "term", "trunc", "after_end", "n", "key", "step", "chosen", "argmax", "current", "auto", "chk_next", "chk_term", "table_current", "start", "same", "rel", "rows", "aliased", "has_q", "qrow", "readable", "has_pol", "pol"):
            if k in e:
                n[k] = e[k]
        if "lrows" in e:
            n["lrows"] = [_sub(LROW_DEFAULTS, r) for r in e["lrows"]]
        if "rec" in e:
            n["rec"] = [_sub(REC_DEFAULTS, r) for r in e["rec"]]
        if "act" in e:
            n["act"] = str(e["act"])
            if isinstance(e["act"], int) and not isinstance(e["act"], bool) and 0 <= e["act"] < 2 ** 31 - 1:
                n["acti"] = e["act"]
        if e["ev"] == "add" and "trunc" in e:
            n["has_trunc"] = True
        af = e.get("actf")
        if af:
            if "a" in af:
                n.update(box=True, a=af["a"], lo=af["lo"], hi=af["hi"], finite=af["finite"])
            else:
                n.update(box=False, valid=bool(af["valid"]))
        ver = e.get("ver")
        if ver is not None:
            if prev is not None:
                n["changed"] = sorted(k for k in ver if k in prev and prev[k] != ver[k])
            prev = ver
        evs.append(n)
    return {"id": trace["id"], "cfg": cfg, "events": evs}


_VERDICT = re.compile(r'^<<"VERDICT", "([^"]*)", (\d+), (\d+), (\d+), (\{.*\})>>$')
_PAIR = re.compile(r'<<(\d+), "([^"]+)">>')


def validate(traces, tag="looptrace", timeout=900):
    """-> {trace id: dict(executed, episodes, updates, viol=[(pos, clause), ...])}, TlcResult"""
    norm = [normalise(t) for t in traces]
    os.makedirs(os.path.join(tlc.OUT, "tmp"), exist_ok=True)
    path = os.path.join(tlc.OUT, "tmp", f"{tag}-{os.getpid()}.json")
    with open(path, "w") as f:
        json.dump(norm, f)
    try:
        r = tlc.run("LoopTrace", tlc.cfg_text(constraints=["Verdict"]), workers=1, env={"TRACE_FILE": path}, tag=tag, timeout=timeout)
    finally:
        os.remove(path)
    out = {}
    for line in r.stdout.splitlines():
        if line.startswith('<<"VERDICT", "'):
            d = json.loads(json.loads(line[len('<<"VERDICT", '):-2]))
            out[d["id"]] = dict(executed=d["executed"], episodes=d["episodes"], updates=d["updates"], viol=sorted((int(a), b) for a, b in d["viol"]))
    missing = [t["id"] for t in norm if t["id"] not in out]
    if missing:
        raise tlc.MachineryError(f"LoopTrace gave no verdict for traces {missing}: {r.stdout[-1500:]}")
    return out, r, norm
