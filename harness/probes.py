"""Recording buffers, loggers and policy probes (no repository hooks needed)."""
from __future__ import annotations

import numpy as np

from .envs import Recorder, adigest, decode_obs


def _act(a):
    a = np.asarray(a)
    if a.ndim == 0 and (np.issubdtype(a.dtype, np.integer) or float(a) == int(a)) and not np.issubdtype(a.dtype, np.floating):
        return int(a)
    if a.ndim == 0 and np.issubdtype(a.dtype, np.integer):
        return int(a)
    return adigest(np.asarray(a, dtype=np.float32))


def recording_buffer(base_cls, rec: Recorder, *args, **kwargs):
    """Instance of a subclass of base_cls that reports add / sample / priority calls."""

    class Recording(base_cls):
        def add_sample(self, **sample):
            f = {"obs": decode_obs(sample["observation"]), "act": _act(sample["action"]), "r4": int(round(float(sample["reward"]) * 4)),
                 "next": decode_obs(sample["next_observation"])}
            if "termination" in sample:
                f["term"] = bool(sample["termination"])
            if "terminated" in sample:
                f["term"] = bool(sample["terminated"])
            if "truncated" in sample:
                f["trunc"] = bool(sample["truncated"])
            out = super().add_sample(**sample)
            rec.emit("add", **f)
            return out

        def sample_batch(self, *a, **k):
            out = super().sample_batch(*a, **k)
            rec.emit("sample", n=int(self.current_len))
            return out

        def update_priority(self, priority):
            out = super().update_priority(priority)
            rec.emit("update_priority", n=int(np.asarray(priority).size))
            return out

        def reset_max_priority(self):
            out = super().reset_max_priority()
            rec.emit("reset_max_priority")
            return out

    Recording.__name__ = "Recording" + base_cls.__name__
    Recording.__qualname__ = Recording.__name__
    return Recording(*args, **kwargs)


def recording_logger(rec: Recorder):
    from rl_blox.logging.logger import LoggerBase

    class RecLogger(LoggerBase):
        def __init__(self):
            self._n = 0
            self.live = {}

        @property
        def n_episodes(self):
            return self._n

        def start_new_episode(self):
            self._n += 1
            rec.emit("log_start")

        def stop_episode(self, total_steps):
            rec.emit("log_stop", n=int(total_steps))

        def define_experiment(self, env_name=None, algorithm_name=None, hparams=None):
            pass

        def record_stat(self, key, value, episode=None, step=None, t=None, verbose=None, format_str="{0:.3f}"):
            try:
                v = float(np.asarray(value))
                val = adigest(np.asarray(v, dtype=np.float64))
            except Exception:
                val = "obj"
            rec.emit("log_stat", key=key, val=val, step=-1 if step is None else int(step), episode=-1 if episode is None else int(episode))

        def define_checkpoint_frequency(self, key, checkpoint_interval):
            pass

        def record_epoch(self, key, value, episode=None, step=None, t=None):
            self.live[key] = value
            if key not in rec.watch:
                try:
                    rec.watch_module("live:" + key, value)
                except Exception:
                    pass
            rec.emit("log_epoch", key=key, step=-1 if step is None else int(step))

    return RecLogger()


def obs_probe(rec: Recorder, kind="policy"):
    """Returns a function usable inside jitted code: reports the un-batched observation a policy was conditioned on."""
    import jax

    def host(o):
        rec.emit(kind, obs=decode_obs(np.asarray(o)))

    def probe(observation):
        if getattr(observation, "ndim", 1) == 1:
            jax.debug.callback(host, observation, ordered=True)

    return probe
