"""Transition-coverage replay of a TLC state graph into a real object.

The specification prints one EMIT record per transition of its reachable state
graph: [pre, op, args, exp, post] (pre/post = the module's View).  This module
rebuilds the graph, takes a BFS spanning tree from the initial state, and
drives a real object along the tree, testing EVERY edge of the graph exactly
once (MongoDB-style "one implementation test per model transition"): for each
state s reached with a real object whose projection equals s, every outgoing
transition is applied to a copy of that object and the projection / observable
result is compared with the model's post state / expected result.
"""
from __future__ import annotations

import copy
import json
import re
from collections import defaultdict, deque


def canon(x):
    return json.dumps(x, sort_keys=True, separators=(",", ":"))


class Mismatch(Exception):
    def __init__(self, what, code=None, **detail):
        super().__init__(what)
        self.what = what
        self.code = code or re.sub(r"[-+]?\d+(\.\d+)?", "#", what)[:70]
        self.detail = detail


class Graph:
    def __init__(self, emits):
        self.out = defaultdict(list)
        self.state = {}
        self.n_edges = 0
        seen = set()
        for e in emits:
            k, k2 = canon(e["pre"]), canon(e["post"])
            self.state[k] = e["pre"]
            self.state[k2] = e["post"]
            ek = (k, e["op"], canon(e.get("args")), canon(e.get("exp")), k2)
            if ek in seen:
                continue
            seen.add(ek)
            self.out[k].append((e["op"], e.get("args"), e.get("exp"), k2))
            self.n_edges += 1

    def roots(self):
        targets = {k2 for es in self.out.values() for (_, _, _, k2) in es}
        return [k for k in self.out if k not in targets] or list(self.out)[:1]


def cover(graph: Graph, root_key, factory, step, project, clone=copy.deepcopy, max_edges=None, on_violation=None):
    """Test every edge reachable from root_key once.

    factory() -> fresh real object in the root state
    step(obj, op, args, exp, pre, post) -> None (raises Mismatch)
    project(obj) -> JSON-like projection comparable with model View
    Returns dict(edges_tested, states_visited, violations=[...]).
    """
    violations = []
    tested = 0
    visited = {root_key}
    try:
        obj0 = factory()
        p0 = project(obj0)
    except Mismatch as m:
        return {"edges_tested": 0, "states_visited": 0, "violations": [{"what": "fresh object: " + m.what, "code": "initial:" + m.code, "detail": m.detail, "path": [{"op": "<construct>", "args": [], "exp": None}]}]}
    if canon(p0) != root_key:
        # a freshly constructed object does not start in the model's initial state: a verdict about the code under test
        return {"edges_tested": 0, "states_visited": 0, "violations": [
            {"what": "the state of a freshly constructed object differs from the model's initial state", "code": "initial_state_differs",
             "detail": {"got": p0, "want": graph.state[root_key]}, "path": [{"op": "<construct>", "args": [], "exp": None}]}]}
    # BFS over states; keep a real object per frontier state (small objects)
    queue = deque([(root_key, obj0, [])])
    while queue:
        k, obj, path = queue.popleft()
        for op, args, exp, k2 in graph.out.get(k, ()):  # every edge exactly once
            if max_edges is not None and tested >= max_edges:
                queue.clear()
                break
            tested += 1
            p = path + [{"op": op, "args": args, "exp": exp}]
            try:
                o2 = clone(obj)  # a clone may itself exercise the code under test (save / reload)
                step(o2, op, args, exp, graph.state[k], graph.state[k2])
                got = project(o2)
                if canon(got) != k2:
                    raise Mismatch("state after step differs from model", got=got, want=graph.state[k2])
            except Mismatch as m:
                violations.append({"what": m.what, "code": m.code, "detail": m.detail, "path": p})
                if on_violation:
                    on_violation(violations[-1])
                continue
            except Exception as ex:  # the code under test raised where the model defines a result
                import traceback

                tb = traceback.extract_tb(ex.__traceback__)
                where = f"{tb[-1].filename.split('/')[-1]}:{tb[-1].name}" if tb else "?"
                violations.append({"what": f"exception {type(ex).__name__} in {where}: {str(ex)[:120]}", "code": f"exception:{type(ex).__name__}:{where}", "detail": {}, "path": p})
                continue
            if k2 not in visited:
                visited.add(k2)
                queue.append((k2, o2, p))
    return {"edges_tested": tested, "states_visited": len(visited), "violations": violations}


def replay_path(factory, step, project, path, states=None):
    obj = factory()
    for st in path:
        step(obj, st["op"], st["args"], st.get("exp"), None, None)
    return project(obj)


def walks(graph: Graph, root_key, factory, step, project, n, max_len, seed, p_loop=0.4):
    """Random behaviours of the model replayed on ONE live object each (no cloning between steps).

    cover() reaches every state by a shortest path and tests each edge on a clone, so the effect of an
    observer (a self-loop of the model: sampling, reading) is discarded before the next mutator runs.  State
    the implementation hides from the projection (caches filled by a read, a remembered last batch) therefore
    only shows on longer histories that interleave observers and mutators: walks() draws such histories from
    the same state graph - at every state a self-loop with probability p_loop, otherwise a state-changing
    edge - and compares the projection with the model after every step.
    Returns dict(walks, steps, violations=[...]) with the same violation records as cover().
    """
    import random

    rnd = random.Random(seed)
    violations = []
    steps = 0
    for _ in range(n):
        try:
            obj = factory()
        except Exception:  # cover() reports construction problems
            break
        k = root_key
        path = []
        for _ in range(max_len):
            es = graph.out.get(k, ())
            if not es:
                break
            loops = [e for e in es if e[3] == k]
            moves = [e for e in es if e[3] != k]
            pool = loops if (loops and (not moves or rnd.random() < p_loop)) else moves
            op, args, exp, k2 = pool[rnd.randrange(len(pool))]
            path = path + [{"op": op, "args": args, "exp": exp}]
            try:
                step(obj, op, args, exp, graph.state[k], graph.state[k2])
                got = project(obj)
                if canon(got) != k2:
                    raise Mismatch("state after step differs from model", got=got, want=graph.state[k2])
            except Mismatch as m:
                violations.append({"what": m.what + f" (history of {len(path)} calls on one object)", "code": m.code, "detail": m.detail, "path": path})
                break
            except Exception as ex:
                import traceback

                tb = traceback.extract_tb(ex.__traceback__)
                where = f"{tb[-1].filename.split('/')[-1]}:{tb[-1].name}" if tb else "?"
                violations.append({"what": f"exception {type(ex).__name__} in {where}: {str(ex)[:120]} (history of {len(path)} calls on one object)", "code": f"exception:{type(ex).__name__}:{where}", "detail": {}, "path": path})
                break
            steps += 1
            k = k2
    return {"walks": n, "steps": steps, "violations": violations}
