"""C08, binding of spec/RingPrioTicks.tla: boundary variates of the inverse-CDF samplers.

TLC chooses the priority vector (equal priorities of every size 1..MaxN, unequal and masked ones), the sampler (plain /
stratified with batch size B) and, per vector, the table of variate classes (limit value v of the cumulative mass, offset d
in ulp of the variate) WITH the admissible index set of each class.  Python only turns a class into the double it names
(fl(v / total) stepped d ulps; for the stratified sampler the variate of stratum j that maps to v), feeds it through the
generator stub (which answers uniform(low, high) with low + (high - low) * u, as numpy.random.Generator does) and checks
that the drawn index is a member of TLC's admissible set.
"""
from __future__ import annotations

import json
from fractions import Fraction

import numpy as np

from . import bufkit, tlc
from .graph import Mismatch

INV = ["TicksInside", "TicksNeighbours", "TicksProportional", "TicksExtremes"]
QUICK = dict(MaxN=24, Sizes={2, 3, 7}, Units={1, 10}, Batches={1, 7, 25}, MaxUlp=2)
THOROUGH = dict(MaxN=32, Sizes={2, 3, 5, 7, 13}, Units={1, 2, 10}, Batches={1, 2, 7, 25, 29}, MaxUlp=3)  # measured: MaxN=40 with 6 batch sizes took 27 min for the whole thorough check
FIRST_ROUNDS = 3  # stratified rounds that go through sample_batch (the others call the sampler method directly)


def variate(args, k):
    """The double named by the class k = [j, v, d] (input construction; the expected index set is k['adm'])."""
    v, total, B, j, d = Fraction(k["v"][0], k["v"][1]), args["total"], args["B"], k["j"], k["d"]
    u = float(v / total) if B == 0 else float(v * B / total - (j - 1))
    if u == 0.0:  # the generator's grid: numpy's uniform is low + (high - low) * k * 2**-53, the smallest positive variate 2**-53
        u = d * 2.0**-53
    else:
        for _ in range(abs(d)):
            u = float(np.nextafter(u, 2.0 if d > 0 else -1.0))
    if not (0.0 <= u < 1.0) or (k["zero"] and u != 0.0):
        raise tlc.MachineryError(f"RingPrioTicks emitted a class that is not a variate of [0,1): {k} -> {u!r}")
    return u


def where(args, k):
    if k["zero"]:
        return "u_zero"
    if k["v"][0] == 0:
        return "u_near_0"
    if k["v"][0] == args["total"] * k["v"][1]:
        return "u_near_1"
    return "stratum_interior" if len(k["adm"]) == 1 else "cumulative_boundary"


class Host:
    """A real buffer that holds the transitions 1..n with the priorities prio / unit, built through the public API
    (add_sample; sample_batch + update_priority for vectors other than the fresh all-1.0 one)."""

    def __init__(self, kind, args, host):
        from rl_blox.blox import replay_buffer as rb

        self.kind, self.host, self.args = kind, host, args
        prio, unit = args["prio"], args["unit"]
        self.n = n = len(prio)
        self.mask = None if all(args["mask"]) else np.asarray(list(args["mask"]) + [1], dtype=int)
        cls = {"LAP": rb.LAP, "PER": rb.PrioritizedReplayBuffer}[kind]
        inner = cls(n if host == "full" else n + 1)
        inner.priority.priority[:] = 7777.0  # np.empty leaves arbitrary content in unfilled slots: make it adversarial
        self.profile = bufkit.default_profile()
        if host == "mt":
            self.obj = rb.MultiTaskReplayBuffer(inner, 2)
            self.obj.add_sample(**self.profile.encode(100))  # task 0 holds an unrelated transition
            self.obj.select_task(1)
            self.buf = self.obj.buffers[1]
        else:
            self.obj = self.buf = inner
        for i in range(1, n + 1):
            self.obj.add_sample(**self.profile.encode(i))
        if any(p != unit for p in prio):
            got = self.sample([0.5] * n if kind == "PER" else [(i + 0.5) / n for i in range(n)], via_batch=True, mask=None)
            if got != list(range(n)):
                raise Mismatch(f"setup: the centres of {n} equal strata selected {got}", code="setup_sampling")
            self.obj.update_priority(np.asarray(prio, dtype=float) / unit)

    def name(self):
        """the sampler function (one defect of a sampler = one key, whichever buffer / wrapper reaches it)"""
        return {"LAP": "PriorityBuffer.prioritized_sampling", "PER": "PrioritizedReplayBuffer.prioritized_sampling_stratified"}[self.kind]

    def via(self):
        k = {"LAP": "LAP", "PER": "PrioritizedReplayBuffer"}[self.kind]
        return ("sampler method with mask" if self.mask is not None else k + ".sample_batch") + (", multi-task wrapper" if self.host == "mt" else "") + (", full buffer" if self.host == "full" else "")

    def sample(self, us, via_batch=True, mask="own"):
        """Feed the variates us (one per batch element); returns the drawn indices."""
        us = np.asarray(us, dtype=float)
        mask = self.mask if isinstance(mask, str) else mask
        rng = bufkit.StubRng()
        direct = mask is not None or not via_batch
        if self.host == "mt" and not direct:
            rng.push("choice", 1)
        rng.push("uniform", lambda lo, hi, size: lo + (hi - lo) * us)
        B = len(us)
        if direct:  # the sampler methods themselves (public; the masked form is what the subtrajectory buffer calls)
            if self.kind == "LAP":
                self.buf.priority.prioritized_sampling(len(self.buf), B, rng, mask)
            else:
                self.buf.prioritized_sampling_stratified(len(self.buf), B, rng, mask)
        elif self.kind == "LAP":
            self.obj.sample_batch(B, rng)
        elif self.host == "mt":
            self.obj.sample_batch(B, rng=rng, beta=1.0)
        else:
            self.obj.sample_batch(B, rng, beta=1.0)
        c = rng.calls[-1]
        if self.kind == "LAP" and not (np.all(np.asarray(c[1]) == 0) and np.all(np.asarray(c[2]) == 1)):
            raise Mismatch(f"uniform variates drawn from [{c[1]},{c[2]}) instead of [0,1)", code="variate_range")
        idx = np.asarray(self.buf.priority.sampled_indices).reshape(-1)
        if idx.shape != (B,):
            raise Mismatch(f"{B} variates selected {idx.shape[0]} indices", code="batch_size")
        return [int(x) for x in idx]


def judge(args, k, u, got):
    """None, or (code, what) when the drawn index is not in TLC's admissible set of the class."""
    if got in k["adm"]:
        return None
    n = len(args["prio"])
    if not (0 <= got < n):
        code, why = "beyond_filled_region", f"an index outside the filled region 0..{n - 1}"
    elif args["prio"][got] * args["mask"][got] == 0:
        code, why = "masked_entry", "an entry whose priority * mask is 0"
    else:
        code, why = "outside_cumulative_interval", "an index whose cumulative interval does not contain the point"
    v = Fraction(k["v"][0], k["v"][1])
    return f"{where(args, k)}:{code}", (
        f"variate u={u!r} ({'stratum ' + str(k['j']) + ' of ' + str(args['B']) + ', ' if args['B'] else ''}point {v}{k['d']:+d} ulp of the cumulative mass "
        f"{args['total']}, priorities {args['prio']}/{args['unit']}, mask {args['mask']}) drew index {got}: {why}; admissible {sorted(k['adm'])}")


def rounds(args, classes):
    """Stratified: one variate per stratum and call; round r takes the r-th class of every stratum (extremes first), the
    centre of the stratum where a stratum has fewer classes."""
    B = args["B"]
    per = {j: [] for j in range(1, B + 1)}
    for k in classes:
        per[k["j"]].append(k)
    key = lambda k: (0 if k["v"][0] in (2 * (k["j"] - 1) * args["total"], 2 * k["j"] * args["total"]) else 1, abs(k["d"]), k["d"], k["v"][0])
    centre = {}
    for j, ks in per.items():
        ks.sort(key=key)
        centre[j] = next(k for k in ks if k["v"][0] == (2 * j - 1) * args["total"] and k["d"] == 0)
    m = max(len(ks) for ks in per.values())
    return [[(per[j][r] if r < len(per[j]) else centre[j]) for j in range(1, B + 1)] for r in range(m)]


def run_case(kind, op, args, classes, host):
    """Replay one TLC record into one host; returns (checked, [(code, what, class)])."""
    bad, done = [], 0
    try:
        h = Host(kind, args, host)
    except Mismatch as m:
        return 0, [(f"setup:{m.code}", m.what, None)], "?"
    except Exception as e:  # raised by the code under test while filling / prioritising the buffer
        return 0, [("setup:raised", f"{type(e).__name__}: {e} while building priorities {args['prio']}/{args['unit']}", None)], "?"
    calls = [classes] if op == "plain" else rounds(args, classes)
    for r, ks in enumerate(calls):
        us = [variate(args, k) for k in ks]
        if op == "plain":  # the class `variate 0` also stands for the doubles below the generator's grid (u * total underflows)
            zs = [k for k in ks if k["zero"]]
            ks, us = ks + zs, us + [5e-324] * len(zs)
        try:
            note = ""
            got = h.sample(us, via_batch=(op == "plain" or r < FIRST_ROUNDS))
        except Mismatch as m:
            bad.append((m.code, m.what, ks[0]))
            continue
        except Exception as e:  # the specification defines an index for every variate: an exception is a violation
            idx = np.asarray(h.buf.priority.sampled_indices).reshape(-1)
            if idx.shape == (len(ks),):  # the indices were drawn before the failure (gathering rows): judge them
                got, note = [int(x) for x in idx], f" [{type(e).__name__}: {e}]"
            else:
                hot = max(ks, key=lambda k: (where(args, k) in ("u_near_1", "u_near_0", "u_zero"), abs(k["d"]) == 1))
                bad.append((f"{where(args, hot)}:raised", f"sampling with variates {us[:4]}.. (priorities {args['prio']}/{args['unit']}) raised {type(e).__name__}: {e}", hot))
                continue
        for k, u, g in zip(ks, us, got):
            done += 1
            j = judge(args, k, u, g)
            if j:
                bad.append((j[0], f"{j[1]} ({h.via()}){note}", k))
    return done, bad, h.name()


def hosts_for(op, i):
    return ("bare", "full", "mt") if op == "plain" else (("bare", "full", "mt")[i % 3],)


def check_records(emitted):
    out = {"violations": [], "checked": 0, "calls": 0, "two_sided": 0}
    seen = set()
    for i, e in enumerate(emitted):
        op, args, classes = e["op"], e["args"], e["exp"]
        kind = "LAP" if op == "plain" else "PER"
        out["two_sided"] += sum(1 for k in classes if len(k["adm"]) == 2)
        for host in hosts_for(op, i):
            n, bad, name = run_case(kind, op, args, classes, host)
            out["checked"] += n
            out["calls"] += 1
            for code, what, k in bad:
                key = f"{name if name != '?' else kind}:{code}"
                if key not in seen:
                    seen.add(key)
                    out["violations"].append((key, f"{name}: {what}", {"ticks": {"kind": kind, "op": op, "args": args, "cls": k, "host": host}}))
    return out


def ticks_job(consts, seed, workers=4):
    out = {"tlc": [], "violations": [], "edges": 0, "nontrivial": 0, "sample": None}
    c = dict(consts, EMIT=False)
    # the model does not depend on the unit: the property run uses one
    r = tlc.run("RingPrioTicks", tlc.cfg_text(constants=dict(c, Units={1}), invariants=INV), workers=workers, tag="rpt", timeout=900)
    out["tlc"].append({"name": f"RingPrioTicks sizes 1..{c['MaxN']}, unequal/masked sizes {sorted(c['Sizes'])}, stratified batches {sorted(c['Batches'])}, +-{c['MaxUlp']} ulp",
                       "distinct": r.distinct, "generated": r.generated, "depth": r.depth, "wall_s": round(r.wall_s, 1)})
    if not r.ok:
        out["violations"].append((f"spec:RingPrioTicks:{r.violated}", f"design-level violation {r.violated}", r.error_trace))
        return out
    # deviation canary: an inverse CDF that returns N at the top of the mass must be refuted
    small = dict(c, MaxN=3, Sizes={2}, Units={1}, Batches={1}, AdmOf=tlc.Subst("AdmOpenTop"))
    rc = tlc.run("RingPrioTicks", tlc.cfg_text(constants=small, invariants=["TicksInside"]), workers=workers, tag="rptbad")
    if rc.violated != "TicksInside":
        raise tlc.MachineryError(f"canary: AdmOpenTop not refuted by TicksInside ({rc.violated})")
    g = tlc.run("RingPrioTicks", tlc.cfg_text(constants=dict(c, EMIT=True)), workers=1, tag="rptgen", timeout=900)
    if not g.emitted:
        raise tlc.MachineryError("RingPrioTicks emitted nothing")
    res = check_records(g.emitted)
    out["violations"] += res["violations"]
    out["edges"] = out["nontrivial"] = res["checked"]
    out["ticks"] = {"records": len(g.emitted), "sampler_runs": res["calls"], "variates": res["checked"], "two_sided_classes": res["two_sided"]}
    # binding canary: a class whose admissible set is corrupted (the index one beyond the filled region) must be noticed
    e = next(e for e in g.emitted if e["op"] == "plain" and len(e["args"]["prio"]) >= 2 and all(e["args"]["mask"]))
    k = next(k for k in e["exp"] if where(e["args"], k) == "u_near_1")
    forged = dict(k, adm=[len(e["args"]["prio"])])
    n, bad, _ = run_case("LAP", "plain", e["args"], [forged], "bare")
    if not bad or not bad[0][0].startswith("u_near_1:"):
        raise tlc.MachineryError("binding canary: forged admissible set {len} for the largest double below 1 accepted")
    mid = next(k for k in e["exp"] if where(e["args"], k) == "stratum_interior")
    out["sample"] = {"class": "boundary variates", "vector": e["args"], "class_near_1": k, "variate": variate(e["args"], k), "class_interior": mid}
    return out


def replay(d):
    """Re-run the single class stored in a replay file; returns 1 if it still fails."""
    k = d["cls"]
    if k is None:
        try:
            Host(d["kind"], d["args"], d["host"])
        except Exception as m:
            print("  ", repr(m))
            return 1
        return 0
    classes = [k] if d["op"] == "plain" else [k] + [
        {"j": j, "v": [(2 * j - 1) * d["args"]["total"], 2 * d["args"]["B"]], "d": 0, "adm": [], "zero": False} for j in range(1, d["args"]["B"] + 1) if j != k["j"]]
    h = Host(d["kind"], d["args"], d["host"])
    us = [variate(d["args"], x) for x in sorted(classes, key=lambda x: x["j"])]
    try:
        got = h.sample(us)
    except Exception as m:
        print("  ", repr(m))
        return 1
    g = got[0 if d["op"] == "plain" else k["j"] - 1]
    j = judge(d["args"], k, us[0 if d["op"] == "plain" else k["j"] - 1], g)
    print(json.dumps({"class": k, "drawn": g}))
    if j:
        print("  ", j[1])
        return 1
    return 0
