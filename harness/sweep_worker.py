"""python -m harness.sweep_worker <routine> <tier> <seed> <variant> <out.json>

variant 0: reference run.  variant 1: same seeds, but different PYTHONHASHSEED (set by the parent),
different pre-set GLOBAL numpy / random states and a shifted wall clock - for the determinism
property the two must produce identical traces.  variant 2: different routine seed (non-vacuity).
Uninitialised memory is a further source of run-to-run differences: `numpy.empty` / `numpy.empty_like` (as
looked up by Python code at call time) return memory filled with 0x00 bytes in variants 0 and 2 and with 0x7f
bytes (huge finite floats, large integers) in variant 1, so a result that depends on a never-written slot
differs between the two runs of the determinism property.
What ran earlier in the same process is no input of a training run either: variant 1 runs the scenarios of a
routine in the opposite order (a single scenario is run twice and the second recording kept), so state that leaks from one call of a
routine into the next (module-level caches, default-argument objects, class attributes) meets a different
history in the two runs.
"""
import json
import os
import random
import sys
import time


def main():
    name, tier, seed, variant, out = sys.argv[1], sys.argv[2], int(sys.argv[3]), int(sys.argv[4]), sys.argv[5]
    import numpy as np

    # import everything first: importing jax / flax / optax / gymnasium itself consumes global random numbers,
    # which has nothing to do with the routine under test
    import importlib
    import pkgutil

    import flax.nnx  # noqa: F401
    import gymnasium  # noqa: F401
    import jax  # noqa: F401
    import optax  # noqa: F401
    import rl_blox.algorithm as _alg

    for m in pkgutil.iter_modules(_alg.__path__):
        importlib.import_module("rl_blox.algorithm." + m.name)
    from harness import algos  # noqa: F401

    _fill_uninitialised(0x7F if variant == 1 else 0x00)
    global _HEAP_JUNK
    _HEAP_JUNK = _perturb_addresses(variant)
    if variant == 1:
        np.random.seed(987654)
        random.seed(424242)
        real = time.time
        time.time = lambda: real() + 12345.678
    else:
        np.random.seed(1)
        random.seed(1)
    from harness import algos

    scs = [dict(sc) for sc in algos.scenarios(tier, seed, name)]
    order = list(range(len(scs)))
    if variant == 1:
        order = order[::-1] if len(order) > 1 else order * 2  # opposite order; a single scenario twice (the second recording is kept)
    by = {}
    for i in order:
        sc = dict(scs[i])
        if variant == 2:
            sc["seed"] = sc["seed"] + 100
        g0 = _global_rng_digest()
        tr = algos.run(name, sc)
        tr["id"] = f"{name}:{sc['label']}"
        tr["global_rng_untouched"] = _global_rng_digest() == g0 and by.get(i, {}).get("global_rng_untouched", True)
        by[i] = tr
    traces = [by[i] for i in range(len(scs))]
    with open(out + f".tmp{os.getpid()}", "w") as f:
        json.dump(traces, f)
    os.replace(out + f".tmp{os.getpid()}", out)


_HEAP_JUNK = None


def _perturb_addresses(variant):
    """Object addresses (and with them id()-based hashes and the iteration order of sets / dicts keyed by objects
    without __hash__) depend on the allocation history of the process: variant 1 starts from a differently
    fragmented heap (objects of many size classes allocated, every other one freed, the rest kept alive)."""
    if variant != 1:
        return None

    class _Obj:
        __slots__ = ("a", "b")

    class _Dyn:
        pass

    junk = []
    for k in range(4000):
        junk.append(bytearray(16 + (k * 37) % 1500))
        junk.append(_Obj())
        junk.append(_Dyn())
        junk.append([None] * (1 + k % 23))
        junk.append({k: k})
    del junk[::2]
    return junk


def _fill_uninitialised(byte):
    import numpy as np

    real_empty, real_empty_like = np.empty, np.empty_like

    def _fill(x):
        try:
            if x.dtype != object and x.size:
                x.view(np.uint8).fill(byte)
        except Exception:  # noqa: BLE001  (non-contiguous / exotic dtype: leave as allocated)
            pass
        return x

    np.empty = lambda *a, **k: _fill(real_empty(*a, **k))
    np.empty_like = lambda *a, **k: _fill(real_empty_like(*a, **k))


def _global_rng_digest():
    import hashlib

    import numpy as np

    s = np.random.get_state()
    h = hashlib.sha1(s[1].tobytes() + repr(s[2:]).encode() + repr(random.getstate()).encode())
    return h.hexdigest()


if __name__ == "__main__":
    main()
