"""Stub modules for the actor objectives (C12); companions of harness/stubs.py.

All are genuine ``flax.nnx.Module``s whose forward pass is a table lookup on
one-hot observations, with ONE parameter per state: if batch row ``i`` is given
its own state, the gradient w.r.t. cell ``i`` of a table is exactly the
derivative of the objective w.r.t. that network output of sample ``i``.

``FlatTable(T)``            ``x -> (x @ T)[..., 0]``: a critic / value function with output shape (N,)
``FlatSaleCritic``          TD7 critic signature, output shape (N,)
``TablePolicy``             stochastic policy with independent tables:
                              sample(o, key)        = o @ actions          (key ignored: "reparametrised" sample)
                              log_probability(o, a) = o @ lp + a @ c       (shape (N,))
                              entropy(o)            = o @ ent              (shape (N,))
                              value(o)              = o @ vtable           (shape (N, 1)); a baseline that SHARES the
                                                      policy's parameter tree (see ValueView)
``ValueView(policy, flat)`` value function reading ``policy.vtable``: if an objective differentiated w.r.t. the
                            policy let gradients flow through its weights, ``vtable`` would receive gradient
``SaleActor(p, pz)``        TD7 actor signature ``(state, zs) -> state @ p + zs @ pz``
``GaussTable(mean, logvar)``  Gaussian network ``o -> (o @ mean, o @ logvar)`` for the repository's Gaussian heads

Nothing here imports rl_blox at module import time.
"""
from __future__ import annotations

import jax.numpy as jnp
import numpy as np
from flax import nnx


def _p(x, shape=None):
    a = np.asarray(x, dtype=np.float32)
    if shape is not None:
        a = a.reshape(shape)
    return nnx.Param(jnp.asarray(a))


class FlatTable(nnx.Module):
    """``x -> (x @ T)[..., 0]``; critic / value function with output shape (N,)."""

    def __init__(self, table):
        self.kernel = _p(table)

    def __call__(self, x):
        return (x @ self.kernel.value)[..., 0]


class FlatSaleCritic(nnx.Module):
    """TD7 ``CriticSALE`` signature with output shape (N,)."""

    def __init__(self, k, ka, kb):
        self.k = _p(k, (-1, 1))
        self.ka = _p(ka, (-1, 1))
        self.kb = _p(kb, (-1, 1))

    def __call__(self, sa, zsa, zs):
        return (sa @ self.k.value + zsa @ self.ka.value + zs @ self.kb.value)[..., 0]


class TablePolicy(nnx.Module):
    """Stochastic policy with scripted sample / log-probability / entropy and one parameter per state."""

    def __init__(self, lp, c, ent, actions, vtable):
        self.lp = _p(lp, (-1,))
        self.c = _p(c, (-1,))
        self.ent = _p(ent, (-1,))
        self.actions = _p(actions)
        self.vtable = _p(vtable, (-1, 1))

    def __call__(self, observation):
        return observation @ self.actions.value

    def sample(self, observation, key):
        return observation @ self.actions.value

    def log_probability(self, observation, action):
        return observation @ self.lp.value + action @ self.c.value

    def entropy(self, observation):
        return observation @ self.ent.value

    def value(self, observation):
        return observation @ self.vtable.value


class ValueView(nnx.Module):
    """Value function that reads the policy's own ``vtable`` (shared parameters)."""

    def __init__(self, policy, flat):
        self.policy = policy
        self.flat = bool(flat)

    def __call__(self, observation):
        v = self.policy.value(observation)
        return v[..., 0] if self.flat else v


class SaleActor(nnx.Module):
    """TD7 ``ActorSALE`` signature: ``(state, zs) -> state @ p + zs @ pz``."""

    def __init__(self, p, pz):
        self.p = _p(p)
        self.pz = _p(pz)

    def __call__(self, state, zs):
        return state @ self.p.value + zs @ self.pz.value


class GaussTable(nnx.Module):
    """Gaussian network ``o -> (o @ mean, o @ logvar)``."""

    def __init__(self, mean, logvar):
        self.mean = _p(mean)
        self.logvar = _p(logvar)

    def __call__(self, observation):
        return observation @ self.mean.value, observation @ self.logvar.value
