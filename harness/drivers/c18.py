"""C18 - numeric building blocks: two-hot coding, robust losses, norms, schedules.

spec/Numerics.tla transcribes two_hot_encoding / two_hot_decoding /
two_hot_cross_entropy_loss, huber_loss, masked_mse_loss, avg_l1_norm and
linear_schedule on exact rationals (D2; D3 for the cross-entropy and the
default eps).  TLC checks the clauses of C18 as invariants on the lattice of
test vectors; the same module run with EMIT=TRUE prints every vector together
with the expected output, and this driver calls the real functions on them
and compares exactly (or within a counted number of float32 ulp where a
division is not dyadic).  make_two_hot_bins is bound code -> spec: the
float32 ordinals (D4) of the returned arrays are checked by TLC against the
order predicates of spec/NumericsBins.tla, and the order-isomorphic bins
<<0..n-1>> of the specification are mapped onto the real bins.
"""
from __future__ import annotations

import json
import math
import os
import random
from collections import defaultdict
from concurrent.futures import ThreadPoolExecutor
from fractions import Fraction

import numpy as np

from .. import exact, tlc

LEVEL = "model_checking"
MANIFEST = dict(
    category="model_checking",
    text="TLC checks the clauses of C18 (two-hot rows non-negative / sum one / at most two adjacent / decode inverts encode incl. exact edges and both extremes; Huber piecewise = min/residual form; masked rows have zero weight; AvgL1 output has mean |.| one and is finite for zero / near-zero input; linear schedule has length T, is monotone, starts at start when floor(T*f) >= 1 and is constant end from index floor(T*f)) as invariants of Numerics.tla over a lattice of exact rational test vectors, and every vector of that lattice is replayed into the real rl_blox functions with the expected output printed by TLC, compared bit-exactly on dyadic inputs. These are pure functions with for-all-inputs contracts, so an exact specification evaluated on a dense small lattice plus exact replay is the right level: any wrong factor, index, branch or broadcast shows up as an inequality, not as rounding noise.",
    note="bounded lattice (bins of 2-9 dyadic edges plus order-isomorphic bins of up to 101 edges mapped onto make_two_hot_bins outputs, schedules T<=12/32, vectors of length <=4, shapes with <=4/6 entries); cross-entropy only for uniform, two-level {0, ln 2} (8 ulp) and saturated {0, -16, -40, -100} logits (4 ulp + slack); symexp bin values not decided (order predicates only, D4); two_hot domain needs >= 2 edges; trusted: harness/exact.py, the float64 values of ln n / 1e-8 / 2^-40, TLC, NumPy/JAX",
    technique="TLA+ spec (exact rationals) + TLC invariants on a staged test-vector lattice; replay of the TLC-generated (input, expected output) vectors into two_hot_encoding, two_hot_decoding, two_hot_cross_entropy_loss, huber_loss, masked_mse_loss, avg_l1_norm, linear_schedule; TLC trace check of make_two_hot_bins ordinals",
)

INVS = {
    "twohot": ["TwoHotNonNeg", "TwoHotSumOne", "TwoHotAtMostTwoAdjacent", "TwoHotDecodeInverts",
               "TwoHotEdgeIsOneHot", "TwoHotBetweenIsTwoHot", "TwoHotMechanismSound"],
    "ce": ["CEUniformIsLnN", "CECoefficients", "CESatOnHighIsLnH", "CESatPaysFullGap", "CESatBetweenGaps"],
    "huber": ["HuberAgree", "HuberNonNeg", "HuberBelowQuadratic", "HuberContinuousAtDelta", "HuberLinearBeyond", "HuberMonotone"],
    "mse": ["MSEMaskedRowsIgnored", "MSEAllMaskedIsZero", "MSEFullMaskIsMean", "MSENonNeg", "MSEUnmaskingMonotone"],
    "avgl1": ["AvgL1Finite", "AvgL1MeanAbsOne", "AvgL1ClampedBelowOne", "AvgL1SignPreserved", "AvgL1ScaleInvariant"],
    "sched": ["SchedLength", "SchedMonotone", "SchedFirstIsStart", "SchedTailIsEnd", "SchedReachesEnd", "SchedWithinEnds"],
}
ALL_FAMS = set(INVS)
BINS_INVS = ["BinsCount", "BinsStrictlyIncreasing", "BinsEndpointsSymmetric", "BinsSigns", "BinsSymmetricWhenExact"]
NAMED_ACTIONS = ["ChooseBins", "ChooseDelta", "ChooseError", "ChooseShape", "ChooseLen", "AddElem", "ChooseT", "ChooseFraction", "ChooseEnds"]
OPS = ["TwoHot", "CrossEntropy", "CrossEntropySat", "Huber", "MaskedMSE", "AvgL1", "LinearSchedule"]

# D3: numeric values of the named constants (the only numbers Python contributes)
LN2_F32 = np.float32(math.log(2.0))
EPS_DEFAULT = 1e-8
TINY = 2.0 ** -40


def _consts(**kw):
    c = dict(EMIT=False, FAMS=set(ALL_FAMS), DEV="none", WIDE=True, IOTA=set(), MaxT=12, MaxCE=5, MaxSat=3, MaxMSE=4, NPairs=3)
    c.update(kw)
    return c


# ---------------------------------------------------------------- comparison
def _ulp32(scale) -> Fraction:
    return Fraction(float(np.spacing(np.float32(abs(float(scale))))))


def close(v, x, ulps=0, scale=None) -> bool:
    """float result v against rational x: equal when ulps == 0 (and, without a scale, when
    x == 0), else within `ulps` float32 ulp taken at magnitude max(|x|, scale)."""
    v = float(v)
    if not math.isfinite(v):
        return False
    xq = exact.q(x) if not isinstance(x, Fraction) else x
    fv = Fraction(v)
    if ulps == 0 or (xq == 0 and scale is None):
        return fv == xq
    s = max(abs(xq), Fraction(scale) if scale is not None else 0)
    return abs(fv - xq) <= ulps * _ulp32(s)


def _a32(seq):
    """rationals -> float32 array; the lattice promises exact representability."""
    qs = [exact.q(x) for x in seq]
    for x in qs:
        if not exact.is_exact32(x):
            raise tlc.MachineryError(f"lattice value {x} is not a float32")
    return np.array([float(x) for x in qs], dtype=np.float32)


def _m32(mat):
    return np.stack([_a32(r) for r in mat])


def _fmt(x):
    if isinstance(x, list) and len(x) == 2 and all(isinstance(t, int) for t in x):
        return str(exact.q(x))
    if isinstance(x, list):
        return "[" + ", ".join(_fmt(t) for t in x) + "]"
    return str(x)


class Problem:
    def __init__(self, key, what, vec):
        self.key, self.what, self.vec = key, what, vec


def _call(fn, name, vec, out, *a, **kw):
    """An exception raised by the code under test on an in-domain vector is a violation."""
    try:
        return fn(*a, **kw)
    except Exception as e:  # noqa: BLE001
        out.append(Problem(f"{name}:raises", f"{name} raised {type(e).__name__}: {str(e)[:200]}", vec))
        return None


# ---------------------------------------------------------------- two-hot
def _twohot_class(v):
    if not v["args"]["sentinel_ok"]:
        return "bin_range_exceeds_1e8_sentinel"
    return "exact_edge" if len(v["exp"]["support"]) == 1 else "between_edges"


def check_twohot(vecs, seed=0):
    """two_hot_encoding / two_hot_decoding on explicit dyadic bins; all x of one bins array in one call."""
    import jax.numpy as jnp
    from rl_blox.blox.preprocessing import two_hot_decoding, two_hot_encoding

    out = []
    groups = defaultdict(list)
    for v in vecs:
        groups[json.dumps(v["args"]["bins"])].append(v)
    for gi, (bk, g) in enumerate(sorted(groups.items())):
        random.Random(seed * 7919 + gi).shuffle(g)
        bins = _a32(json.loads(bk))
        xs = _a32([v["args"]["x"] for v in g])
        n = len(bins)
        m = float(np.max(np.abs(bins)))
        enc = _call(two_hot_encoding, "two_hot_encoding", g[0], out, jnp.asarray(bins), jnp.asarray(xs))
        if enc is None:
            continue
        enc = np.asarray(enc)
        if enc.shape != (len(g), n):
            out.append(Problem("two_hot_encoding:shape", f"result shape {enc.shape}, expected {(len(g), n)}", g[0]))
            continue
        dec_real = _call(two_hot_decoding, "two_hot_decoding", g[0], out, jnp.asarray(bins), jnp.asarray(enc))
        rows = np.stack([np.array([float(exact.q(t)) for t in v["exp"]["row"]], dtype=np.float32) for v in g])
        dec_spec = _call(two_hot_decoding, "two_hot_decoding", g[0], out, jnp.asarray(bins), jnp.asarray(rows))
        for i, v in enumerate(g):
            u = v["exp"]["ulps"]
            # entries the specification leaves at zero are never written: exactly zero
            enc_ok = all(close(enc[i, k], v["exp"]["row"][k], u if v["exp"]["row"][k][0] else 0, 1) for k in range(n))
            if not enc_ok:
                out.append(Problem(
                    f"two_hot_encoding:{_twohot_class(v)}",
                    f"two_hot_encoding(bins={_fmt(v['args']['bins'])}, x={_fmt(v['args']['x'])}) = {enc[i].tolist()}, specification {_fmt(v['exp']['row'])}",
                    v))
            # decoding the specification's row isolates two_hot_decoding from the encoder
            if dec_spec is not None and not close(np.asarray(dec_spec)[i], v["exp"]["dec"], u, m):
                out.append(Problem(
                    "two_hot_decoding:value",
                    f"two_hot_decoding(bins={_fmt(v['args']['bins'])}, {_fmt(v['exp']['row'])}) = {float(np.asarray(dec_spec)[i])}, specification {_fmt(v['exp']['dec'])}",
                    v))
            if enc_ok and dec_real is not None and not close(np.asarray(dec_real)[i], v["exp"]["dec"], u, m):
                out.append(Problem(
                    "two_hot_decoding:roundtrip",
                    f"decode(encode({_fmt(v['args']['x'])})) = {float(np.asarray(dec_real)[i])} on bins {_fmt(v['args']['bins'])}",
                    v))
    return out


def real_bin_params(quick):
    p = {2: [(-1, 1)], 3: [(-10, 10)], 5: [(-10, 10), (0, 4)], 9: [(-4, 4)], 65: [(-10, 10)], 101: [(-10, 10)]}
    if not quick:
        p.update({9: [(-4, 4), (-2, 3)], 17: [(-8, 8)], 33: [(-8, 8), (-10, 10)], 65: [(-10, 10), (-5, 5)], 100: [(-10, 10)]})
    return p


def check_twohot_on_real_bins(vecs, lo, hi, seed=0):
    """The specification's vectors on bins <<0..n-1>> mapped order-isomorphically onto
    make_two_hot_bins(lo, hi, n): edge k -> real edge k (row and decoding exact), the
    middle of interval k -> the float32 middle of the real interval (structure, and
    decoding within 16 ulp: <= 10 roundings of magnitude <= max(|lower|, |upper|))."""
    import jax.numpy as jnp
    from rl_blox.blox.preprocessing import make_two_hot_bins, two_hot_decoding, two_hot_encoding

    out = []
    n = len(vecs[0]["args"]["bins"])
    tagv = dict(vecs[0], real_bins=[lo, hi, n])
    rb = _call(make_two_hot_bins, "make_two_hot_bins", tagv, out, float(lo), float(hi), n)
    if rb is None:
        return out, 0
    rb = np.asarray(rb)
    # same keys as the NumericsBins check gives (one defect, one key)
    if rb.shape != (n,):
        out.append(Problem("make_two_hot_bins:BinsCount", f"make_two_hot_bins({lo}, {hi}, {n}) has shape {rb.shape}", {"op": "Bins", "args": {"lo": lo, "hi": hi, "n": n}}))
        return out, 0
    if not np.all(np.diff(rb) > 0):
        out.append(Problem("make_two_hot_bins:BinsStrictlyIncreasing", f"make_two_hot_bins({lo}, {hi}, {n}) is not strictly increasing", {"op": "Bins", "args": {"lo": lo, "hi": hi, "n": n}}))
        return out, 0
    vecs = list(vecs)
    random.Random(seed * 104729 + n).shuffle(vecs)
    xs, use = [], []
    for v in vecs:
        x = exact.q(v["args"]["x"])
        k = int(x // 1)
        if x.denominator == 1:
            xs.append(rb[k])
        else:
            mid = np.float32((float(rb[k]) + float(rb[k + 1])) / 2)
            if not (rb[k] < mid < rb[k + 1]):
                continue
            xs.append(mid)
        use.append(v)
    xs = np.array(xs, dtype=np.float32)
    enc = _call(two_hot_encoding, "two_hot_encoding", tagv, out, jnp.asarray(rb), jnp.asarray(xs))
    if enc is None:
        return out, 0
    enc = np.asarray(enc)
    dec = _call(two_hot_decoding, "two_hot_decoding", tagv, out, jnp.asarray(rb), jnp.asarray(enc))
    dec = None if dec is None else np.asarray(dec)
    for i, v in enumerate(use):
        vv = dict(v, real_bins=[lo, hi, n], real_x=float(xs[i]))
        sup = sorted(int(j) for j in np.nonzero(enc[i])[0])
        where = f"make_two_hot_bins({lo}, {hi}, {n}), x={float(xs[i])!r}"
        if len(v["exp"]["support"]) == 1:
            if not all(close(enc[i, k], v["exp"]["row"][k]) for k in range(n)):
                out.append(Problem("two_hot_encoding:exact_edge", f"{where} (edge {v['exp']['support'][0]}): non-zero entries {[(j, float(enc[i, j])) for j in sup]}, specification one-hot at {v['exp']['support']}", vv))
            elif dec is not None and float(dec[i]) != float(xs[i]):
                out.append(Problem("two_hot_decoding:roundtrip", f"{where}: decode(encode(x)) = {float(dec[i])!r}", vv))
        else:
            lo_k = v["exp"]["support"][0]
            m = max(abs(float(rb[lo_k])), abs(float(rb[lo_k + 1])))
            ok = (
                sup == v["exp"]["support"]
                and np.all(np.isfinite(enc[i]))
                and np.all(enc[i] >= 0)
                and close(float(np.sum(enc[i].astype(np.float64))), [1, 1], 2, 1)
            )
            if not ok:
                out.append(Problem("two_hot_encoding:between_edges", f"{where} (inside interval {lo_k}): non-zero entries {[(j, float(enc[i, j])) for j in sup]}, specification: two non-negative weights summing to one at {v['exp']['support']}", vv))
            elif dec is not None and not close(dec[i], Fraction(float(xs[i])), 16, m):
                out.append(Problem("two_hot_decoding:roundtrip", f"{where}: decode(encode(x)) = {float(dec[i])!r}", vv))
    return out, len(use)


# ---------------------------------------------------------------- cross-entropy
def _form_value(form):
    return sum(float(exact.q(c)) * math.log(b) for b, c in form)


def check_ce(vecs, seed=0):
    import jax.numpy as jnp
    from rl_blox.blox.preprocessing import two_hot_cross_entropy_loss

    out = []
    groups = defaultdict(list)
    for v in vecs:
        groups[json.dumps(v["args"]["bins"])].append(v)
    for gi, (bk, g) in enumerate(sorted(groups.items())):
        random.Random(seed * 31337 + gi).shuffle(g)
        bins = _a32(json.loads(bk))
        xs = _a32([v["args"]["x"] for v in g])
        cs = _a32([v["args"]["c"] for v in g])
        lv = np.array([v["args"]["lv"] for v in g], dtype=np.float32)
        logits = (cs[:, None] + lv * LN2_F32).astype(np.float32)
        loss = _call(two_hot_cross_entropy_loss, "two_hot_cross_entropy_loss", g[0], out, jnp.asarray(bins), jnp.asarray(logits), jnp.asarray(xs))
        if loss is None:
            continue
        loss = np.asarray(loss)
        if loss.shape != (len(g),):
            out.append(Problem("two_hot_cross_entropy_loss:shape", f"result shape {loss.shape}, expected {(len(g),)}", g[0]))
            continue
        for i, v in enumerate(g):
            want = _form_value(v["exp"]["form"])
            # roundings: logit (1), exp (<=2), sum, log (<=2), logsumexp add, subtraction, two products, one sum:
            # <= 8 units of 2^-24 at the magnitude of the largest intermediate, |c| + ln(sum of exps)
            scale = max(1.0, abs(float(cs[i])) + math.log(v["exp"]["form"][0][0]) + math.log(2.0))
            if not close(loss[i], Fraction(want), 8, scale):
                uniform = len(set(v["args"]["lv"])) == 1
                out.append(Problem(
                    "two_hot_cross_entropy_loss:" + ("uniform_logits" if uniform else "two_level_logits"),
                    f"two_hot_cross_entropy_loss(bins={_fmt(v['args']['bins'])}, logits={_fmt(v['args']['c'])} + {v['args']['lv']}*ln2, target={_fmt(v['args']['x'])}) = {float(loss[i])!r}, specification {' + '.join(f'{_fmt(c)}*ln({b})' for b, c in v['exp']['form'])} = {want!r}",
                    v))
    return out


def check_ce_sat(vecs, seed=0):
    """Saturated logits c - g_i (integer gaps 0 / 16 / 40 / 100): CE = const + coef * ln(#high) (+ slack)."""
    import jax.numpy as jnp
    from rl_blox.blox.preprocessing import two_hot_cross_entropy_loss

    out = []
    groups = defaultdict(list)
    for v in vecs:
        groups[json.dumps(v["args"]["bins"])].append(v)
    for gi, (bk, g) in enumerate(sorted(groups.items())):
        random.Random(seed * 27644437 + gi).shuffle(g)
        bins = _a32(json.loads(bk))
        xs = _a32([v["args"]["x"] for v in g])
        cs = _a32([v["args"]["c"] for v in g])
        gaps = np.array([v["args"]["gaps"] for v in g], dtype=np.float32)
        logits = (cs[:, None] - gaps).astype(np.float32)  # small integers: exact
        loss = _call(two_hot_cross_entropy_loss, "two_hot_cross_entropy_loss", g[0], out, jnp.asarray(bins), jnp.asarray(logits), jnp.asarray(xs))
        if loss is None:
            continue
        loss = np.asarray(loss)
        if loss.shape != (len(g),):
            out.append(Problem("two_hot_cross_entropy_loss:shape", f"result shape {loss.shape}, expected {(len(g),)}", g[0]))
            continue
        for i, v in enumerate(g):
            e = v["exp"]
            want = exact.q(e["const"]) + Fraction(float(exact.q(e["ln"][1])) * math.log(e["ln"][0]))
            # the term of the specification that is not a linear form: 0 <= . <= sum_low EXP(-g) / #high
            slack = sum(cnt * math.exp(-gap) for gap, cnt in e["slack"]["low"]) / e["slack"]["high"]
            # roundings: log of the sum (<= 2 ulp of ln n), -g - lse (1), two products and one sum (3)
            # at magnitude <= max gap + ln n: 4 ulp
            scale = max(1.0, float(np.max(gaps[i])) + math.log(len(bins)))
            lv = float(loss[i])
            if not (math.isfinite(lv) and abs(Fraction(lv) - want) <= 4 * _ulp32(scale) + Fraction(slack)):
                out.append(Problem(
                    "two_hot_cross_entropy_loss:saturated_logits",
                    f"two_hot_cross_entropy_loss(bins={_fmt(v['args']['bins'])}, logits={_fmt(v['args']['c'])} - {v['args']['gaps']}, target={_fmt(v['args']['x'])}) = {lv!r}, specification {_fmt(e['const'])} + {_fmt(e['ln'][1])}*ln({e['ln'][0]}) = {float(want)!r}",
                    v))
    return out


# ---------------------------------------------------------------- Huber
def check_huber(vecs, seed=0):
    import jax.numpy as jnp
    from rl_blox.blox.losses import huber_loss

    out = []
    groups = defaultdict(list)
    for v in vecs:
        groups[json.dumps(v["args"]["delta"])].append(v)
    for gi, (dk, g) in enumerate(sorted(groups.items())):
        random.Random(seed * 101 + gi).shuffle(g)
        delta = float(exact.q(json.loads(dk)))
        a = _a32([v["args"]["abs_e"] for v in g])
        h = _call(huber_loss, "huber_loss", g[0], out, jnp.asarray(a), delta)
        if h is None:
            continue
        h = np.asarray(h)
        if h.shape != a.shape:
            out.append(Problem("huber_loss:shape", f"result shape {h.shape}, expected {a.shape}", g[0]))
            continue
        for i, v in enumerate(g):
            if not close(h[i], v["exp"]["loss"]):
                out.append(Problem(
                    f"huber_loss:{v['exp']['branch']}_branch",
                    f"huber_loss(|e|={_fmt(v['args']['abs_e'])}, delta={_fmt(v['args']['delta'])}) = {float(h[i])!r}, specification {_fmt(v['exp']['loss'])}",
                    v))
    return out


# ---------------------------------------------------------------- masked MSE
_MASK_DTYPES = (np.float32, np.int32, np.bool_)


def check_mse(vecs, seed=0):
    import jax.numpy as jnp
    from rl_blox.blox.losses import masked_mse_loss

    out = []
    rng = random.Random(seed * 65537 + 3)
    for v in vecs:
        pred, targ = _m32(v["args"]["pred"]), _m32(v["args"]["targ"])
        mask = np.array(v["args"]["mask"]).astype(rng.choice(_MASK_DTYPES))
        loss = _call(masked_mse_loss, "masked_mse_loss", v, out, jnp.asarray(pred), jnp.asarray(targ), jnp.asarray(mask))
        if loss is None:
            continue
        if np.shape(loss) != ():
            out.append(Problem("masked_mse_loss:shape", f"result shape {np.shape(loss)}, expected a scalar", v))
            continue
        # n*m not a power of two: one inexact division (mean), 4 ulp
        if not close(loss, v["exp"]["loss"], v["exp"]["ulps"]):
            out.append(Problem(
                "masked_mse_loss:value",
                f"masked_mse_loss(pred={_fmt(v['args']['pred'])}, targ={_fmt(v['args']['targ'])}, mask={v['args']['mask']} as {mask.dtype}) = {float(loss)!r}, specification {_fmt(v['exp']['loss'])}",
                v))
    return out


# ---------------------------------------------------------------- AvgL1
def _eps_kw(tag):
    return {} if tag == "default" else {"eps": float(Fraction(tag))}


def check_avgl1(vecs, seed=0, single=0):
    """Rows of equal length / eps as one 2-D call (axis=-1); `single` of them again as 1-D calls."""
    import jax.numpy as jnp
    from rl_blox.blox.function_approximator.norm import avg_l1_norm

    out = []
    groups = defaultdict(list)
    for v in vecs:
        groups[(len(v["args"]["x"]), v["args"]["eps"], v["args"]["scale"])].append(v)
    rng = random.Random(seed * 8191 + 5)

    def compare(v, got):
        unit = 1.0 if v["exp"]["unit"] == "1" else TINY / EPS_DEFAULT
        for k, want in enumerate(v["exp"]["out"]):
            w = exact.q(want) if unit == 1.0 else Fraction(float(exact.q(want)) * unit)
            # not dyadic: mean (1 rounding), division (1), float32(1e-8) (1): 4 ulp of the result
            if not close(got[k], w, v["exp"]["ulps"]):
                cls = "near_zero_input" if v["args"]["scale"] == "tiny" else ("clamped_by_eps" if v["exp"]["clamped"] else "normalised")
                out.append(Problem(
                    f"avg_l1_norm:{cls}",
                    f"avg_l1_norm(x={_fmt(v['args']['x'])}{'*2^-40' if v['args']['scale'] == 'tiny' else ''}, eps={v['args']['eps']}) = {[float(t) for t in got]}, specification {_fmt(v['exp']['out'])}{'' if unit == 1.0 else ' * 2^-40/1e-8'}",
                    v))
                return

    for gi, (gk, g) in enumerate(sorted(groups.items())):
        random.Random(seed * 8191 + gi).shuffle(g)
        x = _m32([v["args"]["x"] for v in g])
        if gk[2] == "tiny":
            x = (x * np.float32(TINY)).astype(np.float32)
        y = _call(avg_l1_norm, "avg_l1_norm", g[0], out, jnp.asarray(x), **_eps_kw(gk[1]))
        if y is None:
            continue
        y = np.asarray(y)
        if y.shape != x.shape:
            out.append(Problem("avg_l1_norm:shape", f"result shape {y.shape}, expected {x.shape}", g[0]))
            continue
        for i, v in enumerate(g):
            compare(v, y[i])
        for i in rng.sample(range(len(g)), min(single, len(g))):
            y1 = _call(avg_l1_norm, "avg_l1_norm", g[i], out, jnp.asarray(x[i]), **_eps_kw(gk[1]))
            if y1 is not None:
                compare(g[i], np.asarray(y1))
    return out


# ---------------------------------------------------------------- linear schedule
def check_sched(vecs, seed=0):
    from rl_blox.blox.schedules import linear_schedule

    out = []
    for v in vecs:
        a = v["args"]
        T, s, e, f = a["T"], exact.q(a["start"]), exact.q(a["stop"]), exact.q(a["fraction"])
        if (s, e, f) == (1, Fraction(1, 10), Fraction(1, 10)):
            sch = _call(linear_schedule, "linear_schedule", v, out, T)  # the documented defaults
        else:
            sch = _call(linear_schedule, "linear_schedule", v, out, T, start=float(s), end=float(e), fraction=float(f))
        if sch is None:
            continue
        sch = np.asarray(sch)
        call = f"linear_schedule({T}, start={s}, end={e}, fraction={f})"
        if sch.shape != (T,):
            out.append(Problem("linear_schedule:length", f"{call} has shape {sch.shape}, specification length {T}", v))
            continue
        k = v["exp"]["k"]
        # start*(1-i/(k-1)) + end*(i/(k-1)): 5 roundings of magnitude <= max(|start|,|end|) -> < 3 ulp; 4 allowed
        m = max(abs(s), abs(e))
        bad = [i for i in range(T) if not close(sch[i], v["exp"]["sched"][i], v["exp"]["ulps"], m)]
        if bad:
            i = bad[0]
            cls = "tail_is_end" if i >= k else ("first_is_start" if i == 0 else "transition_values")
            out.append(Problem(f"linear_schedule:{cls}", f"{call}[{i}] = {float(sch[i])!r}, specification {_fmt(v['exp']['sched'][i])} (transition steps {k}); result {sch.tolist()}", v))
            continue
        d = v["exp"]["dir"]
        if d != 0 and any((float(sch[i + 1]) - float(sch[i])) * d < 0 for i in range(T - 1)):
            out.append(Problem("linear_schedule:monotone", f"{call} = {sch.tolist()} is not monotone", v))
    return out


CHECKS = {"TwoHot": check_twohot, "CrossEntropy": check_ce, "CrossEntropySat": check_ce_sat, "Huber": check_huber, "MaskedMSE": check_mse, "AvgL1": check_avgl1, "LinearSchedule": check_sched}


# ---------------------------------------------------------------- make_two_hot_bins (D4, code -> spec)
def bins_cases(quick):
    ns = [1, 2, 3, 5, 9, 17, 33, 65, 100, 101]
    cases = [(-10, 10, n) for n in ns] + [(-4, 4, 9), (-1, 1, 2), (-2, 3, 7), (0, 5, 6), (-5, 0, 11), (1, 3, 4), (-8, 8, 17)]
    if not quick:
        cases += [(-h, h, n) for h in (1, 2, 5, 8, 12) for n in (2, 3, 5, 9, 33, 64, 65, 129, 255, 257)]
        cases += [(-3, 7, 21), (-12, 2, 50), (0, 10, 101), (-10, 0, 101), (2, 4, 9), (-6, -1, 6)]
    return sorted(set(cases))


def record_bins(cases):
    from rl_blox.blox.preprocessing import make_two_hot_bins

    recs, problems = [], []
    for lo, hi, n in cases:
        vec = {"op": "Bins", "args": {"lo": lo, "hi": hi, "n": n}}
        b = _call(make_two_hot_bins, "make_two_hot_bins", vec, problems, float(lo), float(hi), n)
        if b is None:
            continue
        b = np.asarray(b, dtype=np.float32)
        if b.ndim != 1 or not np.all(np.isfinite(b)):
            problems.append(Problem("make_two_hot_bins:finite_1d", f"make_two_hot_bins({lo}, {hi}, {n}) = shape {b.shape}, finite={bool(np.all(np.isfinite(b)))}", vec))
            continue
        recs.append({"lo": lo, "hi": hi, "n": n, "ords": [exact.ord32(t) for t in b]})
    return recs, problems


def tlc_bins(recs, tag, workers=1, invs=BINS_INVS):
    d = os.path.join(tlc.OUT, "tmp")
    os.makedirs(d, exist_ok=True)
    path = os.path.join(d, f"c18-bins-{os.getpid()}-{tag}.json")
    with open(path, "w") as f:
        json.dump(recs, f)
    try:
        return tlc.run("NumericsBins", tlc.cfg_text(invariants=list(invs)), workers=workers, env={"C18_BINS_FILE": path}, tag="c18" + tag)
    finally:
        os.remove(path)


def _bins_case_of(res, recs):
    import re

    m = None
    for m in re.finditer(r"\bi = (\d+)", res.error_trace):
        pass
    return recs[int(m.group(1)) - 1] if m and 0 < int(m.group(1)) <= len(recs) else None


# ---------------------------------------------------------------- evidence helpers
def nontrivial(v):
    op, a, e = v["op"], v["args"], v["exp"]
    if op == "TwoHot":
        return True
    if op in ("CrossEntropy", "CrossEntropySat"):
        return True
    if op == "Huber":
        return a["e"][0] != 0
    if op == "MaskedMSE":
        return e["loss"][0] != 0
    if op == "AvgL1":
        return any(t[0] != 0 for t in a["x"])
    if op == "LinearSchedule":
        return e["k"] >= 1
    return False


def dedupe(emitted):
    seen, out = set(), []
    for v in emitted:
        k = json.dumps(v, sort_keys=True)
        if k not in seen:
            seen.add(k)
            out.append(v)
    return out


def _corrupt(v):
    """binding canary: shift one expected value of a vector by one."""
    w = json.loads(json.dumps(v))
    e = w["exp"]
    bump = lambda q: [q[0] + q[1], q[1]]  # noqa: E731
    if w["op"] == "TwoHot":
        e["row"][e["support"][0]] = bump(e["row"][e["support"][0]])
    elif w["op"] == "CrossEntropy":
        e["form"][0][1] = bump(e["form"][0][1])
    elif w["op"] == "CrossEntropySat":
        e["const"] = bump(e["const"])
    elif w["op"] in ("Huber", "MaskedMSE"):
        e["loss"] = bump(e["loss"])
    elif w["op"] == "AvgL1":
        e["out"][0] = bump(e["out"][0])
    elif w["op"] == "LinearSchedule":
        e["sched"][-1] = bump(e["sched"][-1])
    return w


# ---------------------------------------------------------------- run
def run(rep):
    import time

    quick = rep.tier == "quick"
    t0 = [time.time()]
    phases = rep.extra.setdefault("wall_s_by_phase", {})

    def lap(name):
        phases[name] = round(phases.get(name, 0) + time.time() - t0[0], 1)
        t0[0] = time.time()

    dev = os.environ.get("VERIF_DEV_WORKERS")
    W = int(dev) if dev else 16
    tlc.sany("Numerics")
    tlc.sany("NumericsBins")

    if quick:
        lattices = [("lattice", dict(IOTA={2, 3, 5, 9}), dict(IOTA={2, 3, 5, 9, 65, 101}))]
    else:
        big = dict(MaxT=32, MaxCE=7, MaxSat=5, MaxMSE=4, NPairs=5)
        lattices = [
            ("lattice", dict(big, IOTA={2, 3, 5, 9, 17, 33}), dict(big, IOTA={2, 3, 5, 9, 17, 33, 65, 100, 101})),
            ("mse6", dict(FAMS={"mse"}, MaxMSE=6, NPairs=2), dict(FAMS={"mse"}, MaxMSE=6, NPairs=2)),
        ]
    rep.rule = (
        "TLC enumerates every test vector of Numerics.tla (staged choice: bins x position / logits, delta x error, shape x mask x rows, "
        "length x eps x elements, T x fraction x ends), checks the C18 clauses as invariants on each and prints (inputs, expected output); "
        "each distinct vector is evaluated once by the real function. A vector is non-trivial unless its expected output is identically "
        "zero by construction (zero error, zero-error/all-masked MSE, zero input vector, schedule without transition)"
    )

    # (1) the clauses of C18 decided by TLC on the lattice, (2) the same lattice generated with expected outputs
    vectors = []
    for name, inv_kw, gen_kw in lattices:
        c = _consts(**inv_kw)
        invs = [i for f in sorted(c["FAMS"]) for i in INVS[f]]
        r = tlc.run("Numerics", tlc.cfg_text(constants=c, invariants=invs), workers=W, coverage=True, tag="c18inv")
        rep.add_tlc(r, f"Numerics {name} invariants")
        lap("tlc_invariants")
        if not r.ok:
            rep.violation(f"spec:Numerics:{r.violated}", f"design-level violation of {r.violated} in Numerics ({name})", r.error_trace)
        elif c["FAMS"] == ALL_FAMS:
            tlc.require_covered(r, NAMED_ACTIONS)
        g = tlc.run("Numerics", tlc.cfg_text(constants=_consts(EMIT=True, **gen_kw)), workers=1, tag="c18gen")
        rep.add_tlc(g, f"Numerics {name} generation")
        vectors += g.emitted
        lap("tlc_generation")
    vectors = dedupe(vectors)
    by_op = defaultdict(list)
    for v in vectors:
        by_op[v["op"]].append(v)
    missing = [o for o in OPS if not by_op[o]]
    if missing:
        raise tlc.MachineryError(f"no vectors generated for {missing} (vacuous model)")

    # (3) deviation canaries: each realistic wrong variant must be refuted by TLC
    canaries = [
        ("huber_no_half", dict(FAMS={"huber"}, DEV="huber_no_half"), INVS["huber"], "Huber"),
        ("sched_one_point_end", dict(FAMS={"sched"}, DEV="sched_one_point_end", MaxT=8), INVS["sched"], "SchedFirstIsStart"),
        ("twohot_at_or_below", dict(FAMS={"twohot"}, DEV="twohot_at_or_below", WIDE=False), INVS["twohot"], "TwoHot"),
        ("ce_log_eps", dict(FAMS={"twohot", "ce"}, DEV="ce_log_eps", WIDE=False, MaxCE=1), INVS["ce"], "CESatPaysFullGap"),
        ("avgl1_no_clamp", dict(FAMS={"avgl1"}, DEV="avgl1_no_clamp"), INVS["avgl1"], "AvgL1"),
        ("twohot_sentinel_1e8", dict(FAMS={"twohot"}, DEV="twohot_sentinel_1e8", WIDE=True), ["TwoHotMechanismSound"], "TwoHotMechanismSound"),
    ]

    def canary(cn):
        name, kw, invs, expect = cn
        r = tlc.run("Numerics", tlc.cfg_text(constants=_consts(**kw), invariants=invs), workers=1, tag="c18can")
        return name, expect, r

    with ThreadPoolExecutor(max_workers=3 if dev else 6) as ex:
        for name, expect, r in ex.map(canary, canaries):
            if not (r.violated or "").startswith(expect):
                raise tlc.MachineryError(f"canary: deviation {name} not refuted (TLC: {r.violated})")
    rep.extra["canaries_refuted"] = [c[0] for c in canaries]
    lap("tlc_canaries")

    # (4) spec -> code: every vector into the real functions
    def report(problems):
        for pr in problems:
            rep.violation(pr.key, pr.what, pr.vec)

    n_eval = 0
    for op in OPS:
        vs = by_op[op]
        if op == "AvgL1":
            report(check_avgl1(vs, rep.seed, single=3))
        else:
            report(CHECKS[op](vs, rep.seed))
        n_eval += len(vs)
        lap("replay_" + op)
    # single-row calls (n_samples = 1) of the batched functions
    rng = random.Random(rep.seed * 2654435761 % (2**31) + 17)
    for op in ("TwoHot", "CrossEntropy", "CrossEntropySat", "Huber"):
        for v in rng.sample(by_op[op], min(12 if quick else 40, len(by_op[op]))):
            report(CHECKS[op]([v], rep.seed))
            n_eval += 1
    # the iota vectors on the real make_two_hot_bins outputs
    iota = defaultdict(list)
    for v in by_op["TwoHot"]:
        if v["args"]["iota"]:
            iota[len(v["args"]["bins"])].append(v)
    real_cases, real_attempts = 0, 0
    for n, params in sorted(real_bin_params(quick).items()):
        for lo, hi in params:
            if iota.get(n):
                pr, used = check_twohot_on_real_bins(iota[n], lo, hi, rep.seed)
                report(pr)
                real_cases += used
                real_attempts += 1
    if real_attempts == 0:
        raise tlc.MachineryError("no vector was mapped onto make_two_hot_bins outputs")
    n_eval += real_cases
    lap("replay_single_and_real_bins")
    rep.extra["vectors_by_function"] = {o: len(by_op[o]) for o in OPS}
    rep.extra["vectors_on_make_two_hot_bins_outputs"] = real_cases

    # (5) binding canary: a corrupted expected value must be noticed by every comparison
    for op in OPS:
        v = next((t for t in by_op[op] if nontrivial(t) and (op != "TwoHot" or (t["args"]["sentinel_ok"] and len(t["args"]["bins"]) <= 9))), by_op[op][0])
        if CHECKS[op]([v], rep.seed):
            continue  # the honest vector already fails (reported above): canary not applicable
        if not CHECKS[op]([_corrupt(v)], rep.seed):
            raise tlc.MachineryError(f"binding canary: corrupted expected value of a {op} vector was not noticed")

    lap("binding_canaries")
    # (6) make_two_hot_bins: recorded float32 ordinals against the order predicates (code -> spec)
    cases = bins_cases(quick)
    recs, problems = record_bins(cases)
    report(problems)
    rb = tlc_bins(recs, "bins")
    rep.add_tlc(rb, "NumericsBins recorded make_two_hot_bins outputs")
    if not rb.ok:
        bad = _bins_case_of(rb, recs)
        rep.violation(
            f"make_two_hot_bins:{rb.violated}",
            f"make_two_hot_bins({bad['lo']}, {bad['hi']}, {bad['n']}) violates {rb.violated}" if bad else f"make_two_hot_bins violates {rb.violated}",
            {"op": "Bins", "args": {k: bad[k] for k in ("lo", "hi", "n")}} if bad else rb.error_trace,
        )
    elif rb.distinct != len(recs) + 1:
        raise tlc.MachineryError(f"NumericsBins examined {rb.distinct - 1} of {len(recs)} recorded cases")
    ok2 = [r for r in recs if len(r["ords"]) >= 2]
    if ok2:
        swapped = json.loads(json.dumps(ok2[-1:]))
        o = swapped[0]["ords"]
        o[0], o[1] = o[1], o[0]
        if tlc_bins(swapped, "binscan", invs=["BinsStrictlyIncreasing"]).violated != "BinsStrictlyIncreasing":
            raise tlc.MachineryError("binding canary: swapped bin ordinals not refuted by BinsStrictlyIncreasing")
    n_eval += len(recs)
    lap("bins_ordinals")
    d = next((r for r in recs if (r["lo"], r["hi"], r["n"]) == (-10, 10, 101)), None)
    if d and len(d["ords"]) == 101:
        rep.extra["observation_default_bins"] = {
            "mirror_symmetric": all(d["ords"][k] == -d["ords"][100 - k] for k in range(101)),
            "middle_edge_ordinal": d["ords"][50],
            "note": "not a clause of C18: with 101 edges the float32 linspace is inexact, so exact symmetry / a bin at 0 is only required where the step is dyadic",
        }

    rep.traces = n_eval
    rep.evaluations = n_eval
    rep.distinct = sum(1 for v in vectors if nontrivial(v)) + len(recs)
    rep.exhaustive = True
    for op in ("TwoHot", "CrossEntropySat", "LinearSchedule", "CrossEntropy"):
        vs = [v for v in by_op[op] if nontrivial(v) and (op != "TwoHot" or v["args"]["sentinel_ok"])]
        vs = [v for v in vs if len(json.dumps(v)) < 700] or vs
        rep.sample(vs[rng.randrange(len(vs))])
    rep.assumptions += [
        "inputs are float32-exact dyadic rationals from a bounded lattice; other reals are covered only through the order-isomorphic mapping onto make_two_hot_bins outputs (structure exact, decoding within 16 ulp)",
        "two-hot domain: at least two bin edges and x inside [first edge, last edge] (a single edge has no interval to interpolate in; the code returns NaN there)",
        "cross-entropy only for logits c + {0, ln 2} (D3, 8 ulp) and saturated logits c - {0, 16, 40, 100} (rational + ln(#high), 4 ulp + the emitted slack sum EXP(-g)/#high); arbitrary logits and the symexp bin values are not decided",
        "linear_schedule fractions are dyadic or 1/10 (for these int(T * fraction) equals the exact floor); fraction in (0, 1]",
        "avg_l1_norm default eps: the clamped branch is exercised exactly with eps in {1/4, 1}, and with the default eps on 0 and on v * 2^-40",
        "trusted: harness/exact.py, float64 values of ln n, 1e-8, 2^-40, TLC, NumPy/JAX",
    ]


def replay(path, rep):
    d = json.load(open(path))
    v = d["replay"]
    if not isinstance(v, dict) or "op" not in v:
        print("replay file holds a specification-level trace, nothing to run against the code:")
        print(str(v)[:2000])
        return 1
    print("vector:", json.dumps(v)[:1500])
    if v["op"] == "Bins":
        a = v["args"]
        recs, problems = record_bins([(a["lo"], a["hi"], a["n"])])
        r = tlc_bins(recs, "replay") if recs else None
        bad = bool(problems) or (r is not None and not r.ok)
        print("make_two_hot_bins ordinals:", recs[0]["ords"] if recs else None, "->", "violates " + str(r.violated) if bad and r else "ok")
        what = [p.what for p in problems] or ([r.violated] if bad else [])
    elif "real_bins" in v:
        lo, hi, _ = v["real_bins"]
        what = [p.what for p in check_twohot_on_real_bins([v], lo, hi, rep.seed)[0]]
    else:
        what = [p.what for p in CHECKS[v["op"]]([v], rep.seed)]
    if what:
        print("VIOLATION property=C18 replay=" + path)
        for w in what:
            print("  ", w[:1500])
        return 1
    print("the recorded vector now agrees with the specification")
    return 0
