"""C19 - saved models and buffers reload to identical state and behaviour.

spec/Persist.tla states the property abstractly (save/reload is a stuttering
step; the reloaded copy agrees with the original under every continuation).
Binding: the state graphs of Ring / MultiTask / RingPrio / Subtraj generated
by TLC are replayed with a pickle save+reload at EVERY transition: the
original, a copy reloaded at an earlier prefix and a copy reloaded right now
are driven in lock-step; after every step all three must project to the
model's post state, be bit-identical in their raw contents and return
bit-identical batches for identical generator states.  Function approximators:
save_pickle/load_pickle and OrbaxCheckpointer.save_model + restore for every
module type, with digests, outputs and one further update step compared.
"""
from __future__ import annotations

import copy
import json
import os
import pickle
import shutil

import numpy as np

from .. import bufkit, graph, tlc
from .. import subtraj_bind as sb
from ..graph import Mismatch

LEVEL = "model_checking"
MANIFEST = dict(
    category="model_checking",
    text="Persist.tla: save/reload is a stuttering step and the reloaded copy agrees with the original under every continuation (TLC: Agree, SaveIsStutter; lossy reload refuted). Bound by replaying the TLC state graphs of Ring, MultiTask, RingPrio and Subtraj into every buffer class with a pickle save+reload inserted at every transition: original, earlier-reloaded and freshly reloaded objects run in lock-step and must equal the model state, each other bit for bit, and sample identical batches for identical generator states. Modules: pickle helper and Orbax checkpoints for every module type: parameter digests, outputs and one further optimiser step identical.",
    note="bounded capacities/histories of the underlying graphs; modules with small random parameters (seeded); trusted: raw-state walker, digest function, TLC",
    technique="TLA+ spec + TLC; lock-step replay of TLC state graphs with save/reload at every transition; module save/restore round trips",
)


# ------------------------------------------------------------------ raw state
def raw(obj, depth=0):
    """Bit-level picture of an object's state (numpy arrays as bytes)."""
    if isinstance(obj, np.ndarray):
        return ("nd", str(obj.dtype), obj.shape, obj.tobytes())
    if isinstance(obj, (int, float, str, bool, type(None), np.generic)):
        return ("v", repr(obj))
    if isinstance(obj, dict):
        return ("d", [(repr(k), raw(v, depth + 1)) for k, v in obj.items()])
    if isinstance(obj, (list, tuple)):
        return ("l", [raw(v, depth + 1) for v in obj])
    if isinstance(obj, (set, frozenset)):
        return ("s", sorted(repr(x) for x in obj))
    if isinstance(obj, type):
        return ("t", obj.__name__)
    if hasattr(obj, "__dict__"):
        d = dict(obj.__dict__)
        d.pop("Batch", None)  # the namedtuple class is rebuilt on load
        if "buffer" in d and "current_len" in d:
            # never-written slots hold arbitrary np.empty content, which is not part of the buffer's contents
            n = d["current_len"]
            d["buffer"] = {k: (v[:n] if isinstance(v, np.ndarray) and v.ndim > 0 and v.shape[0] >= n else v) for k, v in d["buffer"].items()}
            if "priority" in d and hasattr(d["priority"], "priority"):
                pd = dict(d["priority"].__dict__)
                pd["priority"] = pd["priority"][:n]
                d["priority"] = pd
        return ("o", type(obj).__name__, raw(d, depth + 1))
    return ("r", repr(obj))


def diff_raw(a, b, path="obj"):
    if a == b:
        return None
    if a[0] != b[0]:
        return f"{path}: {a[0]} vs {b[0]}"
    if a[0] == "o":
        if a[1] != b[1]:
            return f"{path}: class {a[1]} vs {b[1]}"
        return diff_raw(a[2], b[2], path)
    if a[0] == "d":
        ka, kb = [k for k, _ in a[1]], [k for k, _ in b[1]]
        if ka != kb:
            return f"{path}: attributes {ka} vs {kb}"
        for (k, va), (_, vb) in zip(a[1], b[1]):
            d = diff_raw(va, vb, f"{path}.{k}")
            if d:
                return d
    if a[0] == "l":
        if len(a[1]) != len(b[1]):
            return f"{path}: length {len(a[1])} vs {len(b[1])}"
        for i, (va, vb) in enumerate(zip(a[1], b[1])):
            d = diff_raw(va, vb, f"{path}[{i}]")
            if d:
                return d
    return f"{path}: contents differ"


def reload(obj):
    return pickle.loads(pickle.dumps(obj))


def _bytes_of(x):
    import jax

    return [(np.asarray(l).dtype.str, np.asarray(l).shape, np.asarray(l).tobytes()) for l in jax.tree_util.tree_leaves(x)]


SAMPLED = [0]  # batches actually drawn with a real generator in this process (vacuity guard)


class Family:
    """How to drive one adapter type."""

    def __init__(self, name, make, step, project, get, set_, sample):
        self.name, self.make, self.step, self.project, self.get, self.set, self.sample = name, make, step, project, get, set_, sample


class Trio:
    def __init__(self, a, b, c):
        self.a, self.b, self.c = a, b, c  # original / reloaded earlier / reloaded now
        self.depth = 0


def cover_family(G, fam: Family, seed):
    def factory():
        a = fam.make()
        return Trio(a, copy.deepcopy(a), copy.deepcopy(a))

    def clone(t: Trio):
        a = copy.deepcopy(t.a)
        b = copy.deepcopy(t.b)
        c = copy.deepcopy(t.a)
        before = raw(fam.get(a))
        fam.set(c, reload(fam.get(a)))  # save after this prefix, reload
        if raw(fam.get(a)) != before:
            raise Mismatch("saving modified the original object", code="save_modifies_original")
        d = diff_raw(before, raw(fam.get(c)))
        if d:
            raise Mismatch(f"reloaded object differs from the original: {d}", code="reload_differs:" + d.split(":")[0])
        n = Trio(a, b, c)
        n.depth = t.depth + 1
        return n

    def step(t: Trio, op, args, exp, pre, post):
        for who, ad in (("original", t.a), ("reloaded earlier", t.b), ("reloaded now", t.c)):
            try:
                fam.step(ad, op, args, exp, pre, post)
            except Mismatch as m:
                raise Mismatch(f"[{who}] {m.what}", code=("reloaded:" if who != "original" else "original:") + m.code)
        ra, rb, rc = raw(fam.get(t.a)), raw(fam.get(t.b)), raw(fam.get(t.c))
        for who, r in (("reloaded earlier", rb), ("reloaded now", rc)):
            d = diff_raw(ra, r)
            if d:
                raise Mismatch(f"after {op} the object {who} differs from the original: {d}", code="continuation_differs:" + d.split(":")[0])
        # identical generator state -> identical batches
        outs = []
        for ad in (t.a, t.c, t.b):
            o = copy.deepcopy(fam.get(ad))
            try:
                outs.append(("ok", _bytes_of(fam.sample(o, ad, np.random.default_rng(seed + 17)))))
                SAMPLED[0] += 1
            except Exception as e:  # nothing to sample from (empty buffer, no admissible start); the guard below makes sure batches ARE drawn
                outs.append(("raise", type(e).__name__))
        if not (outs[0] == outs[1] == outs[2]):
            raise Mismatch(f"after {op}: batches sampled with identical generator state differ between original and reloaded buffer", code="sample_differs")
        # alternate which reloaded lineage is carried on
        if t.depth % 2 == 0:
            t.b = t.c

    def project(t: Trio):
        pa = fam.project(t.a)
        for who, ad in (("reloaded earlier", t.b), ("reloaded now", t.c)):
            if graph.canon(fam.project(ad)) != graph.canon(pa):
                raise Mismatch(f"projection of the object {who} differs from the original", code="projection_differs")
        return pa

    return graph.cover(G, G.roots()[0], factory, step, project, clone=clone)


def walk_family(G, fam: Family, seed, n_walks, max_len):
    """Behaviours of the same graph on a LIVE original that is never copied.

    cover_family() reaches every state with deep copies of the original; copy.deepcopy goes through the same
    __reduce_ex__ / __getstate__ / __setstate__ protocol as pickle, so a loader that rebuilds part of the state
    differently (another iteration order, a recomputed field) treats the "original" lineage alike and the difference
    between an object that was never saved and its reloaded copy never shows.  Here the original is constructed once
    and only ever driven through its public methods; at chosen points it is pickled and the reloaded copy follows in
    lock-step.  Batches are drawn from the original itself (a real generator; at the end of the walk for buffers whose
    sampling records state, at every step otherwise)."""
    import random

    rnd = random.Random(seed + 4242)
    root = G.roots()[0]
    violations = []
    steps = 0
    sample_mutates = not fam.name.startswith(("ReplayBuffer", "MultiTask[ReplayBuffer]"))
    for w in range(n_walks):
        a = fam.make()
        c = None
        k = root
        path = []

        def both_sample(tag):
            if c is None:
                return
            outs = []
            for ad in (a, c):
                try:
                    outs.append(("ok", _bytes_of(fam.sample(fam.get(ad), ad, np.random.default_rng(seed + 17)))))
                    SAMPLED[0] += 1
                except Exception as e:  # nothing to sample from
                    outs.append(("raise", type(e).__name__))
            if outs[0] != outs[1]:
                raise Mismatch(f"{tag}: batches drawn with identical generator state differ between the never-saved original and its reloaded copy", code="live:sample_differs")

        try:
            for i in range(max_len):
                es = G.out.get(k, ())
                if not es:
                    break
                moves = [e for e in es if e[3] != k] or list(es)
                op, args, exp, k2 = rnd.choice(moves if rnd.random() < 0.8 else list(es))
                path.append({"op": op, "args": args, "exp": exp})
                if c is None or rnd.random() < 0.5:
                    before = raw(fam.get(a))
                    c = copy.deepcopy(a)  # the adapter's own bookkeeping; the buffer inside is replaced by the reloaded one
                    fam.set(c, reload(fam.get(a)))
                    if raw(fam.get(a)) != before:
                        raise Mismatch("saving modified the original object", code="live:save_modifies_original")
                    d = diff_raw(before, raw(fam.get(c)))
                    if d:
                        raise Mismatch(f"reloaded object differs from the never-saved original: {d}", code="live:reload_differs:" + d.split(":")[0])
                for who, ad in (("original", a), ("reloaded", c)):
                    try:
                        fam.step(ad, op, args, exp, G.state[k], G.state[k2])
                    except Mismatch as m:
                        raise Mismatch(f"[{who}] {m.what}", code=("live:reloaded:" if who != "original" else "live:original:") + m.code)
                d = diff_raw(raw(fam.get(a)), raw(fam.get(c)))
                if d:
                    raise Mismatch(f"after {op} the reloaded object differs from the never-saved original: {d}", code="live:continuation_differs:" + d.split(":")[0])
                pa = fam.project(a)
                if graph.canon(pa) != k2 or graph.canon(fam.project(c)) != k2:
                    raise Mismatch("state after step differs from model", got=pa, want=G.state[k2])
                if not sample_mutates:
                    both_sample(f"after {op}")
                steps += 1
                k = k2
            both_sample("at the end of the history")
        except Mismatch as m:
            violations.append({"what": m.what + f" (live history of {len(path)} calls)", "code": m.code, "detail": m.detail, "path": list(path)})
        except Exception as ex:
            violations.append({"what": f"exception {type(ex).__name__}: {str(ex)[:160]} (live history of {len(path)} calls)", "code": f"live:exception:{type(ex).__name__}", "detail": {}, "path": list(path)})
    return {"walks": n_walks, "steps": steps, "violations": violations}


def _graph(module, consts, view=None):
    c = dict(consts)
    c["EMIT"] = True
    g = tlc.run(module, tlc.cfg_text(constants=c, view=view), workers=1, tag="c19gen", timeout=1500)
    return g, graph.Graph(g.emitted)


def buffer_job(which, args, seed):
    """One (graph, buffer family) pair; run in a worker process."""
    from . import c02, c08

    out = {"tlc": [], "violations": [], "edges": 0, "nontrivial": 0, "sample": None}
    if which == "ring":
        cls, n, m = args
        g, G = _graph("Ring", dict(N=n, MaxAdds=m, MaxBatch=1))
        prof = bufkit.default_profile()
        fam = Family(
            f"{cls}", lambda: c02.RingAdapter(cls, prof, n), c02.ring_step, c02.ring_project,
            lambda ad: ad.buf, lambda ad, x: setattr(ad, "buf", x),
            lambda o, ad, rng: _ring_sample(o, rng),
        )
    elif which == "mt":
        cls, k, n, m = args[:4]
        tm = c02.SPARSE_IDS[:k] if len(args) > 4 and args[4] == "sparse" else None
        g, G = _graph("MultiTask", dict(K=k, N=n, MaxAdds=m, MaxBatch=1))
        prof = bufkit.default_profile()

        def set_mt(ad, x):
            ad.mt = x
            ad.inner.buf = x.buffers[0]

        fam = Family(f"MultiTask[{cls}]" + ("[sparse task ids]" if tm else ""), lambda: c02.MTAdapter(cls, prof, n, k, tm), c02.mt_step, c02.mt_project, lambda ad: ad.mt, set_mt, lambda o, ad, rng: _ring_sample(o, rng))
    elif which == "prio":
        kind, k, n, m, b, strat = args[:6]
        # unit 3: the real priorities are thirds (model values 1, 2, 4 = 1/3, 2/3, 4/3; initial maximum 3 = 1.0), i.e.
        # doubles that no narrower floating-point type holds - a snapshot must keep them bit for bit
        unit = args[6] if len(args) > 6 else 1
        g, G = _graph("RingPrio", dict(K=k, N=n, MaxAdds=m, PrioVals={1, 3} if unit == 1 else {1, 2, 4}, MaxBatch=b, STRAT=strat, **c08._default(unit)), view="View")
        fam = Family(f"{kind}{'[multi-task]' if k > 1 else ''}{'[priorities in thirds]' if unit == 3 else ''}", lambda: c08.PrioAdapter(kind, n, k, unit), c08.step, c08.project,
                     lambda ad: ad.obj, lambda ad, x: setattr(ad, "obj", x), lambda o, ad, rng: _ring_sample(o, rng))
    elif which == "subtraj":
        n, h, m, prio, b = args
        g, G = _graph("Subtraj", dict(N=n, H=h, MaxAdds=m, PRIO=prio, PrioVals={1, 3} if prio else {1}, MaxBatch=b))
        fam = Family("SubtrajectoryReplayBuffer" + ("PER" if prio else ""), lambda: sb.SubtrajAdapter(n, h, prio), sb.step, sb.project,
                     lambda ad: ad.buf, lambda ad, x: setattr(ad, "buf", x), lambda o, ad, rng: o.sample_batch(3, ad.h, True, rng))
    else:  # pragma: no cover
        raise AssertionError(which)
    out["tlc"].append({"name": f"{which} {args} graph generation", "distinct": g.distinct, "generated": g.generated, "depth": g.depth, "wall_s": round(g.wall_s, 1)})
    SAMPLED[0] = 0
    res = cover_family(G, fam, seed)
    wres = walk_family(G, fam, seed, 40, 10)
    out["sampled"] = SAMPLED[0]
    out["live_steps"] = wres["steps"]
    res["violations"] = res["violations"] + wres["violations"]
    out["edges"] = res["edges_tested"]
    out["nontrivial"] = sum(1 for k_, es in G.out.items() for e in es if k_ != G.roots()[0])
    for v in res["violations"]:
        out["violations"].append((f"{fam.name}:{v['path'][-1]['op']}:{v['code']}", f"{fam.name} {args}: {v['what']}",
                                  {"kind": "buffer", "which": which, "args": list(args), "path": v["path"]}))
    out["sample"] = {"family": fam.name, "graph": f"{which}{list(args)}", "transition": g.emitted[len(g.emitted) // 2]["op"], "reload": "at every transition"}
    return out


def _ring_sample(o, rng):
    return o.sample_batch(4, rng)


# ------------------------------------------------------------------ modules
def digest(module):
    import hashlib

    import jax
    from flax import nnx

    h = hashlib.sha1()
    for path, leaf in jax.tree_util.tree_flatten_with_path(nnx.state(module))[0]:
        a = np.asarray(leaf)
        h.update(repr(path).encode())
        h.update(a.dtype.str.encode())
        h.update(repr(a.shape).encode())
        h.update(a.tobytes())
    return h.hexdigest()


THOROUGH_ONLY = {"GaussianTanhPolicy"}  # quick-tier budget; its structure (GaussianMLP + non-Param variables) is covered by parts of the quick zoo


def module_zoo(seed):
    """name -> (factory(seed) -> module, call(module) -> outputs)."""
    import gymnasium as gym
    import jax.numpy as jnp
    from flax import nnx
    from rl_blox.blox.double_qnet import ContinuousClippedDoubleQNet
    from rl_blox.blox.embedding.model_based_encoder import ModelBasedEncoder
    from rl_blox.blox.embedding.sale import SALE
    from rl_blox.blox.function_approximator.gaussian_mlp import GaussianMLP
    from rl_blox.blox.function_approximator.layer_norm_mlp import LayerNormMLP
    from rl_blox.blox.function_approximator.mlp import MLP
    from rl_blox.blox.function_approximator.policy_head import DeterministicTanhPolicy
    from rl_blox.blox.probabilistic_ensemble import GaussianMLPEnsemble

    x3 = jnp.asarray([[0.5, -1.0, 2.0], [1.5, 0.25, -0.75]])
    a2 = jnp.asarray([[0.25, -0.5], [1.0, 0.0]])
    box = gym.spaces.Box(low=np.array([-2.0, -1.0], dtype=np.float32), high=np.array([1.0, 3.0], dtype=np.float32))
    z = {}
    z["MLP"] = (lambda s: MLP(3, 2, [5], "relu", rngs=nnx.Rngs(s)), lambda m: m(x3))
    z["LayerNormMLP"] = (lambda s: LayerNormMLP(3, 2, [5], "elu", rngs=nnx.Rngs(s)), lambda m: m(x3))
    z["GaussianMLP"] = (lambda s: GaussianMLP(False, 3, 2, [5], "relu", rngs=nnx.Rngs(s)), lambda m: m(x3))
    z["DoubleQ"] = (lambda s: ContinuousClippedDoubleQNet(MLP(5, 1, [4], "relu", rngs=nnx.Rngs(s)), MLP(5, 1, [4], "relu", rngs=nnx.Rngs(s + 1))),
                    lambda m: (m.q1(jnp.concatenate([x3, a2], axis=-1)), m.q2(jnp.concatenate([x3, a2], axis=-1))))
    z["DeterministicTanhPolicy"] = (lambda s: DeterministicTanhPolicy(MLP(3, 2, [4], "relu", rngs=nnx.Rngs(s)), box), lambda m: m(x3))
    z["GaussianMLPEnsemble"] = (lambda s: GaussianMLPEnsemble(3, False, 3, 2, [4], "relu", rngs=nnx.Rngs(s)), lambda m: m(x3))
    z["SALE"] = (lambda s: SALE(MLP(3, 4, [4], "elu", rngs=nnx.Rngs(s)), MLP(4 + 2, 4, [4], "elu", rngs=nnx.Rngs(s + 1))), lambda m: m(state=x3, action=a2))
    z["ModelBasedEncoder"] = (lambda s: ModelBasedEncoder(3, 2, 5, 4, 3, 4, [4], "elu", False, rngs=nnx.Rngs(s)), lambda m: m.encode_zs(x3))
    # parameters of rank 0 (SAC's temperature: one scalar nnx.Param) and a stochastic head with non-Param variables
    from rl_blox.algorithm.sac import EntropyCoefficient
    from rl_blox.blox.function_approximator.policy_head import GaussianTanhPolicy

    z["EntropyCoefficient"] = (lambda s: EntropyCoefficient(jnp.asarray(0.25 * ((s % 7) - 3), dtype=jnp.float32)), lambda m: m())
    z["GaussianTanhPolicy"] = (lambda s: GaussianTanhPolicy(GaussianMLP(True, 3, 2, [4], "relu", rngs=nnx.Rngs(s)), box), lambda m: m(x3))
    return z


def modules_part(rep, quick):
    """save_pickle/load_pickle and Orbax round trips, with a continuation step."""
    import jax
    import jax.numpy as jnp
    import optax
    import orbax.checkpoint as ocp
    from flax import nnx
    from rl_blox.logging.checkpointer import OrbaxCheckpointer
    from rl_blox.util.serialize import load_pickle, save_pickle

    tmp = os.path.join(tlc.OUT, "tmp", f"c19-{os.getpid()}")
    os.makedirs(tmp, exist_ok=True)
    n = 0
    try:
        zoo = {k: v for k, v in module_zoo(rep.seed).items() if not (quick and k in THOROUGH_ONLY)}
        from . import c19_modules

        zoo.update(c19_modules.deep_zoo())
        ck = OrbaxCheckpointer(checkpoint_dir=os.path.join(tmp, "orbax"))
        ck.define_experiment("Env-v0", "c19", {})
        for name, (make, call) in zoo.items():
            for variant in (0, 1) if quick else (0, 1, 2, 3):
                try:
                    m = make(rep.seed + 11 * variant)
                except Exception as e:
                    raise tlc.MachineryError(f"cannot construct {name}: {e!r}")
                # move parameters away from initialisation with dyadic noise so that zeros/biases are non-trivial
                st = nnx.state(m)
                key = jax.random.key(rep.seed + variant)
                leaves, tdef = jax.tree_util.tree_flatten(st)
                new = []
                for i, l in enumerate(leaves):
                    if jnp.issubdtype(jnp.asarray(l).dtype, jnp.floating):
                        new.append(l + jnp.round(jax.random.normal(jax.random.fold_in(key, i), jnp.shape(l)) * 8) / 16)
                    else:
                        new.append(l)
                nnx.update(m, jax.tree_util.tree_unflatten(tdef, new))
                d0 = digest(m)
                y0 = _bytes_of(call(m))
                # --- pickle helper
                fn = os.path.join(tmp, f"{name}-{variant}.pkl")
                try:
                    save_pickle(fn, m)
                    m2 = load_pickle(fn, nnx.graphdef(m))
                except Exception as e:
                    rep.violation(f"save_pickle:{name}:exception:{type(e).__name__}", f"pickle round trip of {name} raised {e!r}", {"kind": "module", "module": name, "variant": variant, "how": "pickle"})
                    m2 = None
                # --- orbax written by the checkpointing logger, restored with the abstract state of a fresh module
                # (through the logger's public calls, one logger for all modules: every variant of a module type is another
                # module OBJECT recorded under the same key at a later step, as in a second training run with that logger)
                try:
                    if name not in ck.checkpoint_path:
                        ck.define_checkpoint_frequency(name, 1)
                    before = len(ck.checkpoint_path[name])
                    ck.record_epoch(name, m, step=variant + 1)
                    if len(ck.checkpoint_path[name]) != before + 1:
                        raise tlc.MachineryError(f"record_epoch wrote {len(ck.checkpoint_path[name]) - before} checkpoints for {name} at interval 1 (C20 decides the cadence)")
                    path = ck.checkpoint_path[name][-1]
                    fresh = make(rep.seed + 999)
                    abstract = jax.tree.map(lambda x: x, nnx.state(fresh))
                    restored = ocp.StandardCheckpointer().restore(path, abstract)
                    nnx.update(fresh, restored)
                    m3 = fresh
                except tlc.MachineryError:
                    raise
                except Exception as e:
                    rep.violation(f"orbax:{name}:exception:{type(e).__name__}", f"Orbax save/restore of {name} raised {e!r}", {"kind": "module", "module": name, "variant": variant, "how": "orbax"})
                    m3 = None
                for how, mm in (("pickle", m2), ("orbax", m3)):
                    if mm is None:
                        continue
                    n += 1
                    if digest(m) != d0:
                        rep.violation(f"{how}:{name}:save_modifies_original", f"saving {name} changed its parameters", {"kind": "module", "module": name, "variant": variant, "how": how})
                    if digest(mm) != d0:
                        rep.violation(f"{how}:{name}:parameters_differ", f"{name} reloaded via {how} has different parameters", {"kind": "module", "module": name, "variant": variant, "how": how})
                        continue
                    if _bytes_of(call(mm)) != y0:
                        rep.violation(f"{how}:{name}:outputs_differ", f"{name} reloaded via {how} gives different outputs for the same inputs", {"kind": "module", "module": name, "variant": variant, "how": how})
                    # continuation: one identical optimiser step on both
                    da = _one_step(m, call)
                    db = _one_step(mm, call)
                    if da != db:
                        rep.violation(f"{how}:{name}:continuation_differs", f"{name} reloaded via {how} evolves differently under one further update", {"kind": "module", "module": name, "variant": variant, "how": how})
                    if da == d0:
                        raise tlc.MachineryError(f"continuation step did not change {name} (vacuous)")
                    # a later snapshot written to the SAME path must reload to the later parameters (no stale state), and
                    # two copies loaded from one file must not share state
                    if how == "pickle":
                        try:
                            da2 = _one_step(m, call)  # m is now two steps ahead of the first snapshot (the reloaded copy one)
                            save_pickle(fn, m)
                            mr = load_pickle(fn, nnx.graphdef(m))
                            if digest(mr) != da2:
                                rep.violation(f"pickle:{name}:resave_same_path_stale", f"{name}: after saving a later snapshot to the same file, load_pickle returns different parameters than were saved",
                                              {"kind": "module", "module": name, "variant": variant, "how": how})
                            else:
                                mr2 = load_pickle(fn, nnx.graphdef(m))
                                _one_step(mr, call)
                                if digest(mr2) != da2 or digest(m) != da2:
                                    rep.violation(f"pickle:{name}:reloaded_shares_state", f"{name}: updating one reloaded copy changed another copy loaded from the same file (or the saved original)",
                                                  {"kind": "module", "module": name, "variant": variant, "how": how})
                        except Exception as e:
                            rep.violation(f"save_pickle:{name}:exception:{type(e).__name__}", f"second pickle round trip of {name} raised {e!r}", {"kind": "module", "module": name, "variant": variant, "how": how})
                    # the continuation step changed m: rebuild it for the next method
                    m = make(rep.seed + 11 * variant)
                    nnx.update(m, jax.tree_util.tree_unflatten(tdef, new))
        rep.sample({"modules": list(zoo), "round_trips": n})
    finally:
        shutil.rmtree(tmp, ignore_errors=True)
    return n


def _one_step(m, call):
    import jax
    import jax.numpy as jnp
    import optax
    from flax import nnx

    opt = nnx.Optimizer(m, optax.sgd(0.125), wrt=nnx.Param)

    def loss(mod):
        return sum(jnp.sum(jnp.asarray(l, dtype=jnp.float32) ** 2) for l in jax.tree_util.tree_leaves(call(mod)))

    g = nnx.grad(loss)(m)
    opt.update(m, g)
    return digest(m)


def run(rep):
    from .. import par

    quick = rep.tier == "quick"
    tlc.sany("Persist")
    c = dict(Ops={"add", "sample", "update"}, MaxLen=4 if quick else 5, EMIT=False)
    r = tlc.run("Persist", tlc.cfg_text(constants=c, invariants=["Agree"], properties=["SaveIsStutter"]), workers=4, tag="persist")
    rep.add_tlc(r, "Persist (abstract)")
    if not r.ok:
        rep.violation(f"spec:Persist:{r.violated}", "design-level violation", r.error_trace)
    rb = tlc.run("Persist", tlc.cfg_text(next="NextBad", constants=c, invariants=["Agree"]), workers=4, tag="persistbad")
    if rb.violated != "Agree":
        raise tlc.MachineryError("canary: lossy reload not refuted")
    jobs = []
    for cls in ("ReplayBuffer", "LAP", "PrioritizedReplayBuffer"):
        jobs.append(("ring", (cls, 2, 5), rep.seed))
        if not quick:
            jobs.append(("ring", (cls, 3, 7), rep.seed))
    jobs.append(("mt", ("ReplayBuffer", 2, 2, 4), rep.seed))
    # a ten-task buffer of which tasks 8, 0, 9 become active in that order (iteration order of the active set after a reload)
    jobs.append(("mt", ("ReplayBuffer", 3, 2, 3, "sparse"), rep.seed))
    jobs.append(("prio", ("LAP", 1, 2, 4, 1, False), rep.seed))
    jobs.append(("prio", ("PER", 1, 2, 4, 2, True), rep.seed))
    jobs.append(("prio", ("LAP", 2, 2, 3, 1, False), rep.seed))
    jobs.append(("prio", ("LAP", 1, 2, 4, 1, False, 3), rep.seed))
    if not quick:
        jobs.append(("prio", ("PER", 1, 2, 3, 2, True, 3), rep.seed))
    jobs.append(("subtraj", (3, 1, 5, False, 1), rep.seed))
    jobs.append(("subtraj", (4, 2, 6, False, 1), rep.seed))
    jobs.append(("subtraj", (3, 1, 3, True, 1), rep.seed))
    if not quick:
        # sized so that the lock-step replay (three objects, a pickle round trip and two deep copies per transition) stays
        # within the thorough budget: ~10 ms per transition
        jobs += [("mt", ("LAP", 2, 2, 4), rep.seed), ("mt", ("LAP", 3, 2, 4, "sparse"), rep.seed), ("prio", ("PER", 2, 2, 3, 1, True), rep.seed), ("prio", ("LAP", 1, 3, 4, 2, False), rep.seed),
                 ("subtraj", (5, 3, 7, False, 1), rep.seed), ("subtraj", (4, 2, 4, True, 1), rep.seed)]
    ev = nt = 0
    for o in par.pmap(buffer_job, jobs, procs=6):
        if not o.get("sampled"):
            raise tlc.MachineryError(f"no batch was ever drawn with a real generator in a buffer job (vacuous batch comparison): {o.get('sample')}")
        rep.extra["batches_compared"] = rep.extra.get("batches_compared", 0) + 3 * o["sampled"] // 3
        rep.extra["live_history_steps"] = rep.extra.get("live_history_steps", 0) + o.get("live_steps", 0)
        res = sb.merge(rep, o)
        if res:
            ev += res[0]
            nt += res[1]
    # binding canary: a reload that drops a field must be noticed by the raw comparison
    from . import c02

    ad = c02.RingAdapter("LAP", bufkit.default_profile(), 2)
    ad.buf.add_sample(**bufkit.default_profile().encode(1))
    bad = reload(ad.buf)
    bad.priority.max_priority = 5.0
    if diff_raw(raw(ad.buf), raw(bad)) is None:
        raise tlc.MachineryError("binding canary: raw-state comparison misses a changed field")
    n_mod = modules_part(rep, quick)
    # function approximators as a state machine: several snapshots, several restored objects, shared template (PersistModules.tla)
    from . import c19_modules

    tmpg = os.path.join(tlc.OUT, "tmp", f"c19g-{os.getpid()}")
    os.makedirs(tmpg, exist_ok=True)
    try:
        zoo = {k: v for k, v in module_zoo(rep.seed).items() if not (quick and k in THOROUGH_ONLY)}
        zoo.update(c19_modules.deep_zoo())
        g_steps, g_seen, g_edges = c19_modules.run_part(rep, quick, zoo, {"digest": digest, "one_step": _one_step, "bytes_of": _bytes_of}, tmpg)
    finally:
        shutil.rmtree(tmpg, ignore_errors=True)
    rep.extra["module_graph"] = {"real_steps": g_steps, "graph_edges_exercised": g_seen, "graph_edges": g_edges, "methods": list(c19_modules.METHODS)}
    n_mod += g_steps
    rep.traces += n_mod
    rep.evaluations = ev + n_mod
    rep.distinct = nt + n_mod
    rep.exhaustive = False
    rep.rule = ("every transition of the TLC state graphs of Ring/MultiTask/RingPrio/Subtraj is replayed with a pickle save+reload inserted before it "
                "(three objects in lock-step); non-trivial = pre-state is not the empty initial state; plus one save/restore round trip per module type x parameter variant x method")
    rep.assumptions += ["cross-version / cross-device portability not covered", "module parameters: seeded random dyadic perturbations of the initialisation",
                        "Orbax restore uses the abstract state of a freshly constructed module of the same architecture, or the library's restore_checkpoint with one template module shared by all restores of a history",
                        "module histories: PersistModules.tla behaviours of <= 8 steps (<= 3 optimiser steps, 2 paths, 2 restored objects alive), sampled walks preferring unexercised edges"]


def replay(path, rep):
    d = json.load(open(path))["replay"]
    if d.get("kind") == "buffer":
        o = buffer_job(d["which"], tuple(d["args"]), rep.seed)
        bad = [v for v in o["violations"]]
        for k, w, _ in bad:
            print(k, "::", w)
        if bad:
            print(f"VIOLATION property=C19 replay={path}")
            return 1
        return 0
    from ..report import Report

    r2 = Report("C19", "quick", rep.seed)
    modules_part(r2, True)
    for v in r2.violations:
        print(v["key"], "::", v["what"])
    if r2.violations:
        print(f"VIOLATION property=C19 replay={path}")
        return 1
    return 0
