"""C13, function-level part - policy heads and greedy / epsilon-greedy selection.

spec/Heads.tla (+ spec/Forms.tla, device D3) states, for every public method of
GaussianPolicy, GaussianTanhPolicy, SoftmaxPolicy, DeterministicTanhPolicy and
for value_policy.greedy_policy / epsilon_greedy_policy / q_policy.greedy_policy,
the SHAPE of the result and its VALUE on a lattice on which the value is an
exact rational or an exact linear form over ln 2, ln 3, .., ln pi, e^q.

* TLC checks the laws that tie the methods together (one distribution:
  standardised-noise invariance, log-density at a sample, entropy = E[-log p];
  softmax normalised, log-probability = log of the entry, entropy closed form;
  greedy in the arg-max set; eps = 0 greedy, eps = 1 value-independent) on every
  lattice vector, and refutes five named deviation definitions (canaries).
* The greedy selectors are specified on two lattices of Q rows: exactly tied /
  well separated rationals, and NEAR-TIES - float32 values 0..3 ulps apart at
  magnitudes 2^-40 .. 1000, both signs, across a binade and next to zero -
  written as float32 ordinals (device D4), on which TLC decides the maximiser
  set exactly; the binding turns the ordinals into the floats bit by bit.
* TLC then prints one record per (head, method, batch code, width, lattice
  index); `run_heads` builds the real head on a pass-through network (the real
  GaussianMLP / MLP classes with identity kernels, so that the network output is
  the lattice point), calls the real method - eagerly and under nnx.jit - and
  compares shape exactly and values exactly (rationals) or within a counted
  number of float32 roundings of the magnitude of the form's terms (forms).
  An exception raised by the method is a violation: the specification defines
  every method for an un-batched observation and for every batch size.

The coordinator's drivers/c13.py calls run_heads(rep) / replay_heads(d, rep).
"""
from __future__ import annotations

import concurrent.futures as cf
import math
import os

import numpy as np

from .. import exact, tlc

INVS = [
    "TypeOK",
    "Totality",
    "LogStdIsHalfLogVar",
    "GaussOneDistribution",
    "TanhInBounds",
    "SoftmaxNormalised",
    "SoftmaxLogProbIsLogOfEntry",
    "SoftmaxEntropyClosedForm",
    "GreedyIsMaximiser",
    "EpsZeroIsGreedy",
    "EpsOneIgnoresValues",
    "NearTieArgMaxExact",
    "NearTieGreedyIsMaximiser",
    "NearTieEpsZeroIsGreedy",
]
# deviation definition in Heads.tla -> invariant that must refute it
CANARIES = [
    ("entropy_unpacks_call", "Totality"),
    ("no_half", "LogStdIsHalfLogVar"),
    ("logprob_unnormalised", "SoftmaxLogProbIsLogOfEntry"),
    ("eps_le", "EpsZeroIsGreedy"),
    ("tie_jitter", "NearTieEpsZeroIsGreedy"),
]
ACTIONS = [
    "GaussianCall", "GaussianSample", "GaussianLogProbability", "GaussianEntropy", "GaussianSampleMoments",
    "DeterministicCall", "SoftmaxCall", "SoftmaxLogits", "SoftmaxSample", "SoftmaxSampleFrequency",
    "SoftmaxLogProbability", "SoftmaxEntropy", "TableGreedy", "NetGreedy", "TableEpsilonGreedy",
    "OrdinalLayout", "TableGreedyNearTie", "NetGreedyNearTie", "TableEpsilonGreedyNearTie",
]  # fmt: skip
U = 2.0**-24  # unit roundoff of float32 (half an ulp, relative)
WORKERS = int(os.environ.get("VERIF_TLC_WORKERS", "16"))


def _full(**kw):
    c = dict(EMIT=False, Batches={0, 1, 2, 3}, Dims={1, 2, 3}, Actions={1, 2, 3, 4}, States={1, 2, 3},
             Step=1, EpsStep=16, NKeys=2, EpsKeys=2, FreqN=4096, FreqStep=1, OrdStep=1, OrdKeys=2, Deviation="none")  # fmt: skip
    c.update(kw)
    return c


# ------------------------------------------------------------------ D3 forms
def atom_value(a):
    kind, n, d = a
    if kind == "one":
        return 1.0
    if kind == "ln":
        return math.log(n)
    if kind == "lnpi":
        return math.log(math.pi)
    if kind == "exp":
        return math.exp(n / d)
    raise tlc.MachineryError(f"unknown atom {a}")


def form_eval(f):
    """JSON image of a Forms.tla form -> (float64 value, sum of |terms|)."""
    v = m = 0.0
    for t in f:
        x = float(exact.q(t["k"])) * atom_value(t["a"])
        v += x
        m += abs(x)
    return v, m


def _rat_rows(rows):
    """rows of JSON rationals -> float32 array (inputs must be exactly representable)."""
    out = []
    for r in rows:
        rr = []
        for x in r:
            fx = exact.q(x)
            if not exact.is_exact32(fx):
                raise tlc.MachineryError(f"lattice input {x} is not a float32")
            rr.append(float(fx))
        out.append(rr)
    return np.asarray(out, dtype=np.float32)


NEAR = "@near_tie"  # suffix of the ops of Heads.tla's head "QOrd" (Q rows on float32 ordinals)
MIN_NORMAL = float(np.finfo(np.float32).tiny)


def float_of_ord(o):
    """D4, the inverse of exact.ord32: ordinal -> float32 (bit pattern, sign-magnitude)."""
    o = int(o)
    v = np.array([abs(o)], dtype=np.int32).view(np.float32)[0]
    return np.float32(-v) if o < 0 else v


def _ord_rows(rows):
    """rows of float32 ordinals -> float32 array; every entry must be 0 or a finite normal number and map back to its ordinal."""
    out = np.asarray([[float_of_ord(o) for o in r] for r in rows], dtype=np.float32)
    for r, fr in zip(rows, out):
        for o, v in zip(r, fr):
            if exact.ord32(v) != int(o) or not np.isfinite(v) or (v != 0 and abs(float(v)) < MIN_NORMAL):
                raise tlc.MachineryError(f"ordinal {o} does not denote a normal float32 ({v!r})")
    return out


def check_layout(e):
    """The D4.ordinal_layout record of Heads.tla against exact.ord32: float32(2^e (1 + m / 2^23)) has ordinal ord."""
    for g in e["args"]["magnitudes"]:
        v = np.float32(math.ldexp(1.0 + g["m"] / 2.0**23, g["e"]))
        if float(v) != math.ldexp(1.0 + g["m"] / 2.0**23, g["e"]) or exact.ord32(v) != g["ord"] or float_of_ord(g["ord"]) != v:
            raise tlc.MachineryError(f"Heads.tla's float32 ordinal of 2^{g['e']} (1 + {g['m']} / 2^23) is {g['ord']}, exact.ord32 says {exact.ord32(v)}")


def _form_rows(rows):
    return np.asarray([[form_eval(f)[0] for f in r] for r in rows], dtype=np.float64)


# ------------------------------------------------------------------ real objects
class Kit:
    """Builds the real heads on pass-through networks; caches per width."""

    def __init__(self):
        import gymnasium as gym
        import jax
        import jax.numpy as jnp
        from flax import nnx

        from rl_blox.blox import q_policy, value_policy
        from rl_blox.blox.function_approximator import policy_head as ph
        from rl_blox.blox.function_approximator.gaussian_mlp import GaussianMLP
        from rl_blox.blox.function_approximator.mlp import MLP

        self.gym, self.jax, self.jnp, self.nnx = gym, jax, jnp, nnx
        self.ph, self.GaussianMLP, self.MLP = ph, GaussianMLP, MLP
        self.value_policy, self.q_policy = value_policy, q_policy
        self.heads = {}
        self.qnets = {}
        fns = {
            "call": lambda p, o: p(o),
            "logits": lambda p, o: p.logits(o),
            "entropy": lambda p, o: p.entropy(o),
            "log_probability": lambda p, o, a: p.log_probability(o, a),
        }
        self.eager = fns
        self.jitted = {k: nnx.jit(v) for k, v in fns.items()}
        # the greedy selectors called from inside a caller's jitted function (table / observation traced)
        self.jit_table_greedy = jax.jit(lambda t, o: value_policy.greedy_policy(t, o))
        self.jit_net_greedy = nnx.jit(lambda net, o: q_policy.greedy_policy(net, o))

    def nojit(self, fn, *a):
        """fn(*a) with jit disabled: the Python body runs operation by operation."""
        with self.jax.disable_jit():
            return fn(*a)

    # networks whose output IS the observation (identity kernels, zero bias)
    def gauss_net(self, d, shared):
        jnp, nnx = self.jnp, self.nnx
        net = self.GaussianMLP(shared, 2 * d, d, [], "relu", nnx.Rngs(0))
        eye = np.eye(2 * d, dtype=np.float32)
        if shared:
            net.output_layers[0].kernel.value = jnp.asarray(eye)
            net.output_layers[0].bias.value = jnp.zeros(2 * d, jnp.float32)
        else:
            net.output_layers[0].kernel.value = jnp.asarray(eye[:, :d])
            net.output_layers[1].kernel.value = jnp.asarray(eye[:, d:])
            net.output_layers[0].bias.value = jnp.zeros(d, jnp.float32)
            net.output_layers[1].bias.value = jnp.zeros(d, jnp.float32)
        return net

    def identity_mlp(self, n):
        jnp, nnx = self.jnp, self.nnx
        net = self.MLP(n, n, [], "relu", nnx.Rngs(0))
        net.output_layer.kernel.value = jnp.eye(n, dtype=jnp.float32)
        net.output_layer.bias.value = jnp.zeros(n, jnp.float32)
        return net

    def space(self, sp):
        low = _rat_rows([sp["low"]])[0]
        high = _rat_rows([sp["high"]])[0]
        return self.gym.spaces.Box(low=low, high=high, dtype=np.float32)

    def head(self, name, n, sp=None):
        k = (name, n)
        if k not in self.heads:
            if name == "GaussianPolicy":
                h = self.ph.GaussianPolicy(self.gauss_net(n, True))
            elif name == "GaussianTanhPolicy":
                h = self.ph.GaussianTanhPolicy(self.gauss_net(n, False), self.space(sp))
            elif name == "DeterministicTanhPolicy":
                h = self.ph.DeterministicTanhPolicy(self.identity_mlp(n), self.space(sp))
            elif name == "SoftmaxPolicy":
                h = self.ph.SoftmaxPolicy(self.identity_mlp(n))
            else:  # pragma: no cover
                raise tlc.MachineryError(name)
            self.heads[k] = h
        return self.heads[k]

    def qnet(self, table):
        s, n = table.shape
        if (s, n) not in self.qnets:
            self.qnets[(s, n)] = self.MLP(s, n, [], "relu", self.nnx.Rngs(0))
        net = self.qnets[(s, n)]
        net.output_layer.kernel.value = self.jnp.asarray(table)
        net.output_layer.bias.value = self.jnp.zeros(n, self.jnp.float32)
        return net

    def key(self, seed, e, extra=0):
        a = e["args"]
        k = ((seed * 7919 + int(a.get("key", 0))) * 4096 + int(e["i"])) * 64 + int(e["b"]) * 8 + int(e["n"]) + 977 * extra
        return self.jax.random.key(k % (2**31 - 1))


class CodeRaised(Exception):
    """The code under test raised where the specification defines a result."""


def _call(fn, *a):
    """The only place where rl_blox code runs; its exceptions are findings."""
    try:
        out = fn(*a)
        if isinstance(out, tuple):
            return tuple(np.asarray(x) for x in out)
        return np.asarray(out)
    except Exception as ex:  # noqa: BLE001 - anything the library raises
        raise CodeRaised(f"raises {type(ex).__name__}: {str(ex).splitlines()[0][:120] if str(ex) else ''}") from None


def _shape(got, want, what="result"):
    if tuple(got.shape) != tuple(want):
        return f"{what} has shape {tuple(got.shape)}, specified {tuple(want)}"
    return None


def _batched(rows, b):
    return rows[0] if b == 0 else rows


HEADROOM = {}  # what -> largest observed |error| / tolerance (evidence that tolerances are not tuned tight)


def _close(got, val, tol, what):
    got = np.asarray(got, dtype=np.float64)
    val, tol = np.broadcast_to(val, got.shape), np.broadcast_to(tol, got.shape)
    err = np.abs(got - val)
    bad = ~(err <= tol)  # catches nan
    if got.size and not bad.any():
        HEADROOM[what] = max(HEADROOM.get(what, 0.0), float(np.max(err / np.where(tol > 0, tol, 1.0))))
    if bad.any():
        j = tuple(int(x) for x in np.argwhere(bad)[0])
        return f"{what}{list(j)} = {float(got[j])!r}, specified {float(val[j])!r} (tolerance {float(tol[j]):.3g})"
    return None


# ------------------------------------------------------------------ near-ties
def near_tie_case(kit: Kit, e, mode, seed):
    """Head "QOrd": the greedy selectors on a table given as float32 ordinals.  Every way of calling the selector must
    return a member of the arg-max set TLC computed on the ordinals (any member: ties may be broken anyhow)."""
    op, a, x = e["op"][: -len(NEAR)], e["args"], e["exp"]
    jnp = kit.jnp
    table = _ord_rows(a["otable"])
    s = int(a["obs"])
    vp, qp = kit.value_policy, kit.q_policy
    outs = []
    if op == "value_policy.greedy_policy":
        if mode == "jit":
            outs.append(("called inside jax.jit", _call(kit.jit_table_greedy, jnp.asarray(table), jnp.asarray(s, jnp.int32))))
        else:
            outs.append(("", _call(vp.greedy_policy, jnp.asarray(table), s)))
            outs.append(("with jit disabled", _call(kit.nojit, vp.greedy_policy, jnp.asarray(table), s)))
    elif op == "q_policy.greedy_policy":
        net = kit.qnet(table)
        onehot = np.zeros(table.shape[0], np.float32)
        onehot[s] = 1.0
        q = np.asarray(net(jnp.asarray([onehot])))[0]
        if q.tobytes() != table[s].tobytes():
            raise tlc.MachineryError(f"stub Q-network returns {q.tolist()} for row {table[s].tolist()}")
        if mode == "jit":
            outs.append(("called inside nnx.jit", _call(kit.jit_net_greedy, net, jnp.asarray(onehot))))
        else:
            outs.append(("", _call(qp.greedy_policy, net, jnp.asarray(onehot))))
            outs.append(("with jit disabled", _call(kit.nojit, qp.greedy_policy, net, jnp.asarray(onehot))))
    elif op == "value_policy.epsilon_greedy_policy":
        if a["eps"] != 0:  # pragma: no cover
            raise tlc.MachineryError("near-tie cases are specified for epsilon = 0")
        outs.append(("epsilon = 0", _call(vp.epsilon_greedy_policy, jnp.asarray(table), s, 0.0, kit.key(seed, e, extra=s))))
    else:  # pragma: no cover
        raise tlc.MachineryError(e["op"])
    for how, out in outs:
        bad = _shape(out, ())
        if bad:
            return bad
        if not np.issubdtype(out.dtype, np.integer):
            return f"action has dtype {out.dtype}"
        act = int(out)
        if act not in x["argmax"]:
            qa = repr(float(table[s][act])) if 0 <= act < table.shape[1] else "out of range"
            return (f"near-tie: action {act} (Q = {qa}) is not a maximiser of {[float(v) for v in table[s]]!r} "
                    f"(float32 ordinals {a['otable'][s]}, arg-max set {x['argmax']}, the best value is {x['gap']} float32 step(s) above the next)"
                    + (f" - {how}" if how else ""))
    return None


# ------------------------------------------------------------------ one case
def check_case(kit: Kit, e, mode, seed, stats=None):
    """Run one TLC-emitted case against the real code.  Returns None or a
    description of the disagreement.  mode: "eager" | "jit"."""
    op, b, n, a, x = e["op"], e["b"], e["n"], e["args"], e["exp"]
    jnp = kit.jnp
    name, _, meth = op.partition(".")
    fns = kit.jitted if mode == "jit" else kit.eager
    try:
        if op.endswith(NEAR):
            return near_tie_case(kit, e, mode, seed)
        if name in ("GaussianPolicy", "GaussianTanhPolicy"):
            pol = kit.head(name, n, a["space"])
            if meth == "sample_moments":
                rows = a["rows"]
                obs = jnp.zeros((rows, 2 * n), jnp.float32)
                s = _call(pol.sample, obs, kit.key(seed, e))
                bad = _shape(s, (rows, n))
                if bad:
                    return bad
                z = s.astype(np.float64) - _rat_rows([x["refmean"]])[0].astype(np.float64)
                cnt = z.size
                m, v = float(z.mean()), float(z.var())
                if abs(m - exact.f(x["mean"])) > 6 / math.sqrt(cnt):
                    return f"noise mean {m:.4f} over {cnt} draws, specified {exact.f(x['mean'])} (6 sigma = {6 / math.sqrt(cnt):.4f})"
                if abs(v - exact.f(x["var"])) > 6 * math.sqrt(2 / cnt):
                    return f"noise variance {v:.4f} over {cnt} draws, specified {exact.f(x['var'])} (6 sigma = {6 * math.sqrt(2 / cnt):.4f})"
                if len(np.unique(z)) < 0.99 * cnt:
                    return f"only {len(np.unique(z))} distinct noise values among {cnt} draws"
                return None
            net = _rat_rows(a["net"])
            obs = jnp.asarray(_batched(net, b))
            if meth == "call":
                out = _call(fns["call"], pol, obs)
                mean = _rat_rows(x["mean"]).astype(np.float64)
                if name == "GaussianPolicy":
                    if isinstance(out, tuple):
                        return "__call__ returns a tuple, specified the mean"
                    got_mean, got_std = out, None
                else:
                    if not (isinstance(out, tuple) and len(out) == 2):
                        return "__call__ does not return (mean, std)"
                    got_mean, got_std = out
                bad = _shape(got_mean, x["shape"], "mean")
                if bad:
                    return bad
                mean = _batched(mean, b)
                if not np.array_equal(got_mean.astype(np.float64), mean):
                    return f"mean {got_mean.tolist()} differs from the specified {mean.tolist()}"
                if got_std is not None:
                    bad = _shape(got_std, x["shape"], "std")
                    if bad:
                        return bad
                    std = _batched(_form_rows(x["std"]), b)
                    # exp: <= 2 ulp = 4 u; one rounding of 0.5*log_var is exact on the lattice
                    return _close(got_std, std, 8 * U * std, "std")
                return None
            if meth == "entropy":
                out = _call(fns["entropy"], pol, obs)
                bad = _shape(out, x["shape"])
                if bad:
                    return bad
                vm = np.asarray([[form_eval(f) for f in r] for r in x["val"]], dtype=np.float64)
                val, mag = _batched(vm[..., 0], b), _batched(vm[..., 1], b)
                # log(exp(L)): 4 u relative on exp -> 4 u absolute, log, two additions
                return _close(out, val, 16 * U * mag, "entropy")
            if meth == "log_probability":
                act = _rat_rows(a["action"])
                out = _call(fns["log_probability"], pol, obs, jnp.asarray(_batched(act, b)))
                bad = _shape(out, x["shape"])
                if bad:
                    return bad
                vm = np.asarray([form_eval(f) for f in x["val"]], dtype=np.float64)
                val, mag = vm[:, 0], vm[:, 1]
                if b == 0:
                    val, mag = val[0], mag[0]
                # per dimension: subtract (exact), divide, square, halve, log(exp), 3 additions; sum over <= 3
                return _close(out, np.asarray(val), 32 * U * np.asarray(mag), "log_probability")
            if meth == "sample":
                key = kit.key(seed, e)
                s = _call(pol.sample, obs, key)
                bad = _shape(s, x["shape"])
                if bad:
                    return bad
                refobs = jnp.asarray(_batched(_rat_rows(a["refnet"]), b))
                ref = _call(pol.sample, refobs, key)
                bad = _shape(ref, x["shape"], "reference sample")
                if bad:
                    return bad
                mean = _batched(_rat_rows(x["mean"]).astype(np.float64), b)
                refmean = _batched(_rat_rows(x["refmean"]).astype(np.float64), b)
                std = _batched(_form_rows(x["std"]), b)
                ref64 = ref.astype(np.float64)
                noise = ref64 - refmean  # exact in float64
                want = mean + std * noise
                # reference: one rounding (u |ref|); sample: exp 4 u, product u, sum u |s|
                tol = 8 * U * (np.abs(mean) + np.abs(s.astype(np.float64)) + std * (np.abs(ref64) + np.abs(noise)))
                if stats is not None:
                    stats["noise_visible"] += int((std * np.abs(noise) > 64 * U * np.abs(mean)).sum())
                    stats["noise_elems"] += int(noise.size)
                return _close(s, want, tol, "sample")
        elif name == "DeterministicTanhPolicy":
            pol = kit.head(name, n, a["space"])
            obs = jnp.asarray(_batched(_rat_rows(a["net"]), b))
            out = _call(fns["call"], pol, obs)
            bad = _shape(out, x["shape"])
            if bad:
                return bad
            val = _batched(_rat_rows(x["val"]).astype(np.float64), b)
            if not np.array_equal(out.astype(np.float64), val):
                return f"action {out.tolist()} differs from the specified {val.tolist()}"
            return None
        elif name == "SoftmaxPolicy":
            pol = kit.head(name, n)
            if meth == "sample_frequency":
                rows = a["rows"]
                lg = np.asarray([form_eval(f)[0] for f in a["logits"]], dtype=np.float32)
                obs = jnp.asarray(np.tile(lg, (rows, 1)))
                s = _call(pol.sample, obs, kit.key(seed, e))
                bad = _shape(s, (rows,))
                if bad:
                    return bad
                for k, p in enumerate(x["probs"]):
                    p = float(exact.q(p))
                    fr = float((s == k).mean())
                    if p in (0.0, 1.0):
                        if fr != p:
                            return f"action {k} drawn with frequency {fr}, its probability is {p}"
                    elif abs(fr - p) > 6 * math.sqrt(p * (1 - p) / rows):
                        return f"action {k} drawn with frequency {fr:.4f} in {rows} draws, probability {p:.4f} (6 sigma = {6 * math.sqrt(p * (1 - p) / rows):.4f})"
                if ((s < 0) | (s >= n)).any():
                    return "sampled action outside 0..n-1"
                return None
            lg64 = _form_rows(a["logits"])
            lg = lg64.astype(np.float32)
            obs = jnp.asarray(_batched(lg, b))
            # largest |logit| among the actions that carry probability: OFF actions contribute an exact 0
            big = np.asarray([np.abs(r[r > r.max() - 100.0]).max() for r in lg64])
            if meth == "logits":
                out = _call(fns["logits"], pol, obs)
                bad = _shape(out, x["shape"])
                if bad:
                    return bad
                return None if np.array_equal(out, _batched(lg, b)) else "logits() is not the network output"
            if meth == "call":
                out = _call(fns["call"], pol, obs)
                bad = _shape(out, x["shape"])
                if bad:
                    return bad
                out2 = out.reshape(len(lg), n)
                for r, (row, dy) in enumerate(zip(x["val"], x["dyadic"])):
                    for k, p in enumerate(row):
                        # levels j ln 2: argument rounding 2 u, exp 4 u, sum of <= 4, division
                        if not exact.eq(out2[r, k], p, ulps=0 if dy else 8):
                            return f"probability[{r},{k}] = {out2[r, k]!r}, specified {p[0]}/{p[1]}"
                    if (out2[r] < 0).any() or abs(float(out2[r].astype(np.float64).sum()) - 1.0) > 8 * U:
                        return f"probabilities of row {r} are not a distribution: {out2[r].tolist()}"
                return None
            if meth in ("log_probability", "entropy"):
                if meth == "entropy":
                    out = _call(fns["entropy"], pol, obs)
                else:
                    act = np.asarray(a["action"], dtype=np.int32)
                    out = _call(fns["log_probability"], pol, obs, jnp.asarray(act[0] if b == 0 else act))
                bad = _shape(out, x["shape"])
                if bad:
                    return bad
                vm = np.asarray([form_eval(f) for f in x["val"]], dtype=np.float64)
                val, mag = vm[:, 0], vm[:, 1] + big  # the shift cancels in the form, not in float32
                if b == 0:
                    val, mag = val[0], mag[0]
                # logit rounding, max-subtraction, exp, sum of <= 4, log, subtraction (, product, sum)
                return _close(out, np.asarray(val), 16 * U * np.asarray(mag), meth)
            if meth == "sample":
                s = _call(pol.sample, obs, kit.key(seed, e))
                bad = _shape(s, x["shape"])
                if bad:
                    return bad
                if not np.issubdtype(s.dtype, np.integer):
                    return f"sampled action has dtype {s.dtype}"
                for r, sup in enumerate(x["support"]):
                    got = int(s.reshape(-1)[r])
                    if got not in sup:
                        return f"row {r}: sampled action {got} has probability 0 (support {sup})"
                return None
        elif name in ("value_policy", "q_policy"):
            table = _rat_rows(a["table"])
            s = int(a["obs"])
            if op == "value_policy.greedy_policy":
                out = _call(kit.value_policy.greedy_policy, jnp.asarray(table), s)
            elif op == "q_policy.greedy_policy":
                onehot = np.zeros(table.shape[0], np.float32)
                onehot[s] = 1.0
                out = _call(kit.q_policy.greedy_policy, kit.qnet(table), jnp.asarray(onehot))
            elif op == "value_policy.epsilon_greedy_policy":
                key = kit.key(seed, e, extra=s)
                out = _call(kit.value_policy.epsilon_greedy_policy, jnp.asarray(table), s, float(a["eps"]), key)
            else:  # pragma: no cover
                raise tlc.MachineryError(op)
            bad = _shape(out, ())
            if bad:
                return bad
            act = int(out)
            if op.endswith("epsilon_greedy_policy") and a["eps"] == 1:
                alt = _rat_rows(a["alt"])
                out2 = _call(kit.value_policy.epsilon_greedy_policy, jnp.asarray(alt), s, 1.0, key)
                if not 0 <= act < x["range"]:
                    return f"epsilon = 1: action {act} outside 0..{x['range'] - 1}"
                if int(out2) != act:
                    return f"epsilon = 1: action {act} for one table, {int(out2)} for another with the same key - depends on the values"
                if stats is not None:
                    stats["explore"].setdefault(n, []).append(act)
                return None
            if act not in x["argmax"]:
                return f"action {act} is not a maximiser of {table[s].tolist()} (arg-max set {x['argmax']})"
            return None
    except CodeRaised as ex:
        return str(ex)
    raise tlc.MachineryError(f"no binding for {op}")


def nontrivial(e):
    op, a, x = e["op"], e["args"], e["exp"]
    if "net" in a and "Gaussian" in op:
        n = e["n"]
        return any(r[n + k] != [0, 1] for r in a["net"] for k in range(n))  # some log-variance != 0
    if op.startswith("SoftmaxPolicy"):
        if "support" in x:
            return any(len(s) > 1 for s in x["support"]) or e["n"] > 1
        return e["n"] > 1
    if "argmax" in x:
        return len(x["argmax"]) < e["n"] or a.get("eps") == 1
    return True


# ------------------------------------------------------------------ binding canaries
def _bump_form(f):  # add 2^-12 to the constant term
    for t in f:
        if t["a"][0] == "one":
            t["k"] = [t["k"][0] * 4096 + t["k"][1], t["k"][1] * 4096]
            return
    f.append({"a": ["one", 0, 1], "k": [1, 4096]})


def _small(f):  # all terms of moderate size: 2^-12 is far above the float32 tolerance
    return form_eval(f)[1] < 32


def _bump_rat(x):  # x + 1/64
    x[0], x[1] = int(x[0]) * 64 + int(x[1]), int(x[1]) * 64


# (method, corruption of the TLC record, which records are suitable)
BINDING_CANARIES = [
    ("GaussianTanhPolicy.entropy", lambda e: _bump_form(e["exp"]["val"][0][0]), lambda e: _small(e["exp"]["val"][0][0])),
    ("GaussianTanhPolicy.entropy", lambda e: e["exp"]["shape"].reverse(), lambda e: e["b"] != e["n"]),
    ("GaussianPolicy.log_probability", lambda e: _bump_form(e["exp"]["val"][-1]), lambda e: _small(e["exp"]["val"][-1])),
    ("SoftmaxPolicy.entropy", lambda e: _bump_form(e["exp"]["val"][0]), lambda e: all(_small(f) for f in e["args"]["logits"][0])),
    ("SoftmaxPolicy.log_probability", lambda e: _bump_form(e["exp"]["val"][0]), lambda e: all(_small(f) for f in e["args"]["logits"][0])),
    ("SoftmaxPolicy.call", lambda e: _bump_rat(e["exp"]["val"][0][0]), lambda e: True),
    ("GaussianPolicy.sample", lambda e: _bump_rat(e["exp"]["mean"][0][0]), lambda e: e["args"]["net"][0][e["n"]] in ([0, 1], [-4, 1], [1, 1])),
    ("GaussianPolicy.call", lambda e: _bump_rat(e["exp"]["mean"][0][0]), lambda e: True),
    ("value_policy.greedy_policy", lambda e: e["exp"].__setitem__("argmax", [k for k in range(e["n"]) if k not in e["exp"]["argmax"]]), lambda e: 0 < len(e["exp"]["argmax"]) < e["n"]),
    ("value_policy.epsilon_greedy_policy" + NEAR, lambda e: e["exp"].__setitem__("argmax", [k for k in range(e["n"]) if k not in e["exp"]["argmax"]]), lambda e: 0 < len(e["exp"]["argmax"]) < e["n"] and e["exp"]["gap"] == 1),
    ("q_policy.greedy_policy" + NEAR, lambda e: e["exp"].__setitem__("argmax", [k for k in range(e["n"]) if k not in e["exp"]["argmax"]]), lambda e: 0 < len(e["exp"]["argmax"]) < e["n"] and e["exp"]["gap"] == 1),
]


def _binding_canaries(kit, cands, seed):
    """cands: op -> [(mode, record)].  Returns a list of problems (empty = all corruptions noticed)."""
    import copy

    problems = []
    for op, mutate, suitable in BINDING_CANARIES:
        pool = [(m, e) for m, e in cands.get(op, []) if suitable(e)]
        if not pool:
            problems.append(f"no suitable case for {op}")
            continue
        for mode, e in pool[:6]:
            if check_case(kit, e, mode, seed) is not None:
                continue  # this method currently disagrees with the specification: cannot corrupt a passing case
            e2 = copy.deepcopy(e)
            mutate(e2)
            if check_case(kit, e2, mode, seed) is None:
                problems.append(f"corrupted expectation for {op} was not noticed")
            break
    return problems


# ------------------------------------------------------------------ worker processes
def _work(job):
    """Runs in a spawned process: one Kit (one JAX runtime) per group of cases."""
    import time

    kit = Kit()
    seed = job["seed"]
    if job["kind"] == "canary":
        return {"problems": _binding_canaries(kit, job["cands"], seed)}
    HEADROOM.clear()
    stats = {"noise_visible": 0, "noise_elems": 0, "explore": {}}
    tims, out = {}, []
    for j, mode, e in job["items"]:
        t0 = time.time()
        what = check_case(kit, e, mode, seed, stats)
        tims[f"{mode}:{e['op']}"] = tims.get(f"{mode}:{e['op']}", 0.0) + time.time() - t0
        if what is not None:
            out.append((j, what))
    return {"bad": out, "stats": stats, "tims": tims, "headroom": dict(HEADROOM)}


GROUPS = [
    ("GaussianPolicy.call", "GaussianPolicy.log_probability", "GaussianPolicy.entropy"),
    ("GaussianPolicy.sample", "GaussianPolicy.sample_moments", "DeterministicTanhPolicy.call"),
    ("GaussianTanhPolicy.call", "GaussianTanhPolicy.log_probability", "GaussianTanhPolicy.entropy"),
    ("GaussianTanhPolicy.sample", "GaussianTanhPolicy.sample_moments", "value_policy.greedy_policy", "value_policy.epsilon_greedy_policy"),
    ("SoftmaxPolicy.call", "SoftmaxPolicy.logits", "SoftmaxPolicy.entropy"),
    ("SoftmaxPolicy.log_probability", "q_policy.greedy_policy"),
    ("SoftmaxPolicy.sample", "SoftmaxPolicy.sample_frequency"),
    ("value_policy.greedy_policy" + NEAR, "q_policy.greedy_policy" + NEAR),
    ("value_policy.epsilon_greedy_policy" + NEAR,),
]


# ------------------------------------------------------------------ driver
def _canary(dev, inv):
    r = tlc.run("Heads", tlc.cfg_text(constants=_full(Deviation=dev, Step=7, States={1}), invariants=[inv]), workers=2, tag=f"heads-{dev}")
    return dev, inv, r


def _key_of(e, what=None):
    if e["op"].endswith(NEAR):
        return e["op"][: -len(NEAR)] + (":near_tie_not_a_maximiser" if what and "is not a maximiser" in what else ":not_as_specified")
    return f"{e['op'].replace('.call', '.__call__')}:not_as_specified"


def run_heads(rep):
    import multiprocessing as mp
    import sys

    # spawned workers must resolve `harness` and the rl_blox tree under test exactly like this process
    os.environ["PYTHONPATH"] = os.pathsep.join([p for p in sys.path if p] + [os.environ.get("PYTHONPATH", "")])
    quick = rep.tier == "quick"
    for m in ("Forms", "HeadsFormsTest", "Heads"):
        tlc.sany(m)
    # generation constants: A = every shape, sparse lattice, run eagerly (as a user calls the methods);
    # B = dense lattice, run under nnx.jit (as the losses and rollouts call them)
    st = {1, 3} if quick else {1, 2, 3}
    # near-tie rows (OrdStep, OrdKeys): strides coprime to 4 and to the number of bases (13), so that at every base
    # every action takes every level
    gen_a = _full(EMIT=True, States=st, Step=60 if quick else 10, EpsStep=256, NKeys=1, EpsKeys=1, FreqN=2048, FreqStep=60,
                  OrdStep=41 if quick else 3, OrdKeys=2)  # fmt: skip
    if quick:
        gen_b = _full(EMIT=True, Batches={0, 3}, Dims={1, 3}, Actions={2, 4}, States=st, Step=1, EpsStep=32, NKeys=2, EpsKeys=8, FreqStep=8,
                      OrdStep=7, OrdKeys=3)  # fmt: skip
    else:
        gen_b = _full(EMIT=True, Step=1, EpsStep=8, NKeys=3, EpsKeys=16, FreqStep=2, OrdStep=1, OrdKeys=6)
    with cf.ThreadPoolExecutor(max_workers=8) as ex, cf.ProcessPoolExecutor(max_workers=len(GROUPS) + 1, mp_context=mp.get_context("spawn")) as pool:
        f_self = ex.submit(tlc.run, "HeadsFormsTest", tlc.cfg_text(), workers=1, tag="formstest")
        f_a = ex.submit(tlc.run, "Heads", tlc.cfg_text(constants=gen_a), workers=1, tag="heads-genA")
        f_b = ex.submit(tlc.run, "Heads", tlc.cfg_text(constants=gen_b), workers=1, tag="heads-genB", timeout=1800)
        f_prop = ex.submit(tlc.run, "Heads", tlc.cfg_text(constants=_full(), invariants=INVS), workers=WORKERS, coverage=True, tag="heads-prop")
        f_can = [ex.submit(_canary, d, i) for d, i in CANARIES]
        ga, gb = f_a.result(), f_b.result()
        if not ga.emitted or not gb.emitted:
            raise tlc.MachineryError("TLC emitted no cases")
        items = [("eager", e) for e in ga.emitted] + [("jit", e) for e in gb.emitted]
        layouts = [e for _, e in items if e["op"] == "D4.ordinal_layout"]
        if not layouts:
            raise tlc.MachineryError("Heads.tla did not state the float32 ordinal layout")
        for e in layouts:
            check_layout(e)
        items = [(m, e) for m, e in items if e["op"] != "D4.ordinal_layout"]
        known = {op for g in GROUPS for op in g}
        missing = {e["op"] for _, e in items} - known
        if missing:
            raise tlc.MachineryError(f"no worker group for {sorted(missing)}")
        jobs = [{"kind": "cases", "seed": rep.seed, "items": [(j, m, e) for j, (m, e) in enumerate(items) if e["op"] in g]} for g in GROUPS]
        cands = {}
        for m, e in items:
            if nontrivial(e) and e["b"] > 1 and len(cands.setdefault(e["op"], [])) < 64:
                cands[e["op"]].append((m, e))
        want = {op for op, _, _ in BINDING_CANARIES}
        jobs.append({"kind": "canary", "seed": rep.seed, "cands": {k: v for k, v in cands.items() if k in want}})
        futs = [pool.submit(_work, j) for j in jobs]
        if not f_self.result().ok:
            raise tlc.MachineryError("Forms.tla self-test failed")
        prop = f_prop.result()
        cans = [f.result() for f in f_can]
        results = [f.result() for f in futs]
    rep.add_tlc(prop, "Heads laws (all shapes, full lattice)")
    rep.add_tlc(ga, "Heads generation A (all shapes, sparse lattice; run eagerly)")
    rep.add_tlc(gb, "Heads generation B (dense lattice; run under nnx.jit)")
    if not prop.ok:
        rep.violation(f"spec:Heads:{prop.violated}", f"design-level violation of {prop.violated} in Heads.tla", prop.error_trace)
    else:
        tlc.require_covered(prop, ACTIONS)
    for dev, inv, r in cans:
        if r.violated != inv:
            raise tlc.MachineryError(f"canary: deviation {dev} is not refuted by {inv} (got {r.violated})")
    for p in results[-1]["problems"]:
        raise tlc.MachineryError(f"binding canary: {p}")

    stats = {"noise_visible": 0, "noise_elems": 0, "explore": {}}
    tims, headroom, bad = {}, {}, {}
    for r in results[:-1]:
        bad.update(dict(r["bad"]))
        stats["noise_visible"] += r["stats"]["noise_visible"]
        stats["noise_elems"] += r["stats"]["noise_elems"]
        for n, acts in r["stats"]["explore"].items():
            stats["explore"].setdefault(n, []).extend(acts)
        for k, v in r["tims"].items():
            tims[k] = tims.get(k, 0.0) + v
        for k, v in r["headroom"].items():
            headroom[k] = max(headroom.get(k, 0.0), v)
    seen_ops, nontriv, samples = {}, set(), {}
    for j, (mode, e) in enumerate(items):
        seen_ops[e["op"]] = seen_ops.get(e["op"], 0) + 1
        if nontrivial(e):
            nontriv.add((e["op"], e["b"], e["n"], e["i"], e["args"].get("key", 0), e["args"].get("obs", 0), e["args"].get("eps", 0)))
        if j in bad:
            bs = f"table of {e['b']} row(s)" if e.get("head") in ("Q", "QOrd") else "un-batched" if e["b"] == 0 else f"batch {e['b']}"
            rep.violation(_key_of(e, bad[j]), f"{e['op']} ({bs}, width {e['n']}, lattice index {e['i']}, {mode}): {bad[j]}", {"part": "heads", "mode": mode, "case": e})
        elif nontrivial(e) and e["b"] > 1 and e["op"] not in samples:
            samples[e["op"]] = {"mode": mode, "case": e}
    cases = len(items)

    # epsilon = 1 explores the whole action range (uniform random action)
    for n, acts in stats["explore"].items():
        if len(acts) >= 100 and set(acts) != set(range(n)):
            rep.violation("value_policy.epsilon_greedy_policy:not_as_specified", f"epsilon = 1 over {len(acts)} keys only ever chose actions {sorted(set(acts))} of {n}", {"part": "heads", "explore": n})

    rep.traces += cases
    rep.evaluations += cases
    rep.distinct += len(nontriv)
    rep.exhaustive = True
    near = [(m, e) for m, e in items if e["op"].endswith(NEAR)]
    near_rows = {tuple(e["args"]["otable"][e["args"]["obs"]]) for _, e in near}
    near_stats = {
        "cases": len(near),
        "distinct_rows": len(near_rows),
        "rows_with_best_one_float32_step_above_next": len({tuple(e["args"]["otable"][e["args"]["obs"]]) for _, e in near if e["exp"]["gap"] == 1}),
        "rows_with_two_or_more_but_not_all_actions_tied_for_best": len({tuple(e["args"]["otable"][e["args"]["obs"]]) for _, e in near if 1 < len(e["exp"]["argmax"]) < e["n"]}),
        "epsilon0_cases_with_unique_maximiser": sum(1 for _, e in near if e["op"].startswith("value_policy.epsilon") and len(e["exp"]["argmax"]) == 1 and e["n"] > 1),
    }
    if not near_stats["rows_with_best_one_float32_step_above_next"] or not near_stats["epsilon0_cases_with_unique_maximiser"]:
        raise tlc.MachineryError("no near-tie row whose best value is one float32 step above the next (vacuous near-tie lattice)")
    for op in ("GaussianTanhPolicy.entropy", "GaussianPolicy.log_probability", "SoftmaxPolicy.entropy", "value_policy.epsilon_greedy_policy" + NEAR):
        if op in samples:
            rep.sample(samples[op])
    rule = (
        "Heads.tla: TLC enumerates (head, method, batch code 0(un-batched)/1/2/3, width 1-3 (actions 1-4), lattice index): "
        "log-variance in {-50,-4,0,1,10}, mean / tanh pre-activation in {0,-1,3/2} / {0,-40,40}, action-mean in {0,-1,1/2,2}, "
        "softmax logits on levels OFF, 0, ln2, 2ln2 (+ rows shifted by 1e4), Q rows over {-1,0,1/2,2} and near-tie Q rows = four consecutive float32 "
        "numbers (as float32 ordinals; arg-max set decided by TLC on the ordinals) upwards from 2^-40, 2^-23, 1/2, 1-2^-23, 1, 1000, their mirror images "
        "below zero, and {-2^-126, 0, 2^-126, next}, for greedy (direct, jit disabled, inside a caller's jit), network greedy and epsilon-greedy "
        "with epsilon 0 under several keys; each record carries the specified shape "
        "and value (rational or linear form over ln p, ln pi, e^q); non-trivial = some log-variance != 0 / more than one action / arg-max set not everything"
    )
    rep.rule = (rep.rule + " || " if rep.rule else "") + rule
    rep.extra["heads"] = {
        "cases_by_method": seen_ops,
        "cases_disagreeing": len(bad),
        "sample_elements": stats["noise_elems"],
        "sample_elements_noise_visible": stats["noise_visible"],
        "epsilon1_draws": {str(k): len(v) for k, v in stats["explore"].items()},
        "near_tie": near_stats,
        "canaries_refuted": [d for d, _ in CANARIES],
        "max_error_over_tolerance": {k: round(v, 3) for k, v in sorted(headroom.items())},
        "seconds_by_method": {k: round(t, 1) for k, t in sorted(tims.items()) if t >= 1.0},
    }
    rep.assumptions += [
        "heads: values are decided on the lattice only (general sigma with a != mean is covered through the e^q atoms of the lattice; arbitrary logits are not)",
        "heads: an OFF logit lies 1e4 below the others; its probability (< 1e-4342) is modelled as 0",
        "heads: noise is 'standard normal' up to a 6-sigma test of mean and variance; frequencies of softmax samples up to 6 sigma",
        "heads: trusted - float64 values of ln p, ln pi, e^q; the pass-through networks (real GaussianMLP / MLP with identity kernels); TLC",
        "heads: near-tie Q rows are normal float32 numbers or 0: subnormal Q-values (|q| < 2^-126), which XLA on CPU flushes to zero, are outside the lattice; "
        "the order of float32 ordinals is the order of the floats (exact.ord32, cross-checked against Heads.tla's layout record)",
    ]


def replay_heads(d, rep):
    """d = the `replay` object of a heads violation."""
    import json

    if "case" not in d:
        print("aggregate finding (no single case):", d)
        return 1
    kit = Kit()
    e, mode = d["case"], d.get("mode", "eager")
    print("case:", json.dumps({k: e[k] for k in ("op", "b", "n", "i")}), "mode:", mode)
    print("args:", json.dumps(e["args"])[:1500])
    print("specified:", json.dumps(e["exp"])[:1500])
    what = check_case(kit, e, mode, rep.seed)
    if what is None:
        print("agrees with the specification")
        return 0
    print(f"still disagrees ({_key_of(e, what)}):", what)
    return 1
