"""throw-away development driver for the function-level part of C05 (bin/check C05FNDEV); not registered"""
from . import c05_fn

LEVEL = "model_checking"


def run(rep):
    c05_fn.run_fn(rep)


def replay(path, rep):
    import json

    r = c05_fn.replay_fn(json.load(open(path))["replay"], rep)
    if r:
        print("VIOLATION property=C05FNDEV replay=" + path)
    return r
