"""C05 - throw-away development driver (the coordinator owns the real one): function-level part only."""
from . import c05_fn

LEVEL = "model_checking"


def run(rep):
    c05_fn.run_fn(rep)


def replay(path, rep):
    import json

    r = c05_fn.replay_fn(json.load(open(path))["replay"], rep)
    if r:
        print("VIOLATION property=C05 replay=" + path)
    return r
