"""C05 - each update routine changes only the component it trains."""
import json
import os

from .. import sweep, tlc

LEVEL = "model_checking"
MANIFEST = dict(
    category="model_checking",
    text="Components.tla: per algorithm family the set of components (online networks, optimiser states, targets, embeddings, temperature, checkpoint copies) with version counters; one action per update routine with the documented trained set; TLC checks the frame conditions as action properties (nothing outside the trained set changes; a non-zero gradient changes the trained component; evaluating a loss or acting changes nothing) and refutes deviations. TLC-generated call sequences are replayed into the real update routines with tiny real networks and the content digest of every reachable module compared before/after. Inside recorded training runs LoopTrace.tla checks, at every event, that storing and acting change nothing, that nothing changes outside learning segments and that per segment exactly the components made due by the routine's documented rules changed (TrainedOnlyWhenDue, UpdateMissing, ChangeOutsideLearning, StoringChangesNothing, ActingChangesNothing).",
    note="structural property: seeded generic batches, not all parameter values; run-level rules only for routines whose update structure is step- or iteration-periodic; trusted: digests, recording wrappers, TLC",
    technique="TLA+ spec + TLC; call-sequence replay into the real update routines with bitwise digests; trace validation of recorded training runs",
)


def _fn_enabled():
    return "c05_fn" in open(os.path.join(os.path.dirname(__file__), "..", "..", "tools", "parts_enabled.txt")).read().split()


def run(rep):
    for m in ("LoopClauses", "LoopTrace"):
        tlc.sany(m)
    traces, out = sweep.report_property(rep, "C05")
    ruled = [t for t in traces if t["cfg"].get("rules")]
    if not ruled:
        raise tlc.MachineryError("no recorded run carries update rules (vacuous)")
    segs = sum(1 for t in ruled for e in t["events"] if e["ev"] == ("sample" if t["cfg"].get("segment") == "sample" else "add"))
    rep.extra["trace_part"] = {"routines_with_rules": sorted({t["cfg"]["routine"] for t in ruled}), "learning_segments_checked": segs, "events_checked": sum(len(t["events"]) for t in traces)}
    if _fn_enabled():
        from . import c05_fn

        c05_fn.run_fn(rep)
    else:
        rep.evaluations = sum(len(t["events"]) for t in traces)
        rep.distinct = segs
        rep.rule = "one case = one event of a recorded run (frame clauses) ; non-trivial = learning segments judged against the routine's update rules"
        rep.sample({"trace": ruled[0]["id"], "rules": ruled[0]["cfg"]["rules"]})
        rep.assumptions.append("function-level part (Components.tla) not enabled in this build")


def replay(path, rep):
    d = json.load(open(path))["replay"]
    if isinstance(d, dict) and d.get("kind") == "sweep":
        rc = sweep.replay_one(d, "C05")
    else:
        from . import c05_fn

        rc = c05_fn.replay_fn(d, rep)
    if rc:
        print(f"VIOLATION property=C05 replay={path}")
    return rc
