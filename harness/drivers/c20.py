"""C20 - loggers record faithfully and checkpoint exactly at interval crossings.

spec/Logger.tla models a LIST of member loggers (MemoryLogger, StandardLogger,
OrbaxCheckpointer, StdoutLogger; a list longer than one is a LoggerList).  TLC
checks StatsFaithful / CountersExact / FanOutEqual / StandardCadence /
OrbaxCadence / OrbaxCoversMultiples / ImplEquivReachable / NamesDistinct on the
bounded state graph and the equivalence of the implementation's
"remainder wrapped around OR gap >= interval" test with the floor-crossing test
on a bounded domain.  Every transition of the generated graphs is replayed
into the real classes (transition coverage); checkpoint writes go to an
in-memory stand-in for orbax' StandardCheckpointer on the big graphs and to
real orbax directories (restored afterwards) on a sample of behaviours.
"""
from __future__ import annotations

import contextlib
import copy
import io
import json
import os
import random
import re
import shutil

from .. import graph, tlc
from ..graph import Mismatch

LEVEL = "model_checking"
MANIFEST = dict(
    category="model_checking",
    text="TLC checks StatsFaithful, CountersExact, FanOutEqual, StandardCadence, OrbaxCadence (one checkpoint per record that passed >=1 multiple of the interval, none otherwise), OrbaxCoversMultiples, NamesDistinct on the complete bounded call graph of Logger.tla, and shows the implementation's wrap-around-or-gap test equivalent to the floor-crossing test (reachable states and the whole domain I<=12, steps<=60). Every transition of the generated graphs is replayed into MemoryLogger, StandardLogger, OrbaxCheckpointer, StdoutLogger and a LoggerList of all four, comparing get_stat (episode and step x-keys), counters, epoch counts, last_step, checkpoint_path (step/epoch parsed from the names, saved parameter digest) after every call; sampled behaviours write real orbax checkpoints that are restored and compared with the module version at save time. Call histories of a small stateful API are exactly what a state-graph enumeration decides.",
    note="bounds: keys {a,b}, values 1-2, explicit steps 0-9, intervals 1-4 (redefinition allowed); cadence histories <=5 (quick) / <=7 (thorough) calls, statistics histories <=4 calls (<=5 with one value), replayed graphs <=4/5 calls plus simulated behaviours of 24/30 calls; non-decreasing step sequences per key only; wall-clock fields excluded; AIMLogger not run (needs an Aim repository); trusted: TLC, the in-memory stand-in for orbax' StandardCheckpointer on the large graphs (real orbax on sampled behaviours), path-name parsing in this driver",
    technique="TLA+ spec + TLC exhaustive bounded state graph and simulation; transition-coverage replay of TLC-generated transitions into the real logger classes; real orbax save/restore on sampled TLC behaviours",
)

WORKERS = int(os.environ.get("C20_WORKERS", "16"))
INVS = [
    "TypeOK",
    "StatsFaithful",
    "CountersExact",
    "FanOutEqual",
    "StandardCadence",
    "OrbaxCadence",
    "OrbaxCoversMultiples",
    "ImplEquivReachable",
    "NamesDistinct",
    "InertFields",
]
ALL_OPS = {"StartEpisode", "StopEpisode", "RecordStat", "DefineFrequency", "RecordEpoch", "DefineExperiment"}
TMP = os.path.join(tlc.OUT, "tmp")


# --------------------------------------------------------------- configurations
def cfg_stats(depth, kinds="all", values=(1, 2)):
    """start/stop/record_stat histories: keys {a,b}, values 1-2, explicit or defaulted location"""
    return dict(
        Kinds=tlc.Subst("K_" + kinds), Keys={"a", "b"}, Values=set(values), EpVals={7}, StepVals={9}, EpochSteps=set(),
        StopVals={1, 2}, Intervals={1}, Ops={"StartEpisode", "StopEpisode", "RecordStat"}, MaxCalls=depth, TrackLoc=False, EMIT=False,
    )


def cfg_cadence(depth, kinds="so", keys=("a",), steps=range(10), stops=(1, 2, 3), ivs=(1, 2, 3, 4)):
    """checkpoint cadence: explicit steps 0..9 or the step counter, intervals 1..4, redefinition allowed"""
    return dict(
        Kinds=tlc.Subst("K_" + kinds), Keys=set(keys), Values={1}, EpVals=set(), StepVals=set(), EpochSteps=set(steps),
        StopVals=set(stops), Intervals=set(ivs), Ops={"StopEpisode", "DefineFrequency", "RecordEpoch"}, MaxCalls=depth, TrackLoc=False, EMIT=False,
    )


def cfg_mixed(depth, kinds="all", steps=(2, 5), track=True, rich=False):
    """all five calls interleaved, epoch locations tracked"""
    return dict(
        Kinds=tlc.Subst("K_" + kinds), Keys={"a", "b"}, Values={1, 2} if rich else {1}, EpVals={7}, StepVals={9},
        EpochSteps={2, 5, 9} if rich else set(steps), StopVals={1, 2} if rich else {2}, Intervals={1, 2, 3} if rich else {1, 2},
        Ops=set(ALL_OPS), MaxCalls=depth, TrackLoc=track, EMIT=False,
    )


def cfg_loc(depth, kinds="all"):
    """explicit locations INCLUDING 0 (falsy) and values different from the current counters, for
    record_stat and record_epoch, in states whose counters are already non-zero"""
    return dict(
        Kinds=tlc.Subst("K_" + kinds), Keys={"a"}, Values={1}, EpVals={0, 7}, StepVals={0, 9}, EpochSteps={0, 9},
        StopVals={2}, Intervals={1}, Ops={"StartEpisode", "StopEpisode", "RecordStat", "RecordEpoch"}, MaxCalls=depth, TrackLoc=True, EMIT=False,
    )


def cfg_sim(depth):
    """long random behaviours beyond the exhaustive bound"""
    return dict(
        Kinds=tlc.Subst("K_all"), Keys={"a", "b"}, Values={1, 2}, EpVals={0, 7}, StepVals={0, 9}, EpochSteps=set(range(0, 41)),
        StopVals={1, 2, 5}, Intervals={1, 2, 3, 4, 7}, Ops=set(ALL_OPS), MaxCalls=depth, TrackLoc=True, EMIT=True,
    )


KIND_LISTS = {
    "memory": ["memory"], "standard": ["standard"], "orbax": ["orbax"], "stdout": ["stdout"],
    "ms": ["memory", "standard"], "so": ["standard", "orbax"], "all": ["memory", "standard", "orbax", "stdout"],
}


# --------------------------------------------------------------- implementation side
_CACHE = {}


def _lib():
    if "lib" not in _CACHE:
        import jax
        import jax.numpy as jnp
        import numpy as np
        from flax import nnx
        import orbax.checkpoint as ocp
        from rl_blox.logging import logger as lg
        from rl_blox.logging.checkpointer import OrbaxCheckpointer

        class Tiny(nnx.Module):
            """one float32 parameter and one non-trainable variable (like the policy heads' action_scale), both holding
            the version number (device D5): a listed checkpoint must restore the module's FULL state"""

            def __init__(self, ver):
                self.w = nnx.Param(jnp.array([float(ver)], jnp.float32))
                self.aux = nnx.Variable(jnp.array([float(ver)], jnp.float32))

        _CACHE["lib"] = dict(jax=jax, jnp=jnp, np=np, nnx=nnx, ocp=ocp, lg=lg, Orbax=OrbaxCheckpointer, Tiny=Tiny)
    return _CACHE["lib"]


def _digest(tree):
    """the version number stored in a (saved / restored) state tree"""
    L = _lib()
    leaves = L["jax"].tree_util.tree_leaves(tree)
    if len(leaves) != 2:
        raise Mismatch(f"checkpoint state has {len(leaves)} leaves, the module's state has 2 (a parameter and a non-trainable variable)", code="checkpoint:leaf_count")
    vals = [float(L["np"].asarray(x).reshape(-1)[0]) for x in leaves]
    if vals[0] != vals[1]:
        raise Mismatch(f"checkpoint mixes states of different module versions: leaves {vals}", code="checkpoint:mixed_versions")
    return int(round(vals[0]))


def _module(ver):
    mods = _CACHE.setdefault("mods", {})
    if ver not in mods:
        mods[ver] = _lib()["Tiny"](ver)
    return mods[ver]


class FakeCheckpointer:
    """In-memory stand-in for orbax.checkpoint.StandardCheckpointer: records the
    digest of the state at save time and refuses an existing destination like orbax."""

    def __init__(self):
        self.saved = {}

    def save(self, path, state, *a, **kw):
        p = os.path.normpath(str(path))
        if p in self.saved:
            raise ValueError(f"Destination {p} already exists.")
        self.saved[p] = _digest(state)

    def wait_until_finished(self):
        pass

    def __deepcopy__(self, memo):
        c = FakeCheckpointer()
        c.saved = dict(self.saved)
        return c


_ORBAX_NAME = re.compile(r"^(?P<pre>.*)_(?P<key>[^_]+)_step_(?P<step>\d{9,})_epoch_(?P<epoch>\d+)$")
_STD_NAME = re.compile(r"^(?P<pre>.*)_(?P<key>[^_]+)_(?P<epoch>\d+)$")
_LINE = re.compile(r"^\[[^\]]*\] \((?P<ep>\d{4,})\|(?P<step>\d{6,})\|[-\d.]+\) S (?P<key>\s*\S+): (?P<val>\S+)$")


class Ad:
    """real logger(s) for one member list; wrap=True puts them into a LoggerList"""

    def __init__(self, kinds, keys, wrap, track=False, ckdir=None, real=False):
        L = _lib()
        self.kinds, self.keys, self.wrap, self.track, self.real = list(kinds), sorted(keys), wrap, track, real
        self.ckdir = ckdir or os.path.join(TMP, f"c20-{os.getpid()}", "stub")
        self.members = []
        for i, k in enumerate(self.kinds):
            d = os.path.join(self.ckdir, f"{i}{k}")
            if k == "memory":
                o = L["lg"].MemoryLogger()
            elif k == "stdout":
                o = L["lg"].StdoutLogger()
            elif k == "standard":
                o = L["lg"].StandardLogger(checkpoint_dir=d, verbose=0)
                if not real:
                    o.checkpointer = FakeCheckpointer()
            elif k == "orbax":
                o = L["Orbax"](checkpoint_dir=d, verbose=0)
                if not real:
                    o.checkpointer = FakeCheckpointer()
            else:  # pragma: no cover
                raise AssertionError(k)
            self.members.append(o)
        assert wrap or len(self.members) == 1
        self.obj = L["lg"].LoggerList(self.members) if wrap else self.members[0]
        self.n_exp = 0
        self.restored = {}  # real mode: path -> digest restored right after it was listed
        self.live = L["Tiny"](0) if real else None  # real mode: ONE module mutated in place between epochs

    def __deepcopy__(self, memo):
        if self.real:
            raise AssertionError("adapters with real checkpointers are replayed linearly, not cloned")
        c = copy.copy(self)
        c.members = copy.deepcopy(self.members, memo)
        c.obj = _lib()["lg"].LoggerList(c.members) if self.wrap else c.members[0]
        c.restored = {}
        return c


def _opt(x):
    return None if x == -1 else x


def step(ad: Ad, op, args, exp, pre=None, post=None):
    L = _lib()
    buf = io.StringIO()
    with contextlib.redirect_stdout(buf):
        if op == "StartEpisode":
            ad.obj.start_new_episode()
        elif op == "StopEpisode":
            ad.obj.stop_episode(args["n"])
        elif op == "RecordStat":
            ad.obj.record_stat(args["key"], args["v"], episode=_opt(args["ep"]), step=_opt(args["step"]))
        elif op == "DefineFrequency":
            ad.obj.define_checkpoint_frequency(args["key"], args["I"])
        elif op == "DefineExperiment":
            ad.n_exp = getattr(ad, "n_exp", 0) + 1
            ad.obj.define_experiment(f"Env-v{ad.n_exp}", "TD3_x", {"lr": 0.5})
        elif op == "RecordEpoch":
            if ad.real:
                ad.live.w.value = L["jnp"].array([float(args["ver"])], L["jnp"].float32)
                ad.live.aux.value = L["jnp"].array([float(args["ver"])], L["jnp"].float32)
                mod = ad.live
            else:
                mod = _module(args["ver"])
            ad.obj.record_epoch(args["key"], mod, episode=_opt(args["ep"]), step=_opt(args["step"]))
            if ad.real:
                # a checkpoint must hold the module AS IT WAS when record_epoch was called
                ad.live.w.value = L["jnp"].array([-1.0], L["jnp"].float32)
                ad.live.aux.value = L["jnp"].array([-1.0], L["jnp"].float32)
        else:  # pragma: no cover
            raise AssertionError(op)
    out = [l for l in buf.getvalue().splitlines() if l.strip()]
    n_stdout = ad.kinds.count("stdout")
    if op == "RecordStat":
        # StdoutLogger "records" to stdout: one line per member with the effective location
        if len(out) != n_stdout:
            raise Mismatch(f"stdout: {len(out)} lines printed for record_stat, {n_stdout} StdoutLogger members", code="stdout:line_count")
        for l in out:
            mm = _LINE.match(l)
            if not mm:
                raise Mismatch(f"stdout: unparsable statistics line {l!r}", code="stdout:unparsable_line")
            got = (int(mm["ep"]), int(mm["step"]), mm["key"].strip(), mm["val"])
            want = (exp["ep"], exp["step"], args["key"], "{0:.3f}".format(args["v"]))
            if got != want:
                raise Mismatch(f"stdout: line reports (episode, step, key, value) = {got}, model {want}", code="stdout:line_location")
    elif out and not (op == "DefineExperiment" and n_stdout):  # StdoutLogger prints the hyperparameters
        raise Mismatch(f"stdout: unexpected output on {op}: {out[0]!r}", code="stdout:unexpected_output")


def _ck_digest(ad, lg, path):
    if not ad.real:
        p = os.path.normpath(path)
        if p not in lg.checkpointer.saved:
            raise Mismatch(f"checkpoint_path lists {os.path.basename(p)} but nothing was saved there", code="checkpoint:listed_not_saved")
        return lg.checkpointer.saved[p]
    if path not in ad.restored:
        ad.restored[path] = restore_digest(path)
    return ad.restored[path]


def restore_digest(path):
    L = _lib()
    if not os.path.isdir(path):
        raise Mismatch(f"listed checkpoint {os.path.basename(os.path.normpath(path))} does not exist on disk", code="checkpoint:listed_missing_on_disk")
    ck = _CACHE.get("restorer")
    if ck is None:
        ck = _CACHE["restorer"] = L["ocp"].StandardCheckpointer()
    try:
        tree = ck.restore(path)
    except Exception as e:
        raise Mismatch(f"listed checkpoint is not restorable: {type(e).__name__}: {str(e)[:100]}", code="checkpoint:not_restorable")
    return _digest(tree)


def project_member(ad: Ad, kind, lg):
    keys = ad.keys
    r = {"kind": kind, "nEp": int(lg.n_episodes), "nSteps": int(lg.n_steps)}
    if kind in ("memory", "standard"):
        r["stats"] = {k: [] for k in keys + ["episode_length"]}
    if kind in ("standard", "orbax"):
        r.update(epochs={k: 0 for k in keys}, freq={k: 0 for k in keys}, ck={k: [] for k in keys})
    if kind == "orbax":
        r["last"] = {k: 0 for k in keys}
    if kind == "standard":
        r["eloc"] = {k: [] for k in keys}
    if kind in ("memory", "standard"):
        for k in lg.stats:
            if k not in r["stats"]:
                raise Mismatch(f"{kind}: statistic recorded under unknown key {k!r}", code="stats:unknown_key")
            xe, y = lg.get_stat(k, "episode")
            xs, y2 = lg.get_stat(k, "step")
            xt, y3 = lg.get_stat(k, "time")
            if not (len(xe) == len(xs) == len(xt) == len(y) == len(y2) == len(y3)) or list(y) != list(y2) or list(y) != list(y3):
                raise Mismatch(f"{kind}: get_stat({k!r}) returns inconsistent x/y for the three x-keys", code=f"{kind}:get_stat:inconsistent_xkeys")
            xe0, y0 = lg.get_stat(k)  # default x-key is the episode
            if list(xe0) != list(xe):
                raise Mismatch(f"{kind}: get_stat default x-key is not the episode", code="get_stat:default_xkey")
            r["stats"][k] = [[int(v), int(e), int(s)] for v, e, s in zip(y, xe, xs)]
    if kind in ("standard", "orbax"):
        for k, v in lg.epoch.items():
            r["epochs"][k] = int(v)
        for k, v in lg.checkpoint_frequencies.items():
            r["freq"][k] = int(v)
        if set(lg.checkpoint_path) != set(lg.checkpoint_frequencies):
            raise Mismatch(f"{kind}: checkpoint_path keys differ from the keys with a defined frequency", code="checkpoint_path:keys")
        for k, paths in lg.checkpoint_path.items():
            for p in paths:
                base = os.path.basename(os.path.normpath(p))
                if os.path.dirname(os.path.normpath(p)) != os.path.normpath(lg.checkpoint_dir):
                    raise Mismatch(f"{kind}: checkpoint {p} is outside checkpoint_dir", code="checkpoint:outside_dir")
                mm = (_ORBAX_NAME if kind == "orbax" else _STD_NAME).match(base)
                if not mm or mm["key"] != k:
                    raise Mismatch(f"{kind}: checkpoint name {base!r} does not carry key {k!r} and its step/epoch", code=f"{kind}:checkpoint_name")
                dig = _ck_digest(ad, lg, p)
                if kind == "orbax":
                    r["ck"][k].append([int(mm["step"]), int(mm["epoch"]), dig])
                else:
                    r["ck"][k].append([int(mm["epoch"]), dig])
    if kind == "orbax":
        for k, v in lg.last_step.items():
            r["last"][k] = int(v)
    if kind == "standard" and ad.track:
        for k, locs in lg.epoch_loc.items():
            r["eloc"][k] = [[int(e), int(s)] for e, s, _t in locs]
    return r


def project(ad: Ad):
    if ad.wrap and ad.obj.n_episodes != ad.members[0].n_episodes:
        raise Mismatch("LoggerList.n_episodes differs from its first member's", code="LoggerList:n_episodes")
    return {"m": [project_member(ad, k, o) for k, o in zip(ad.kinds, ad.members)]}


def _diff_fields(got, want):
    out = []
    try:
        for i, (g, w) in enumerate(zip(got["m"], want["m"])):
            for f in w:
                if g.get(f) != w[f]:
                    out.append(f"{w['kind']}.{f}")
    except Exception:  # pragma: no cover
        pass
    return sorted(set(out))


def _key(name, v):
    """stable key: the call and the attribute(s) of the member class(es) that deviate - the same
    defect gets the same key in every graph (the graph name only appears in the message)"""
    op = v["path"][-1]["op"]
    d = v.get("detail") or {}
    if "got" in d and "want" in d:
        return f"{op}:state:{','.join(_diff_fields(d['got'], d['want'])) or 'other'}"
    what = v.get("code") or re.sub(r"\d+", "#", v["what"])[:70]
    return f"{op}:{what}"


# --------------------------------------------------------------- real orbax writes
def tree_paths(G, root):
    """root-to-node paths of the BFS spanning tree: node -> list of (op, args, exp, post_key)"""
    from collections import deque

    paths = {root: []}
    q = deque([root])
    while q:
        k = q.popleft()
        for op, args, exp, k2 in G.out.get(k, ()):
            if k2 not in paths:
                paths[k2] = paths[k] + [(op, args, exp, k2)]
                q.append(k2)
    return paths


def n_ckpts(state):
    return sum(len(c) for mem in state["m"] for c in mem.get("ck", {}).values())


def real_run(G, path, kinds, keys, wrap, track, rep, name, tag, experiment=False):
    """Replay one TLC behaviour with REAL orbax checkpointers in a fresh directory,
    compare after every call, restore every listed path at the end.  Returns #writes."""
    d = os.path.join(TMP, f"c20-{os.getpid()}", f"real-{tag}")
    shutil.rmtree(d, ignore_errors=True)
    ad = None
    done = []
    writes = 0
    try:
        ad = Ad(kinds, keys, wrap, track=track, ckdir=d, real=True)
        if experiment:
            # set-up outside the model: names the run (start_time / env / algorithm enter the directory names)
            with contextlib.redirect_stdout(io.StringIO()):
                ad.obj.define_experiment("Pendulum-v1", "TD3_x", {"lr": 0.5})
        for op, args, exp, k2 in path:
            done.append({"op": op, "args": args, "exp": exp})
            want = G.state[k2]
            try:
                step(ad, op, args, exp)
                got = project(ad)
                if graph.canon(got) != k2:
                    raise Mismatch("state after step differs from model", got=got, want=want)
            except Mismatch as m:
                v = {"what": m.what, "code": getattr(m, "code", None), "detail": m.detail, "path": done}
                rep.violation(_key(name + ":real", v), f"{name} with real orbax writes: {m.what}", _replay(kinds, keys, wrap, track, True, done, want))
                return writes
            except Exception as ex:
                import traceback

                tb = traceback.extract_tb(ex.__traceback__)
                where = f"{tb[-1].filename.split('/')[-1]}:{tb[-1].name}" if tb else "?"
                v = {"what": f"exception {type(ex).__name__} in {where}: {str(ex)[:100]}", "code": f"exception:{type(ex).__name__}:{where}", "detail": {}, "path": done}
                rep.violation(_key(name + ":real", v), f"{name} with real orbax writes: {v['what']}", _replay(kinds, keys, wrap, track, True, done, want))
                return writes
        # final pass: every listed path restorable NOW (nothing overwritten / removed later)
        for kind, lg in zip(ad.kinds, ad.members):
            if kind not in ("standard", "orbax"):
                continue
            on_disk = set(os.listdir(lg.checkpoint_dir)) if os.path.isdir(lg.checkpoint_dir) else set()
            writes += len(on_disk)
            for k, paths in lg.checkpoint_path.items():
                for p in paths:
                    try:
                        dg = restore_digest(p)
                        if dg != ad.restored.get(p):
                            raise Mismatch(f"checkpoint content changed after it was listed ({ad.restored.get(p)} -> {dg})", code="checkpoint:content_changed")
                    except Mismatch as m:
                        v = {"what": m.what, "code": getattr(m, "code", None), "detail": {}, "path": done}
                        rep.violation(_key(name + ":real:final", v), f"{name} final restore: {m.what}", _replay(kinds, keys, wrap, track, True, done, None))
    finally:
        for lg in (ad.members if ad else ()):
            with contextlib.suppress(Exception):
                lg.checkpointer.close()
        shutil.rmtree(d, ignore_errors=True)
    return writes


def slice_emits(emitted, i):
    """the transitions of member i alone (selection of TLC's output, no recomputation)"""
    return [dict(e, pre={"m": [e["pre"]["m"][i]]}, post={"m": [e["post"]["m"][i]]}) for e in emitted]


def _replay(kinds, keys, wrap, track, real, path, want):
    return {"kinds": list(kinds), "keys": sorted(keys), "wrap": wrap, "track": track, "real": real, "path": path, "want": want}


# --------------------------------------------------------------- run
def _gen(rep, c, tag, **kw):
    c = dict(c, EMIT=True)
    g = tlc.run("Logger", tlc.cfg_text(constants=c), workers=1, tag=tag, **kw)
    if not g.emitted:
        raise tlc.MachineryError(f"no transitions emitted for {tag}")
    return graph.Graph(g.emitted), g


def _cover(rep, G, name, kinds_name, keys, wrap, track, counters):
    kinds = KIND_LISTS[kinds_name]
    root = G.roots()[0]
    res = graph.cover(G, root, lambda: Ad(kinds, keys, wrap, track=track), step, project)
    counters["edges"] += res["edges_tested"]
    rep.traces += res["edges_tested"]
    for v in res["violations"]:
        d = v.get("detail") or {}
        rep.violation(_key(name, v), f"{name}: {v['what']}" + (f" (fields {_diff_fields(d['got'], d['want'])})" if "got" in d else ""),
                      _replay(kinds, keys, wrap, track, False, v["path"], d.get("want")))
    return res


def _nontrivial(G):
    """transitions that store a statistic or write a checkpoint from a non-initial state"""
    n = 0
    for k, es in G.out.items():
        pre = G.state[k]
        for op, args, exp, k2 in es:
            post = G.state[k2]
            if any(a.get("stats") != b.get("stats") or a.get("ck") != b.get("ck") for a, b in zip(pre["m"], post["m"])) and any(
                a["nEp"] or a["nSteps"] or any(a.get("epochs", {}).values()) or any(a.get("stats", {}).values()) for a in pre["m"]
            ):
                n += 1
    return n


_COV = re.compile(r"^<(\w+) line \d+, col \d+ to line \d+, col \d+ of module Logger(?: \([\d ]+\))?>: (\d+):(\d+)", re.M)


def _require_covered(res, actions):
    """vacuity guard (own parser: tlc.require_covered misses coverage lines that carry a sub-expression location)"""
    taken = {}
    for mm in _COV.finditer(res.stdout):
        taken[mm.group(1)] = taken.get(mm.group(1), 0) + int(mm.group(3))
    missing = [a for a in actions if not taken.get(a)]
    if missing:
        raise tlc.MachineryError(f"actions never taken (vacuous model): {missing}")


def _check(rep, c, name, tag, invs=INVS, cover_ops=()):
    r = tlc.run("Logger", tlc.cfg_text(constants=c, invariants=invs), workers=WORKERS, coverage=bool(cover_ops), tag=tag)
    rep.add_tlc(r, name)
    if not r.ok:
        rep.violation(f"spec:Logger:{r.violated}", f"design-level violation of {r.violated} in {name}", r.error_trace)
        return False
    if cover_ops:
        _require_covered(r, list(cover_ops))
    return True


def _canary(c, nxt, inv, what, init_only=False):
    r = tlc.run("Logger", tlc.cfg_text(next=nxt, constants=c, invariants=[inv]), workers=min(WORKERS, 4), tag="c20bad")
    if r.violated != inv:
        raise tlc.MachineryError(f"canary: {what} not refuted by {inv} (got {r.violated})")


def run(rep):
    quick = rep.tier == "quick"
    rnd = random.Random(rep.seed)
    tlc.sany("Logger")
    scratch = os.path.join(TMP, f"c20-{os.getpid()}")
    counters = {"edges": 0}
    nontrivial = 0
    import time

    phase = rep.extra.setdefault("phase_wall_s", {})
    t_last = [time.time()]

    def lap(name):
        phase[name] = round(phase.get(name, 0) + time.time() - t_last[0], 1)
        t_last[0] = time.time()

    try:
        # ---- 1. the model: properties on the bounded call graphs -----------------------
        d_stats, d_cad1, d_cad2, d_mix = (4, 5, 4, 3) if quick else (4, 7, 5, 4)
        _check(rep, cfg_stats(d_stats), f"stats histories (all members, <= {d_stats} calls)", "c20stats", cover_ops=["StartEpisode", "StopEpisode", "RecordStat"])
        if not quick:
            _check(rep, cfg_stats(5, values=(1,)), "stats histories, one value (all members, <= 5 calls)", "c20stats5")
        _check(rep, cfg_cadence(d_cad1), f"cadence key a, steps 0-9, I 1-4 (<= {d_cad1} calls)", "c20cad1", cover_ops=["StopEpisode", "DefineFrequency", "RecordEpochWith"])
        small = dict(steps=(0, 1, 3, 4, 8, 9), stops=(2,), ivs=(1, 2, 4))
        _check(rep, cfg_cadence(d_cad2, keys=("a", "b"), **small), f"cadence keys a,b (<= {d_cad2} calls, steps {{0,1,3,4,8,9}}, I {{1,2,4}})", "c20cad2")
        if not quick:
            _check(rep, cfg_cadence(4, keys=("a", "b")), "cadence keys a,b, steps 0-9, I 1-4 (<= 4 calls)", "c20cad2f")
        d_loc = 3 if quick else 4
        _check(rep, cfg_loc(d_loc), f"explicit locations incl. 0 with non-zero counters (all members, <= {d_loc} calls)", "c20loc", cover_ops=["RecordStat", "RecordEpochWith"])
        _check(rep, cfg_mixed(d_mix), f"all calls interleaved (all members, <= {d_mix} calls)", "c20mix")
        # equivalence of the implementation's test on the whole bounded domain (initial state only)
        r = tlc.run("Logger", tlc.cfg_text(next="Stop", constants=cfg_cadence(1), invariants=["ImplEquivDomain"]), workers=1, tag="c20dom")
        rep.add_tlc(r, "ImplEquivDomain: I in 1..12, 0 <= last <= step <= 60")
        if not r.ok:
            rep.violation("orbax:cadence_test_not_equivalent", "the wrap-around-or-gap test differs from the floor-crossing test for a non-decreasing step pair", r.error_trace)

        lap("tlc_properties")
        # ---- 2. spec canaries: realistic deviations must be refuted -----------------------
        _canary(cfg_cadence(4), "NextBadModulo", "OrbaxCadence", "step % I = 0 cadence")
        if not quick:
            _canary(cfg_cadence(4), "NextBadModulo", "OrbaxCoversMultiples", "step % I = 0 cadence")
        _canary(cfg_cadence(1), "Stop", "ImplEquivDomainBad", "strict gap test")
        _canary(cfg_stats(3), "NextBadStop", "StatsFaithful", "episode_length recorded before the step counter advances")
        _canary(cfg_stats(2), "NextBadFanOut", "FanOutEqual", "record_stat forwarded to the first member only")

        lap("tlc_canaries")
        # ---- 3. spec -> code: transition coverage with the in-memory checkpointer -----------
        gd_stats, gd_cad, gd_cad2, gd_mix = (3, 4, 3, 3) if quick else (4, 5, 4, 3)
        # one TLC generation run per configuration with the full member list; the single-class
        # graphs are the member-wise slices of the same TLC output (members evolve independently)
        plans = [
            ("stats", cfg_stats(gd_stats), False, ["memory", "standard", "stdout"] + ([] if quick else ["orbax"])),
            ("cadence", cfg_cadence(gd_cad, "all"), False, ["standard", "orbax"]),
            ("cadence2", cfg_cadence(gd_cad2, "all", keys=("a", "b"), steps=(0, 1, 3, 4, 8, 9), stops=(2,), ivs=(1, 2, 4)), False, []),
            ("mixed", cfg_mixed(gd_mix, rich=not quick), True, ["standard"]),
            ("loc", cfg_loc(3 if quick else 4), True, ["memory", "standard"]),
        ]
        graphs = {}
        for base, c, track, singles in plans:
            G, g = _gen(rep, c, "c20gen")
            lap("tlc_generation")
            todo = [(f"{base}/all", G, "all", True)]
            for kn in singles:
                todo.append((f"{base}/{kn}", graph.Graph(slice_emits(g.emitted, KIND_LISTS["all"].index(kn))), kn, False))
            for name, Gx, kn, wrap in todo:
                graphs[name] = (Gx, c, kn, wrap, track)
                _cover(rep, Gx, name, kn, c["Keys"], wrap, track, counters)
                rep.extra.setdefault("graphs", {})[name] = {"states": len(Gx.state), "transitions": Gx.n_edges}
                nontrivial += _nontrivial(Gx)
                if name in ("cadence/orbax", "stats/memory"):
                    e = Gx.out[sorted(Gx.out)[len(Gx.out) * 2 // 3]][-1]
                    rep.sample({"graph": name, "op": e[0], "args": e[1], "exp": e[2], "post": Gx.state[e[3]]})
            lap("replay")

        # vacuity guard: explicit (falsy) 0 locations must occur where the counters are non-zero
        Gl = graphs["loc/all"][0]
        zero_ep = zero_step = other = 0
        for k, es in Gl.out.items():
            m0 = Gl.state[k]["m"][0]
            for op, args, exp, k2 in es:
                if op in ("RecordStat", "RecordEpoch"):
                    zero_ep += args["ep"] == 0 and m0["nEp"] > 0
                    zero_step += args["step"] == 0 and m0["nSteps"] > 0
                    other += args["ep"] not in (-1, m0["nEp"]) and args["step"] not in (-1, m0["nSteps"])
        rep.extra["explicit_zero_location_transitions"] = {"episode=0,nEp>0": zero_ep, "step=0,nSteps>0": zero_step, "both explicit and different from counters": other}
        if not (zero_ep and zero_step and other):
            raise tlc.MachineryError("loc graph does not exercise explicit 0 locations with non-zero counters")

        # ---- 4. binding canary: a corrupted expected checkpoint version must be noticed -------
        G, c, kn, wrap, track = graphs["cadence/orbax"]
        em = []
        hit = False
        for k, es in G.out.items():
            for op, args, exp, k2 in es:
                post = copy.deepcopy(G.state[k2])
                if not hit and op == "RecordEpoch" and n_ckpts(post) > n_ckpts(G.state[k]):
                    post["m"][0]["ck"][args["key"]][-1][-1] += 1  # wrong module version
                    hit = True
                em.append({"pre": G.state[k], "op": op, "args": args, "exp": exp, "post": post})
        Gc = graph.Graph(em)
        res = graph.cover(Gc, Gc.roots()[0], lambda: Ad(KIND_LISTS[kn], c["Keys"], wrap), step, project)
        if not hit or not res["violations"]:
            raise tlc.MachineryError("binding canary: a corrupted expected checkpoint digest was not noticed")

        lap("binding_canary")
        # ---- 5. real orbax writes + restores on sampled behaviours of the cadence graphs ------
        budget = 90 if quick else 300  # real checkpoint directories (~0.06 s each)
        writes = 0
        n_real = 0
        for name in ("cadence/all", "cadence2/all", "mixed/all"):
            G, c, kn, wrap, track = graphs[name]
            paths = tree_paths(G, G.roots()[0])
            cand = [k for k in paths if n_ckpts(G.state[k]) >= 2]
            cand.sort(key=lambda k: (-n_ckpts(G.state[k]), k))
            pick = cand[: 3 if quick else 12] + rnd.sample(cand, min(len(cand), 6 if quick else 40))
            share = budget // 3
            for i, k in enumerate(dict.fromkeys(pick)):
                if share <= 0:
                    break
                w = real_run(G, paths[k], KIND_LISTS[kn], c["Keys"], wrap, track, rep, name, f"{name.replace('/', '-')}-{i}", experiment=bool(i % 2))
                writes += w
                share -= max(w, 1)
                n_real += 1
                rep.traces += len(paths[k])
                if i == 0 and name == "cadence/all":
                    rep.sample({"real_orbax_behaviour": [[op, a] for op, a, _, _ in paths[k]], "final": {m["kind"]: m["ck"] for m in G.state[k]["m"] if m["kind"] in ("standard", "orbax")}})
        rep.extra["real_checkpoint_dirs_written_and_restored"] = writes
        rep.extra["real_behaviours"] = n_real
        if writes == 0 and not rep.violations:
            raise tlc.MachineryError("no real checkpoint was written")

        lap("real_orbax")
        # ---- 6. long simulated behaviours (beyond the exhaustive bound) -----------------------
        num, depth = (6, 24) if quick else (60, 30)
        Gs, g = _gen(rep, cfg_sim(depth), "c20sim", simulate=f"num={num}", depth=depth + 2, seed=rep.seed + 1)
        res = _cover(rep, Gs, "sim/all", "all", {"a", "b"}, True, True, counters)
        rep.extra["simulated_transitions"] = Gs.n_edges
        nontrivial += _nontrivial(Gs)
        lap("simulation")
    finally:
        shutil.rmtree(scratch, ignore_errors=True)

    rep.rule = (
        "TLC enumerates the complete reachable call graph of Logger.tla per configuration (stats: keys {a,b}, values 1-2, explicit/defaulted episode and step; "
        "cadence: explicit steps 0-9 or the step counter, non-decreasing per key, intervals 1-4 with redefinition; mixed: all calls; loc: explicit episode/step in {0,7}/{0,9} incl. the falsy 0 while the counters are non-zero, for record_stat and record_epoch) up to the call bound, plus simulated long behaviours; "
        "every transition (distinct pre-state, call, arguments) is replayed once into each real class / LoggerList; "
        "non-trivial = the call stores a statistic or writes a checkpoint from a non-initial state"
    )
    rep.evaluations = counters["edges"]
    rep.distinct = nontrivial
    rep.exhaustive = True
    rep.assumptions += [
        "step sequences of record_epoch are non-decreasing per key (the property's quantifier); decreasing steps are not explored",
        "wall-clock fields (t, start_time) excluded; get_stat(..., 'time') only checked for length",
        "large graphs use an in-memory stand-in for orbax' StandardCheckpointer (save/wait_until_finished, refuses existing destinations); real orbax save+restore on sampled behaviours",
        "one logger instance per checkpoint directory; two instances sharing directory, env/algorithm name and start_time are out of scope (orbax refuses the second write with ValueError)",
        "AIMLogger not exercised (needs an Aim repository)",
        "bounded: <= %d calls exhaustive in TLC, replayed graphs <= %d calls (then simulated behaviours of %d calls)" % ((5, 4, 24) if quick else (7, 5, 30)),
    ]


def replay(path, rep):
    d = json.load(open(path))["replay"]
    scratch = os.path.join(TMP, f"c20-{os.getpid()}")
    try:
        ad = Ad(d["kinds"], d["keys"], d["wrap"], track=d.get("track", False), real=d.get("real", False),
                ckdir=os.path.join(scratch, "replay"))
        try:
            got = None
            for st in d["path"]:
                step(ad, st["op"], st["args"], st.get("exp"))
                got = project(ad)
                print(st["op"], st["args"], "->", json.dumps(got["m"]))
            if d.get("want") is not None and graph.canon(got) != graph.canon(d["want"]):
                raise Mismatch(f"state after the last call differs from the model in {_diff_fields(got, d['want'])}: model {json.dumps(d['want']['m'])}")
        except Mismatch as m:
            print("VIOLATION property=C20 replay=" + path)
            print("  ", m.what)
            return 1
        except Exception as ex:
            print("VIOLATION property=C20 replay=" + path)
            print("   exception", type(ex).__name__, ex)
            return 1
        return 0
    finally:
        shutil.rmtree(scratch, ignore_errors=True)
