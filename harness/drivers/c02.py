"""C02 - replay buffer is a faithful fixed-capacity FIFO of whole transitions.

spec/Ring.tla, spec/MultiTask.tla; TLC checks Fifo / Positional / NeverUnwritten /
TaskIsolation exhaustively for small capacities; every transition of the
reachable state graph is replayed into ReplayBuffer, LAP,
PrioritizedReplayBuffer and MultiTaskReplayBuffer (transition coverage).
Every add_sample call is spelled the way TLC chooses (AddAs of the specs: Python type carrying the values of the
float fields, integral or fractional values, keyword order), and the graph is covered again behind every other
spelling of an object's first call (the call that allocates the storage).
"""
from __future__ import annotations

import copy

import numpy as np

from .. import bufkit, graph, tlc
from ..graph import Mismatch

LEVEL = "model_checking"
MANIFEST = dict(
    category="model_checking",
    text="TLC checks Fifo/Positional/NeverUnwritten/TaskIsolation on the complete state graph of Ring.tla and MultiTask.tla for small capacities; every transition of that graph is replayed into ReplayBuffer, LAP, PrioritizedReplayBuffer and MultiTaskReplayBuffer with tagged whole-row transitions in four field/dtype profiles, every add_sample call spelled as TLC chooses (float / Python int / int64 / uint8 / jax int32 values for float fields, integral or fractional, keyword order declared / reversed / equal shapes exchanged) and the graph re-covered behind every spelling of an object's first call, comparing the projected state (ids, storage dtype, exact content of what was passed cast to the documented dtype) and sampled rows after every step. Small-scope exhaustive, which fits a data structure whose behaviour is uniform in capacity.",
    note="bounded capacities (N<=3 quick, <=5 thorough + long simulated runs); trusted: harness/bufkit.py tag coding/projection, stub generator, TLC",
    technique="TLA+ spec + TLC exhaustive state graph; transition-coverage replay into the real buffers",
)
RING_INVS = ["TypeOK", "Fifo", "Positional", "NeverUnwritten", "SampleSound"]
MT_INVS = ["PerTaskFifo", "ActiveExact", "ActiveHasData", "SelValid"]


def canon_args(a):
    return graph.canon(a)


def _classes():
    from rl_blox.blox import replay_buffer as rb

    return {"ReplayBuffer": rb.ReplayBuffer, "LAP": rb.LAP, "PrioritizedReplayBuffer": rb.PrioritizedReplayBuffer}


class RingAdapter:
    def __init__(self, cls_name, profile, n):
        cls = _classes()[cls_name]
        self.kind = cls_name
        # remembers how every transition was spelled (value form, fractional or not, keyword order): AddAs of the spec
        profile = self.profile = bufkit.spelled(profile)
        if profile.name.startswith("default"):
            self.buf = cls(n, discrete_actions=profile.name.endswith("discrete"))
        else:
            self.buf = cls(n, keys=list(profile.keys), dtypes=list(profile.dtypes))
        self.skipped = 0


def sample_by_index(buf, kind, idx, model_len, profile):
    """Make the real buffer return the rows at the model's indices; also check
    the range it samples from.  Returns list of decoded ids, or None if this
    class cannot be steered to that index vector."""
    rng = bufkit.StubRng()
    b = len(idx)
    if kind in ("ReplayBuffer",):
        rng.push("integers", idx)
        batch = buf.sample_batch(b, rng)
        c = rng.calls[-1]
        if (c[1], c[2]) != (0, model_len):
            raise Mismatch(f"samples indices from [{c[1]},{c[2]}) but only [0,{model_len}) is filled")
    elif kind == "LAP":
        # all priorities equal (never updated): tick k selects slot k-1
        rng.push("uniform", lambda lo, hi, size: (np.asarray(idx) + 0.5) / model_len)
        batch = buf.sample_batch(b, rng)
    elif kind == "PrioritizedReplayBuffer":
        if b != 1:
            return None  # strata cannot realise an arbitrary index vector
        rng.push("uniform", lambda lo, hi, size: np.asarray(idx) + 0.5)
        batch, ratio = buf.sample_batch(b, rng)
        c = rng.calls[-1]
        if not (np.allclose(c[1], [0.0]) and np.allclose(c[2], [float(model_len)])):
            raise Mismatch(f"stratum [{c[1]},{c[2]}) is not the whole priority mass [0,{model_len})")
        if not np.allclose(np.asarray(ratio), 1.0):
            raise Mismatch(f"importance ratio of a single-row batch is {ratio}, expected 1")
    else:  # pragma: no cover
        raise AssertionError(kind)
    rows = bufkit.batch_rows(batch, profile)
    return [profile.decode_row(r) for r in rows]


def real_rng_sample(buf, kind, profile, stored_ids, seed, b=8):
    rng = np.random.default_rng(seed)
    out = buf.sample_batch(b, rng)
    batch = out[0] if kind == "PrioritizedReplayBuffer" else out
    rows = bufkit.batch_rows(batch, profile)
    if len(rows) != b:
        raise Mismatch(f"batch has {len(rows)} rows, requested {b}")
    for r in rows:
        i = profile.decode_row(r)
        if i not in stored_ids:
            raise Mismatch(f"sampled transition {i} is not among the stored transitions {sorted(stored_ids)}")


def spell(profile, args):
    """Keyword arguments of the add_sample call the model chose: Add <<id>> (float values, declared keyword order)
    or AddAs <<id, form, half, ord>>."""
    if len(args) == 1:
        return profile.encode(args[0])
    i, form, half, order = args
    return profile.encode_as(i, form, half, order)


def ring_step(ad: RingAdapter, op, args, exp, pre, post, seed=0):
    if op == "Add":
        ad.buf.add_sample(**spell(ad.profile, args))
    elif op == "Sample":
        idx, mlen = args
        if getattr(ad, "reweighed", False):
            # priorities differ (walks): indices cannot be steered through the generator stub any more; membership only
            real_rng_sample(ad.buf, ad.kind, ad.profile, {i for i in pre["store"] if i}, seed + 3, b=len(idx))
            got = None
        else:
            got = sample_by_index(ad.buf, ad.kind, idx, mlen, ad.profile)
        if got is None:
            ad.skipped += 1
        elif got != list(exp):
            raise Mismatch(f"sampled rows {got} differ from model rows {list(exp)} for indices {idx}")
    elif op == "Len":
        if len(ad.buf) != exp[0]:
            raise Mismatch(f"len() = {len(ad.buf)}, model {exp[0]}")
        if pre is not None and pre["len"] > 0:
            real_rng_sample(ad.buf, ad.kind, ad.profile, {i for i in pre["store"] if i}, seed)
    elif op == "Reweigh":
        # priorities are invisible to the storage model: sample a batch under a real generator, write priorities
        # below / at / above the initial priority to it, and sample again - still only stored transitions
        if ad.kind != "ReplayBuffer" and pre is not None and pre["len"] > 0:
            stored = {i for i in pre["store"] if i}
            b = min(2, pre["len"])
            real_rng_sample(ad.buf, ad.kind, ad.profile, stored, seed + 1, b=b)
            ad.buf.update_priority(np.full((b,), REWEIGH[args[0]], dtype=np.float64))
            ad.reweighed = True
            real_rng_sample(ad.buf, ad.kind, ad.profile, stored, seed + 2)
    else:  # pragma: no cover
        raise AssertionError(op)


REWEIGH = {1: 1.0 / 16, 2: 1.0, 3: 4.0}


def ring_project(ad: RingAdapter):
    store, ins, ln = bufkit.project_ring(ad.buf, ad.profile)
    cnt = max(store) if store and max(store) > 0 else 0
    return {"store": store, "ins": ins, "len": ln, "cnt": cnt}


def after_first_call(G, root, first, factory, step, project, max_edges):
    """Transition coverage of the graph behind ONE first call.

    The storage is allocated by the first add_sample of an object, so how that call was spelled is state the
    implementation may keep although the model has none (all spellings lead to the same model state, and cover()
    continues from that state with the object of the first edge only).  Here the object has taken the Add edge
    `first` of the initial state - any spelling TLC chose - and every transition behind it is tested against it."""
    op, args, exp, k1 = first
    head = {"op": op, "args": args, "exp": exp}

    def fac():
        ad = factory()
        try:
            step(ad, op, args, exp, G.state[root], G.state[k1])
        except Mismatch:
            raise
        except Exception as ex:  # the code under test raised where the model defines a result
            raise Mismatch(f"exception {type(ex).__name__}: {str(ex)[:120]}", code=f"exception:{type(ex).__name__}:add_sample")
        return ad

    res = graph.cover(G, k1, fac, step, project, max_edges=max_edges)
    for v in res["violations"]:
        if v["path"] and v["path"][0]["op"] == "<construct>":  # the first call itself left the object in a wrong state
            v["path"] = [head]
            v["what"] = v["what"].replace("fresh object: ", "").replace("a freshly constructed object", "the object after its first add_sample")
            v["code"] = v["code"].replace("initial:", "")
        else:
            v["path"] = [head] + v["path"]
            v["what"] += f" (first call of the object spelled {args[1:]})"
    return res


def binding_canary():
    """A stored row whose float field lost its fraction, and a row written into the wrong fields, must be noticed."""
    ad = RingAdapter("ReplayBuffer", bufkit.profiles()[3], 2)
    try:
        ring_step(ad, "Add", [1, "pyint", 0, 0], [], None, None)
        ring_step(ad, "Add", [2, "float", 1, 1], [], None, None)
        ring_project(ad)
    except Exception:
        return  # the code under test already deviates on this history: reported by the check proper
    for corrupt in ("truncate", "misplace"):
        bad = copy.deepcopy(ad)
        x, y = bad.buf.buffer["x"], bad.buf.buffer["y"]
        if corrupt == "truncate":
            y[1] = np.trunc(y[1])
        else:
            x[1], y[1] = y[1], x[1] + 1
        try:
            ring_project(bad)
        except Mismatch:
            continue
        raise tlc.MachineryError(f"binding canary: a stored row corrupted by '{corrupt}' is not noticed by the projection")


# ---------------------------------------------------------------- multi-task
SPARSE_IDS = [8, 0, 9]  # ids that collide modulo 8 (hash-table order of a small-int set depends on insertion order)


class MTAdapter:
    """taskmap: the model's task j is the real task taskmap[j] of a buffer with max(taskmap)+1 tasks (sparse, unordered
    ids such as [8, 0, 9] of a ten-task buffer: most tasks never receive data, tasks become active in non-ascending order)"""

    def __init__(self, cls_name, profile, n, k, taskmap=None):
        from rl_blox.blox.replay_buffer import MultiTaskReplayBuffer

        self.inner = RingAdapter(cls_name, profile, n)
        self.kind = cls_name
        profile = self.profile = self.inner.profile
        self.k = k
        self.taskmap = list(taskmap) if taskmap else list(range(k))
        assert len(self.taskmap) == k and len(set(self.taskmap)) == k
        self.n_real = max(self.taskmap) + 1
        self.mt = MultiTaskReplayBuffer(self.inner.buf, self.n_real)
        if self.taskmap[0] != 0:  # the model starts with task 0 selected
            self.mt.select_task(self.taskmap[0])
        self.cnt = 0
        self.hist_len = [0] * k

    def real(self, j):
        """real task id of the model's task j (ids outside the model's range stay outside the real range)"""
        if 0 <= j < self.k:
            return self.taskmap[j]
        return j if j < 0 else self.n_real + (j - self.k)

    def model(self, t):
        return self.taskmap.index(int(t)) if int(t) in self.taskmap else f"unmapped:{int(t)}"


def mt_step(ad: MTAdapter, op, args, exp, pre, post):
    if op == "Select":
        k = args[0]
        try:
            ad.mt.select_task(ad.real(k))
            res = "ok"
        except ValueError:
            res = "ValueError"
        if res != exp:
            raise Mismatch(f"select_task({k}) -> {res}, model {exp}")
    elif op == "Add":
        ad.mt.add_sample(**spell(ad.profile, args))
        ad.cnt = args[0]
        ad.hist_len[ad.model(ad.mt.selected_task)] += 1
    elif op == "Sample":
        t, idx, mlen, active = args["task"], args["idx"], args["len"], args["active"]
        rng = bufkit.StubRng()
        rng.push("choice", ad.real(t))
        b = len(idx)
        if ad.kind == "ReplayBuffer":
            rng.push("integers", idx)
            batch = ad.mt.sample_batch(b, rng)
            c = rng.calls[-1]
            if (c[1], c[2]) != (0, mlen):
                raise Mismatch(f"samples indices from [{c[1]},{c[2]}) but task {t} has [0,{mlen})")
        elif ad.kind == "LAP":
            rng.push("uniform", lambda lo, hi, size: (np.asarray(idx) + 0.5) / mlen)
            batch = ad.mt.sample_batch(b, rng=rng)
        else:
            if b != 1:
                return
            rng.push("uniform", lambda lo, hi, size: np.asarray(idx) + 0.5)
            batch, _ = ad.mt.sample_batch(b, rng)
        offered = sorted(rng.calls[0][1])
        if offered != sorted(ad.real(x) for x in active):
            raise Mismatch(f"task drawn from {offered}, model's active set is {sorted(active)}")
        got = [ad.profile.decode_row(r) for r in bufkit.batch_rows(batch, ad.profile)]
        if got != list(exp):
            raise Mismatch(f"rows {got} differ from model rows {list(exp)} (task {t}, indices {idx})")
    elif op == "Len":
        if len(ad.mt) != exp[0]:
            raise Mismatch(f"len() = {len(ad.mt)}, model {exp[0]}")
    else:  # pragma: no cover
        raise AssertionError(op)


def mt_project(ad: MTAdapter):
    bufs = {}
    if len(ad.mt.buffers) != ad.n_real:
        raise Mismatch(f"{len(ad.mt.buffers)} per-task buffers for {ad.n_real} tasks")
    for t, b in enumerate(ad.mt.buffers):
        store, ins, ln = bufkit.project_ring(b, ad.profile)
        if t in ad.taskmap:
            bufs[str(ad.taskmap.index(t))] = {"store": store, "ins": ins, "len": ln}
        elif ln != 0 or ins != 0:
            raise Mismatch(f"task {t} was never selected but holds {ln} transitions")
    bufs = {str(j): bufs[str(j)] for j in range(ad.k)}
    return {
        "bufs": bufs,
        "sel": ad.model(ad.mt.selected_task),
        "active": sorted((ad.model(x) for x in ad.mt.active_buffers), key=str),
        "lens": {str(t): ad.hist_len[t] for t in range(ad.k)},
        "cnt": ad.cnt,
    }


def run(rep):
    quick = rep.tier == "quick"
    tlc.sany("Ring")
    tlc.sany("MultiTask")
    caps = [1, 2, 3] if quick else [1, 2, 3, 4, 5]
    rep.rule = (
        "TLC enumerates the complete reachable state graph of Ring (N in %s, adds <= 2N+2, batch <= 2) and MultiTask, every add_sample "
        "call spelled in every way of the spec's Spellings (value form of float fields: float / Python int / int64 / uint8 / jax int32, "
        "integral or fractional values, keyword order declared / reversed / equal shapes exchanged); "
        "every transition (distinct pre-state, operation, arguments) is replayed once into each real buffer class x field profile, "
        "and the graph is covered again behind every other spelling of an object's first call; "
        "a case is non-trivial when the pre-state is non-empty" % caps
    )
    edges_total = 0
    nontrivial = 0
    binding_canary()
    # every add_sample call is spelled in every way the specification lists (value form x fractional x keyword order;
    # quick: one dimension at a time)
    ring_next = "NextCalls" if quick else "NextCallsFull"
    first_calls = 0
    for n in caps:
        c = dict(N=n, MaxAdds=2 * n + 2, MaxBatch=2, EMIT=False)
        r = tlc.run("Ring", tlc.cfg_text(next=ring_next, constants=c, invariants=RING_INVS), coverage=True, tag=f"ring{n}")
        rep.add_tlc(r, f"Ring N={n} invariants")
        if not r.ok:
            rep.violation(f"spec:Ring:{r.violated}", f"design-level violation of {r.violated} in Ring N={n}", r.error_trace)
            continue
        tlc.require_covered(r, ["AddAs"])
        c["EMIT"] = True
        g = tlc.run("Ring", tlc.cfg_text(next=ring_next, constants=c), workers=1, tag=f"ringgen{n}")
        G = graph.Graph(g.emitted)
        root = G.roots()[0]
        firsts = [e for e in G.out[root] if e[0] == "Add"]
        if len({canon_args(e[1][1:]) for e in firsts}) != len(firsts) or len(firsts) < 10:
            raise tlc.MachineryError(f"Ring N={n}: {len(firsts)} spellings of the first call emitted")
        for cls in _classes():
            for pi, prof in enumerate(bufkit.profiles()):
                res = graph.cover(
                    G,
                    root,
                    lambda: RingAdapter(cls, prof, n),
                    lambda o, op, a, e, pre, post: ring_step(o, op, a, e, pre, post, rep.seed),
                    ring_project,
                )
                edges_total += res["edges_tested"]
                rep.traces += res["edges_tested"]
                # histories on one live object (priority writes and samples interleaved with additions)
                wres = graph.walks(G, root, lambda: RingAdapter(cls, prof, n),
                                   lambda o, op, a, e, pre, post: ring_step(o, op, a, e, pre, post, rep.seed), ring_project,
                                   n=12, max_len=4 * n + 8, seed=rep.seed + n)
                rep.traces += wres["walks"]
                res["violations"] += wres["violations"]
                # the whole graph again behind every other spelling of the FIRST call (cover() continues with firsts[0])
                if (n == 2 and pi != 1) or not quick:
                    for first in firsts[1:]:
                        fres = after_first_call(G, root, first, lambda: RingAdapter(cls, prof, n),
                                                lambda o, op, a, e, pre, post: ring_step(o, op, a, e, pre, post, rep.seed),
                                                ring_project, max_edges=26 if quick else 60)
                        edges_total += fres["edges_tested"]
                        rep.traces += fres["edges_tested"]
                        first_calls += 1
                        res["violations"] += fres["violations"]
                for v in res["violations"]:
                    rep.violation(
                        f"{cls}:{v['path'][-1]['op']}:{v['code']}",
                        f"{cls} (N={n}, profile {prof.name}): {v['what']}",
                        {"class": cls, "N": n, "profile": prof.name, "path": v["path"], "detail": v["detail"]},
                    )
        nontrivial += sum(1 for k, es in G.out.items() for e in es if G.state[k]["len"] > 0)
        rep.sample({"N": n, "transition": g.emitted[min(len(g.emitted) - 1, 7 * n)]})
    # canary: the wrap deviation must be refuted
    c = dict(N=2, MaxAdds=6, MaxBatch=1, EMIT=False)
    r = tlc.run("Ring", tlc.cfg_text(next="NextBad", constants=c, invariants=["Fifo"]), tag="ringbad")
    if r.violated != "Fifo":
        raise tlc.MachineryError("canary: off-by-one wrap deviation not refuted by Fifo")
    rep.extra["first_call_spellings_covered"] = first_calls

    # multi-task
    # three tasks are needed to tell per-task copies from one shared copy for tasks >= 1
    mts = [(2, 2, 5), (3, 2, 4)] if quick else [(2, 2, 6), (3, 2, 5), (2, 3, 7)]
    for mi, (k, n, m) in enumerate(mts):
        # spelled add_sample calls (every task's ring allocates on the first call routed to it); quick: first configuration
        spelled_mt = mi == 0 or not quick
        mt_next = "NextCalls" if spelled_mt else "Next"
        c = dict(K=k, N=n, MaxAdds=m, MaxBatch=2, EMIT=False)
        r = tlc.run("MultiTask", tlc.cfg_text(next=mt_next, constants=c, invariants=MT_INVS, properties=["TaskIsolation"]), coverage=True, tag="mt")
        rep.add_tlc(r, f"MultiTask K={k} N={n}")
        if not r.ok:
            rep.violation(f"spec:MultiTask:{r.violated}", f"design-level violation {r.violated}", r.error_trace)
            continue
        tlc.require_covered(r, ["AddAs" if spelled_mt else "Add", "Select"])
        c["EMIT"] = True
        g = tlc.run("MultiTask", tlc.cfg_text(next=mt_next, constants=c), workers=1, tag="mtgen")
        G = graph.Graph(g.emitted)
        root = G.roots()[0]
        for cls in _classes():
            for prof in bufkit.profiles()[:2] if quick else bufkit.profiles():
                # the same graph on dense ids 0..K-1 and (default profile) on sparse, unordered ids of a ten-task buffer
                for tm in (None, SPARSE_IDS[:k]) if prof.name == "default" else (None,):
                    res = graph.cover(G, root, lambda: MTAdapter(cls, prof, n, k, tm), mt_step, mt_project)
                    edges_total += res["edges_tested"]
                    rep.traces += res["edges_tested"]
                    for v in res["violations"]:
                        rep.violation(
                            f"MultiTask[{cls}]:{v['path'][-1]['op']}:{v['code']}",
                            f"MultiTaskReplayBuffer of {cls} (K={k}, N={n}{', task ids ' + str(tm) if tm else ''}): {v['what']}",
                            {"class": cls, "K": k, "N": n, "profile": prof.name, "taskmap": tm, "path": v["path"], "detail": v["detail"]},
                        )
        nontrivial += sum(1 for kk, es in G.out.items() for e in es if G.state[kk]["cnt"] > 0)
        rep.sample({"multitask": g.emitted[len(g.emitted) // 2]})
    c = dict(K=2, N=2, MaxAdds=3, MaxBatch=1, EMIT=False)
    r = tlc.run("MultiTask", tlc.cfg_text(next="NextBad", constants=c, invariants=["ActiveHasData"]), tag="mtbad")
    if r.violated != "ActiveHasData":
        raise tlc.MachineryError("canary: wrong-active-set deviation not refuted")

    if not quick:
        # long random behaviours beyond the exhaustive bound
        c = dict(N=4, MaxAdds=60, MaxBatch=2, EMIT=True)
        g = tlc.run("Ring", tlc.cfg_text(next="NextCallsFull", constants=c), workers=1, simulate="num=40", depth=80, seed=rep.seed + 1, tag="ringsim")
        G = graph.Graph(g.emitted)
        for cls in _classes():
            res = graph.cover(G, G.roots()[0], lambda: RingAdapter(cls, bufkit.default_profile(), 4), ring_step, ring_project)
            rep.traces += res["edges_tested"]
            for v in res["violations"]:
                rep.violation(f"{cls}:{v['path'][-1]['op']}:{v['code']}", f"{cls} long run: {v['what']}", {"class": cls, "N": 4, "path": v["path"]})
        rep.extra["simulated_transitions"] = G.n_edges

    rep.evaluations = edges_total
    rep.distinct = nontrivial
    rep.exhaustive = True
    rep.assumptions += [
        "capacities beyond the bound are not explored (small-scope)",
        "PrioritizedReplayBuffer index-directed sampling only for batch size 1 (strata); larger batches by membership under a real generator",
        "spellings of add_sample: quick tier varies value form and keyword order one at a time (SpellingsPairwise), integer / bool fields always receive Python ints; the graph behind a non-default first call is covered to a bounded depth",
        "trusted: harness/bufkit.py id coding and projection, TLC",
    ]


def replay(path, rep):
    import json

    d = json.load(open(path))["replay"]
    prof = {p.name: p for p in bufkit.profiles()}[d.get("profile", "default")]
    if "K" in d:
        ad = MTAdapter(d["class"], prof, d["N"], d["K"], d.get("taskmap"))
        step, proj = mt_step, mt_project
    else:
        ad = RingAdapter(d["class"], prof, d["N"])
        step, proj = ring_step, ring_project
    try:
        for st in d["path"]:
            step(ad, st["op"], st["args"], st.get("exp"), None, None)
            print(st["op"], st["args"], "->", proj(ad))
    except Mismatch as m:
        print("VIOLATION property=C02 replay=" + path)
        print("  ", m.what)
        return 1
    return 0
