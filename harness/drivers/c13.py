"""C13 - THROW-AWAY development wrapper around c13_heads (the coordinator replaces this file)."""
from . import c13_heads

LEVEL = "model_checking"
MANIFEST = dict(
    category="model_checking",
    text="development wrapper",
    note="",
    technique="TLA+ spec + TLC; replay of TLC-generated vectors",
)


def run(rep):
    c13_heads.run_heads(rep)


def replay(path, rep):
    import json

    d = json.load(open(path))["replay"]
    rc = c13_heads.replay_heads(d, rep)
    if rc:
        print("VIOLATION property=C13 replay=" + path)
    return rc
