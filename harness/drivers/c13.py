"""C13 - policy heads: sampling, log-probability and entropy describe one distribution; greedy / exploration discipline."""
from .. import sweep, tlc
from . import c13_heads

LEVEL = "model_checking"
MANIFEST = dict(
    category="model_checking",
    text="Heads.tla (with Forms.tla: exact linear forms over named constants) specifies softmax / Gaussian / tanh-Gaussian / deterministic heads and the greedy / epsilon-greedy selectors on a lattice where every value is an exact form; TLC checks the one-distribution laws (normalisation, log-prob = log of entry, entropy closed form, standardised-noise invariance, greedy is a maximiser, epsilon 0 / 1) and totality over un-batched and batched shapes; every lattice vector is replayed into the real heads (eager and jitted). The loop clause is decided on recorded runs of the value-based routines with epsilon interposed to 0, 1 and the routine's own schedule: LoopTrace.tla checks GreedyIsMaximiser, GreedyOnCurrentEstimate, ChosenActionPassed, EpsilonZeroAlwaysGreedy, EpsilonOneNeverGreedy, PolicyBeforeWarmup.",
    note="values off the lattice (arbitrary logits, general mean/sigma) are not decided; transcendental forms compared with counted rounding bounds; trusted: stub networks, form evaluation in float64, recording wrappers, TLC",
    technique="TLA+ spec + TLC on an exact-form lattice, replayed into the real heads; trace validation of recorded training runs for the exploration discipline",
)


def run(rep):
    c13_heads.run_heads(rep)
    for m in ("LoopClauses", "LoopTrace"):
        tlc.sany(m)
    traces, out = sweep.report_property(rep, "C13")
    vb = [t for t in traces if any(e["ev"] == "policy" and "chosen" in e for e in t["events"])]
    rep.extra["loop_clause"] = {"runs_with_greedy_probe": len(vb), "greedy_evaluations": sum(1 for t in vb for e in t["events"] if e["ev"] == "policy")}
    if not vb:
        raise tlc.MachineryError("no recorded run exercises the greedy probe (vacuous loop clause)")


def replay(path, rep):
    import json

    d = json.load(open(path))["replay"]
    if isinstance(d, dict) and d.get("kind") == "sweep":
        rc = sweep.replay_one(d, "C13")
    else:
        rc = c13_heads.replay_heads(d, rep)
    if rc:
        print("VIOLATION property=C13 replay=" + path)
    return rc
