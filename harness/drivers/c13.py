"""C13 - policy heads: sampling, log-probability and entropy describe one distribution; greedy / exploration discipline."""
from .. import sweep, tlc
from . import c13_heads

LEVEL = "model_checking"
MANIFEST = dict(
    category="model_checking",
    text="Heads.tla (with Forms.tla: exact linear forms over named constants) specifies softmax / Gaussian / tanh-Gaussian / deterministic heads and the greedy / epsilon-greedy selectors on a lattice where every value is an exact form; TLC checks the one-distribution laws (normalisation, log-prob = log of entry, entropy closed form, standardised-noise invariance, greedy is a maximiser, epsilon 0 / 1) and totality over un-batched and batched shapes; every lattice vector is replayed into the real heads (eager and jitted). The greedy selectors (tabular greedy, network greedy, epsilon-greedy with epsilon 0 under several keys) are also specified on near-ties: Q rows of float32 numbers 0-3 ulps apart at magnitudes 2^-40 .. 1000, both signs, across a binade and next to zero, written as float32 ordinals on which TLC decides the maximiser set exactly (any maximiser is accepted on exact ties; deviation canary: a fixed-size tie-breaking jitter). The loop clause is decided on recorded runs of the value-based routines with epsilon interposed to 0, 1 and the routine's own schedule: LoopTrace.tla checks GreedyIsMaximiser, GreedyOnCurrentEstimate, ChosenActionPassed, EpsilonZeroAlwaysGreedy, EpsilonOneNeverGreedy, PolicyBeforeWarmup, and ExecutedActionGreedy: with exploration probability 0 every action the environment receives is a maximiser (decided by TLC on float32 ordinals) of the routine's current table / live online network at the observation the environment returned last, read at execution time - also on a scripted environment with self-transitions and negative rewards, where an update changes the maximiser of the row the agent is still in. The design model Loop.tla carries the same clause as the guard of PolicyAct (invariant ExecutedActionGreedy) and refutes the deviation ActOnStaleChoice (execute the choice made before the update).",
    note="values off the lattice (arbitrary logits, general mean/sigma, subnormal Q-values) are not decided; transcendental forms compared with counted rounding bounds; executed actions are judged for the tabular routines and the DQN family (the routines whose adapter can read the current estimate), with epsilon 0 only; trusted: stub networks, form evaluation in float64, recording wrappers (incl. the adapter's notion of the current table: the one most recently returned by the learner), TLC",
    technique="TLA+ spec + TLC on an exact-form lattice, replayed into the real heads; TLC on the design model Loop.tla (strict + deviation canary); trace validation of recorded training runs for the exploration discipline",
)


def _eps_zero(t, executed_before):
    """Mirror of LoopTrace!Eps4 = 0 /\\ past warm-up, for the evidence counters only (verdicts come from TLC)."""
    c = t["cfg"]
    idx = c.get("start", 0) + executed_before
    sw = c.get("eps_switch", -1)
    e4 = (4 if idx < sw else 0) if sw >= 0 else c.get("epsilon4", -1)
    return e4 == 0 and idx >= c.get("warmact", -1)


def _maxset(qrow):
    m = max(qrow)
    return [i for i, v in enumerate(qrow) if v == m]


def executed_stats(traces):
    """Counters over the recorded runs: executed actions that carry the current estimate and are judged (epsilon 0), and
    self-transitions whose update changed the arg-max set of the row the agent stayed in (the situation in which a choice
    made before the update differs from one made after it)."""
    judged, flips, selfs, flip_runs = 0, 0, 0, []
    for t in traces:
        if t.get("error"):
            continue
        last, prev, n = None, None, 0  # observation returned last, previous step event (same episode), executed steps
        for e in t["events"]:
            if e["ev"] == "reset" and e.get("env", 0) == 0:
                last, prev = e["obs"], None
            elif e["ev"] == "step" and e.get("env", 0) == 0:
                if e.get("has_q") and _eps_zero(t, n):
                    judged += 1
                    if prev is not None and prev["self"] and prev.get("has_q") and _maxset(prev["qrow"]) != _maxset(e["qrow"]):
                        flips += 1
                        if t["id"] not in flip_runs:
                            flip_runs.append(t["id"])
                is_self = last is not None and e["obs"] == last
                selfs += int(is_self)
                prev = None if (e["term"] or e["trunc"]) else dict(e, self=is_self)
                last = e["obs"]
                n += 1
    return dict(executed_actions_judged=judged, self_transitions=selfs, self_transition_updates_changing_argmax=flips, runs_with_such_updates=flip_runs)


def binding_canary_executed(traces):
    """Replace one executed action of a recorded epsilon-0 run by a non-maximiser of the recorded current estimate:
    LoopTrace must name ExecutedActionGreedy."""
    import copy

    from .. import loopbind

    for t in traces:
        if t.get("error"):
            continue
        n = 0
        for i, e in enumerate(t["events"]):
            if e["ev"] != "step":
                continue
            if e.get("has_q") and _eps_zero(t, n) and len(_maxset(e["qrow"])) < len(e["qrow"]):
                bad = copy.deepcopy(t)
                bad["id"] = "canary"
                bad["events"][i]["act"] = min(a for a in range(len(e["qrow"])) if a not in _maxset(e["qrow"]))
                out, r, _ = loopbind.validate([bad], tag="canaryx")
                if "ExecutedActionGreedy" not in {c for _, c in out["canary"]["viol"]}:
                    raise tlc.MachineryError("binding canary: an executed non-maximiser was not rejected by clause ExecutedActionGreedy")
                return t["id"]
            n += 1
    raise tlc.MachineryError("binding canary: no epsilon-0 step with a recorded current estimate")


def run(rep):
    c13_heads.run_heads(rep)
    for m in ("LoopClauses", "Loop", "LoopTrace"):
        tlc.sany(m)
    # design model: PolicyAct is guarded by the clause operator; ActOnStaleChoice must be refuted by ExecutedActionGreedy
    sweep.design_model(rep, "C13", rep.tier == "quick")
    traces, out = sweep.report_property(rep, "C13")
    vb = [t for t in traces if any(e["ev"] == "policy" and "chosen" in e for e in t["events"])]
    rep.extra["loop_clause"] = {"runs_with_greedy_probe": len(vb), "greedy_evaluations": sum(1 for t in vb for e in t["events"] if e["ev"] == "policy")}
    if not vb:
        raise tlc.MachineryError("no recorded run exercises the greedy probe (vacuous loop clause)")
    st = executed_stats(traces)
    rep.extra["loop_clause"].update(st)
    if not st["executed_actions_judged"]:
        raise tlc.MachineryError("no executed action of an epsilon-0 run carries the routine's current estimate (vacuous ExecutedActionGreedy)")
    if not st["self_transition_updates_changing_argmax"]:
        raise tlc.MachineryError("no recorded epsilon-0 run contains a self-transition whose update changed the arg-max set of the row "
                                 "(scenario E0S lost its point: a stale choice could not be told from a current one)")
    rep.extra["loop_clause"]["binding_canary_on"] = binding_canary_executed(traces)


def replay(path, rep):
    import json

    d = json.load(open(path))["replay"]
    if isinstance(d, dict) and d.get("kind") == "sweep":
        rc = sweep.replay_one(d, "C13")
    else:
        rc = c13_heads.replay_heads(d, rep)
    if rc:
        print("VIOLATION property=C13 replay=" + path)
    return rc
