"""C07 - learning signals a training routine computes from ITS OWN buffer (helper of drivers/c07.py).

spec/ReturnsA2CRollout.tla: A2C rollouts.  A scripted vector environment emits (terminated, truncated) flags chosen by
TLC - every pattern on a small T x N lattice -, a2c.collect_trajectories writes them to the rollout buffer,
prepare_a2c_batch reads the buffer.  The advantages / returns are compared (exactly) with the GAE recurrence TLC
evaluated on the sequences the environment EMITTED (its own log), block by block, in two set-ups: collect_trajectories
+ prepare_a2c_batch called as train_a2c calls them, and the real train_a2c with recorders in place of
train_policy_a2c / train_value_function (what they are handed are the learning signals).

spec/ReturnsMRQ.tla + ReturnsMRQTrace.tla: MR.Q.  The real train_mrq (tiny networks, its own replay buffer) runs on
harness.envs.ScriptEnv with several (encoder_horizon, q_horizon) pairs incl. q_horizon > encoder_horizon + 1 and
episodes that end by truncation; every batch handed to update_critic_and_policy / update_model_based_encoder is
recorded, the critic batches additionally go through the real mrq_loss (stub critics, reward scales 1).  TLC judges
every recorded window against the environment's own log (run of one episode up to its first termination) and prints the
n-step return / residual discount / critic target that follow from that log.
"""
from __future__ import annotations

import inspect
import json
import os
import uuid
from fractions import Fraction

import numpy as np

from .. import exact, tlc


# short TLC runs (canaries, trace validation): C1 compiler only, two GC threads - a third of the CPU time of the default JVM
FAST_JVM = {"JAVA_TOOL_OPTIONS": "-Xmx2g -XX:TieredStopAtLevel=1 -XX:ParallelGCThreads=2 -XX:CICompilerCount=1"}


def _base():
    from . import c07

    return c07


# =============================================================== A2C rollouts (ReturnsA2CRollout.tla)
A2C_INVS = ["TypeOK", "EstimatesObeyEmittedRecurrence", "TruncationIsNoCut", "BufferKeepsEmittedFlags", "ValueSeparates"]
A2C_ACTIONS = ["ChooseBlocking", "CollectStep", "PrepareA2CBatch", "Finish"]
# (variant, invariant that must refute it)
A2C_DEVS = (("done_as_termination", "EstimatesObeyEmittedRecurrence"), ("reader_cuts_at_truncations", "TruncationIsNoCut"))
A2C_SETUPS = ("direct", "train_a2c")
A2C_SETUP_TEXT = {"direct": "collect_trajectories + prepare_a2c_batch called block by block as train_a2c calls them",
                  "train_a2c": "train_a2c (advantages handed to train_policy_a2c, returns handed to train_value_function)"}
A2C_KEY = "a2c.rollout"


def a2c_consts(n, t, bss, codes, ngl, seed, emit, variant="spec"):
    return dict(EMIT=emit, N=n, T=t, BlockSizes=set(bss), FlagCodes=set(codes), NGL=ngl, Seed=int(seed) % 32768, Variant=variant)


def eval_a2c_rollout(rec, setup, gl):
    """Run the rollout TLC specified (flags, rewards, value table) in one set-up; gl: indices into rec['gls'].
    -> {"blocks": [{"est": {j: (obs tags, adv, ret)}, "cols": buffer columns}], "log": what the environment emitted}"""
    import jax
    import jax.numpy as jnp
    from rl_blox.algorithm import a2c

    b = _base()
    n, T = rec["n"], rec["steps"]
    rew = [[b.qf(c["rew"]) for c in row] for row in rec["script"]]
    term = [[c["term"] for c in row] for row in rec["script"]]
    trunc = [[c["trunc"] for c in row] for row in rec["script"]]
    env = b.ScriptedVecEnv(rew, term, trunc_tn=trunc)
    vf = b.table_fn([b.qf(v) for v in rec["vtab"]])
    policy = b.ZeroPolicy(n, True)
    blocks = []
    out = {"blocks": blocks, "log": env.log}

    def cols(buf):
        return {k: np.array(buf.buffer[k]).astype(int).tolist() for k in ("terminations", "truncations") if k in buf.buffer}

    try:
        if setup == "direct":
            key = jax.random.key(1)
            last, _ = env.reset(seed=1)
            last, gstep = jnp.array(last), 0
            for bs in rec["blocking"]:
                key, sub = jax.random.split(key)
                buf, last, gstep, _ = a2c.collect_trajectories(env, policy, sub, last, int(bs), None, gstep)
                blk = {"cols": cols(buf), "est": {}}
                for j in gl:
                    g, l = (b.qf(x) for x in rec["gls"][j])
                    obs, _, adv, ret = a2c.prepare_a2c_batch(buf, vf, last, env.single_action_space, g, l)
                    blk["est"][j] = (np.asarray(obs).reshape(-1).tolist(), np.asarray(adv), np.asarray(ret))
                blocks.append(blk)
        else:
            (j,) = gl
            g, l = (b.qf(x) for x in rec["gls"][j])
            real_c, real_p, real_v = a2c.collect_trajectories, a2c.train_policy_a2c, a2c.train_value_function
            sig_p, sig_v = inspect.signature(real_p), inspect.signature(real_v)

            def collect(*a, **k):
                res = real_c(*a, **k)
                blocks.append({"cols": cols(res[0]), "est": {}})
                return res

            def train_policy(*a, **k):
                ba = sig_p.bind(*a, **k).arguments
                blocks[-1]["obs"], blocks[-1]["adv"] = np.asarray(ba["observations"]).reshape(-1).tolist(), np.asarray(ba["advantages"])
                return 0.0

            def train_value(*a, **k):
                ba = sig_v.bind(*a, **k).arguments
                blocks[-1]["ret"] = np.asarray(ba["returns"])
                return 0.0

            a2c.collect_trajectories, a2c.train_policy_a2c, a2c.train_value_function = collect, train_policy, train_value
            try:
                a2c.train_a2c(env, policy, None, vf, None, seed=1, total_timesteps=T * n, gamma=g, gae_lambda=l,
                              steps_per_update=int(rec["blocking"][0]), log_frequency=None, logger=None, progress_bar=False)
            finally:
                a2c.collect_trajectories, a2c.train_policy_a2c, a2c.train_value_function = real_c, real_p, real_v
            for blk in blocks:
                if "adv" in blk and "ret" in blk:
                    blk["est"][j] = (blk["obs"], blk["adv"], blk["ret"])
    except Exception as e:  # noqa: BLE001 - raised by the code under test
        out["error"] = b._exc(e)
    return out


def _flags(rec):
    return [[c["term"] + 2 * c["trunc"] for c in row] for row in rec["script"]]


def check_a2c_rollout(rec, setup="direct", gl=(0,), corrupt=False):
    """-> Problems for one TLC-emitted A2C rollout in one set-up.  corrupt=True perturbs one expected advantage."""
    b = _base()
    probs = b.Problems()
    gl = list(gl)
    if corrupt:
        rec = json.loads(json.dumps(rec))
        x = rec["blocks"][0]["flat"][0]["est"][gl[0]]["adv"]
        rec["blocks"][0]["flat"][0]["est"][gl[0]]["adv"] = [x[0] * 2 + 3 * x[1], x[1] * 2]
    out = eval_a2c_rollout(rec, setup, gl)
    ctx = (f"{A2C_SETUP_TEXT[setup]}; {rec['n']} environments x {rec['steps']} vector steps in blocks {rec['blocking']}, flags emitted per step and "
           f"environment (1 = terminated, 2 = truncated, 3 = both) {_flags(rec)}")
    if "error" in out:
        probs.add(f"{A2C_KEY}:raises", f"{ctx}: {out['error']}")
        return probs
    want_log = [{"rew": [b.qf(c["rew"]) for c in row], "term": [c["term"] for c in row], "trunc": [c["trunc"] for c in row]} for row in rec["script"]]
    if out["log"] != want_log:
        raise tlc.MachineryError(f"scripted vector environment did not emit the specified script: {out['log']} vs {want_log}")
    if len(out["blocks"]) != len(rec["blocks"]):
        probs.add(f"{A2C_KEY}:collection_calls", f"{ctx}: {len(out['blocks'])} collect_trajectories calls, specification {len(rec['blocks'])}")
        return probs
    for bi, (sb, gb) in enumerate(zip(rec["blocks"], out["blocks"])):
        fl = sb["flat"]
        # diagnosis only (the verdict is on the estimates): does the buffer column the GAE is cut with hold what was emitted?
        col = gb.get("cols", {}).get("terminations")
        emitted_term = [[x["term"] for x in fl if x["t"] == t + 1] for t in range(sb["bs"])]
        emitted_done = [[max(x["term"], x["trunc"]) for x in fl if x["t"] == t + 1] for t in range(sb["bs"])]
        note = ""
        if col is not None and col != emitted_term:
            note = (f"; the rollout buffer column 'terminations' of this call is {col}, the environment emitted terminated = {emitted_term}"
                    + (" (the column equals terminated OR truncated)" if col == emitted_done else ""))
        for j in gl:
            g, l = (exact.q(x) for x in rec["gls"][j])
            where = f"{ctx}; collection call {bi + 1}, gamma={g}, lambda={l}"
            if j not in gb["est"]:
                probs.add(f"{A2C_KEY}:no_estimates", f"{where}: no advantages / returns were handed on for this block")
                continue
            obs, adv, ret = gb["est"][j]
            if [int(round(o)) for o in obs] != [x["obs"] for x in fl]:
                probs.add(f"{A2C_KEY}:layout", f"{where}: flat observations {obs} are not the time-major rollout {[x['obs'] for x in fl]}")
                continue
            adv, ret = np.asarray(adv).reshape(-1), np.asarray(ret).reshape(-1)
            if adv.shape != (len(fl),) or ret.shape != (len(fl),):
                probs.add(f"{A2C_KEY}:shape", f"{where}: advantages {adv.shape} / returns {ret.shape} for {len(fl)} transitions")
                continue
            bad = next((i for i, x in enumerate(fl) if not exact.eq(float(adv[i]), x["est"][j]["adv"])), None)
            if bad is not None:
                x = fl[bad]
                e = x["est"][j]
                what = (f"{where}: advantage of environment {x['env']} step {x['t']} = {float(adv[bad])!r}; the GAE recurrence on the reward / value / "
                        f"terminated sequences this environment emitted gives {exact.q(e['adv'])} (all: {adv.tolist()} vs {[str(exact.q(y['est'][j]['adv'])) for y in fl]})")
                as_done = all(exact.eq(float(adv[i]), y["est"][j]["devadv"]) for i, y in enumerate(fl))
                if as_done:
                    probs.add(f"{A2C_KEY}:truncated_step_cut_like_terminated",
                              what + "; every advantage of the block equals the recurrence with (terminated OR truncated) in place of terminated: bootstrapping and "
                              "accumulation are cut at a step that was only truncated (terminated_t = 0)" + note)
                else:
                    probs.add(f"{A2C_KEY}:advantages", what + note)
                continue  # the returns deviate as a consequence
            bad = next((i for i, x in enumerate(fl) if not exact.eq(float(ret[i]), x["est"][j]["ret"])), None)
            if bad is not None:
                x = fl[bad]
                probs.add(f"{A2C_KEY}:returns", f"{where}: return of environment {x['env']} step {x['t']} = {float(ret[bad])!r}; advantage + value = "
                          f"{exact.q(x['est'][j]['ret'])}" + note)
    return probs


def a2c_discriminates(rec):
    """the rollout tells 'a truncated step is cut like a terminated one' apart from the specification"""
    return any(e["adv"] != e["devadv"] for sb in rec["blocks"] for x in sb["flat"] for e in x["est"])


EXHAUSTIVE_UP_TO = 256  # lattices with at most this many flag patterns: every single-call rollout is replayed


def select_a2c(recs, seed, budget):
    """every rollout in one collection call of the lattices with <= EXHAUSTIVE_UP_TO flag patterns; of the others (several
    collection calls, larger lattices) per lattice a greedy cover of the step classes TLC lists (flag code per environment,
    at a block end or not) + a seeded sample up to the budget"""
    recs = sorted(recs, key=lambda r: json.dumps([r["n"], r["steps"], r["blocking"], _flags(r)]))
    single = {}
    for r in recs:
        if len(r["blocking"]) == 1:
            single[(r["n"], r["steps"])] = single.get((r["n"], r["steps"]), 0) + 1
    exh = [i for i, r in enumerate(recs) if len(r["blocking"]) == 1 and single[(r["n"], r["steps"])] <= EXHAUSTIVE_UP_TO]
    inexh = set(exh)
    left = [i for i in range(len(recs)) if i not in inexh]
    cls = lambda r: {(r["n"], r["steps"], json.dumps(c)) for c in r["classes"]}  # noqa: E731
    want = set().union(*[cls(recs[i]) for i in left]) if left else set()
    cover = []
    while want:
        best = max(left, key=lambda i: len(want & cls(recs[i])))
        want -= cls(recs[best])
        cover.append(best)
        left.remove(best)
    rng = np.random.default_rng([int(seed), 710])
    extra = max(0, min(len(left), budget - len(A2C_SETUPS) * len(cover)))
    sample = [left[i] for i in sorted(rng.choice(len(left), size=extra, replace=False))] if extra else []
    return [recs[i] for i in exh], [recs[i] for i in cover], [recs[i] for i in sample]


def run_a2c_rollouts(rep, recs, budget):
    """binding canary + replay; returns the number of runs"""
    exh, cover, sample = select_a2c(recs, rep.seed, budget)
    ngl = len(recs[0]["gls"])
    # binding canary on a rollout the implementation handles as specified
    for v in (exh + cover)[3::11][:6]:
        if check_a2c_rollout(v, "direct", [0]):
            continue
        if not check_a2c_rollout(v, "direct", [0], corrupt=True):
            raise tlc.MachineryError("binding canary: corrupted expected advantage of an A2C rollout went unnoticed")
        break
    plan = [(v, "direct", list(range(ngl))) for v in exh]
    plan += [(v, "train_a2c", [i % ngl]) for i, v in enumerate(exh) if (i + rep.seed) % 8 == 0]
    plan += [(v, su, [i % ngl] if su == "train_a2c" else list(range(ngl))) for i, v in enumerate(cover) for su in A2C_SETUPS]
    plan += [(v, A2C_SETUPS[i % 2], [i % ngl]) for i, v in enumerate(sample)]
    telling = sum(1 for v, _, _ in plan if a2c_discriminates(v))
    if not telling:
        raise tlc.MachineryError("A2C rollouts: no replayed rollout tells 'truncated step cut like a terminated one' apart from the specification")
    for v, su, gl in plan:
        for pr in check_a2c_rollout(v, su, gl):
            rep.violation(pr["key"], pr["what"], {"mode": "a2c_rollout", "record": v, "setup": su, "gl": gl})
    trunc_only = [v for v, _, _ in plan if any(c == 2 for row in _flags(v) for c in row)]
    rep.extra["a2c_rollouts"] = {"specified": len(recs), "exhaustive_class": len(exh), "cover": len(cover), "sample": len(sample), "runs": len(plan),
                                 "runs_per_setup": {su: sum(1 for _, x, _ in plan if x == su) for su in A2C_SETUPS},
                                 "collection_calls": sum(len(v["blocks"]) for v, _, _ in plan),
                                 "estimate_evaluations": sum(len(v["blocks"]) * len(gl) for v, _, gl in plan),
                                 "with_a_step_truncated_but_not_terminated": len(trunc_only),
                                 "telling_truncation_cut_apart": telling,
                                 "step_classes": len({(r["n"], r["steps"], json.dumps(c)) for r in recs for c in r["classes"]})}
    if trunc_only:
        v = trunc_only[len(trunc_only) // 2]
        rep.sample({"operation": "a2c rollout", "flags": _flags(v), "blocking": v["blocking"], "gls": v["gls"], "first_block": v["blocks"][0]["flat"][:4]})
    return len(plan)


# =============================================================== MR.Q runs (ReturnsMRQ.tla / ReturnsMRQTrace.tla)
MRQ_INVS = ["TypeOK", "CriticWindowsOwnEpisode", "EncoderWindowsOwnEpisode", "CriticTargetIsTheEpisodesOwn"]
# (variant, invariant that must refute it); NoStartEver is the reachability canary (admissible starts exist)
MRQ_DEVS = (("encoder_horizon_only", "CriticWindowsOwnEpisode"), ("q_horizon_only", "EncoderWindowsOwnEpisode"), ("spec", "NoStartEver"))
QK2 = 1024.0  # constant prediction of the stub critics in the eager mrq_loss (target = QK2 - |td|)
_MRQ = {"installed": False, "sink": None, "mode": "stub", "critic": None, "encoder": None, "noop": None}


def mrq_consts(ehs, qhs, cap, steps, variant="spec"):
    return dict(EMIT=False, EHs=set(ehs), QHs=set(qhs), Cap=cap, MaxSteps=steps, Variant=variant)


def _install_mrq_recorders():
    """Interpose on the names train_mrq / mrq_loss look up at call time:
      mrq.discounted_n_step_return   records the (return, discount) the loss computes (also inside jitted code)
      mrq.update_critic_and_policy   records the critic batch; runs the real mrq_loss on it with stub critics (reward
                                     scales 1: exact); mode "real": then the real update, mode "stub": returns unit td errors
      mrq.update_model_based_encoder records the encoder batches; mode "real": then the real update"""
    import jax
    import jax.numpy as jnp
    from flax import nnx
    from rl_blox.algorithm import mrq

    if _MRQ["installed"]:
        return
    if "wrappers" in _MRQ:  # created once per process: traces compiled with them are re-used by later runs
        mrq.discounted_n_step_return, mrq.update_critic_and_policy, mrq.update_model_based_encoder = _MRQ["wrappers"]
        _MRQ["installed"] = True
        return
    real_nstep, real_update, real_enc = mrq.discounted_n_step_return, mrq.update_critic_and_policy, mrq.update_model_based_encoder
    sig_u, sig_e = inspect.signature(real_update), inspect.signature(real_enc)

    def nstep(*a, **k):
        out = real_nstep(*a, **k)
        jax.debug.callback(lambda r, d: _MRQ["sink"].append((np.array(r), np.array(d))) if _MRQ["sink"] is not None else None, out[0], out[1])
        return out

    @nnx.jit
    def noop(*modules):
        return 0

    class Enc:
        def encode_zs(self, obs):
            return obs

        def encode_zsa(self, zs, action):
            return zs

    class Q:
        def q1(self, zsa):
            return jnp.full((zsa.shape[0], 1), QK2, dtype=jnp.float32)

        q2 = q1

    def q_next(zsa):  # ReturnsMRQ.QN: (16 ep + t) / 4
        return ((16.0 * zsa[:, 0] + zsa[:, 1]) / 4.0)[:, None]

    def host(x):
        return np.array(x)

    def update(*a, **k):
        ba = sig_u.bind(*a, **k).arguments
        batch, gamma = ba["batch"], ba["gamma"]
        entry = {"batch": {f: host(getattr(batch, f)) for f in batch._fields}, "gamma": float(gamma),
                 "scales": (float(ba["reward_scale"]), float(ba["target_reward_scale"]))}
        _MRQ["sink"] = []
        try:
            _, (_, _, td) = mrq.mrq_loss(Q(), q_next, Enc(), Enc(), ba["next_action"], batch, gamma, 1.0, 1.0)
            jax.effects_barrier()
            entry["target"] = (np.float32(QK2) - np.atleast_1d(np.asarray(td))).astype(np.float32)
            entry["nstep"] = list(_MRQ["sink"])
        except Exception as e:  # noqa: BLE001 - raised by the code under test
            entry["error"] = f"{type(e).__name__}: {str(e)[:160]}"
        if _MRQ["mode"] == "real":
            _MRQ["sink"] = []
            res = real_update(*a, **k)
            jax.block_until_ready(res)
            jax.effects_barrier()
            entry["nstep_real"] = list(_MRQ["sink"])
        else:
            noop(*[ba[n] for n in ("q", "q_target", "q_optimizer", "policy", "policy_optimizer", "encoder", "encoder_target")])
            n = entry["batch"]["reward"].shape[0]
            res = (jnp.float32(0.0), jnp.float32(0.0), (jnp.float32(0.0), jnp.float32(0.0)), jnp.float32(0.0), jnp.ones((n,), dtype=jnp.float32))
        _MRQ["sink"] = None
        _MRQ["critic"].append(entry)
        return res

    def update_encoder(*a, **k):
        ba = sig_e.bind(*a, **k).arguments
        batches = ba["batches"]
        _MRQ["encoder"].append({f: host(getattr(batches, f)) for f in batches._fields})
        if _MRQ["mode"] == "real":
            return real_enc(*a, **k)
        noop(ba["encoder"], ba["encoder_target"], ba["encoder_optimizer"])
        return jnp.zeros((5,), dtype=jnp.float32)

    mrq.discounted_n_step_return, mrq.update_critic_and_policy, mrq.update_model_based_encoder = nstep, update, update_encoder
    _MRQ.update(installed=True, wrappers=(nstep, update, update_encoder), originals=(real_nstep, real_update, real_enc))


def _uninstall_mrq_recorders():
    """put the repository's own functions back (the rest of the driver calls mrq_loss without recorders)"""
    from rl_blox.algorithm import mrq

    if _MRQ["installed"]:
        mrq.discounted_n_step_return, mrq.update_critic_and_policy, mrq.update_model_based_encoder = _MRQ["originals"]
        _MRQ["installed"] = False


def mrq_scenarios(tier, seed):
    """(encoder_horizon, q_horizon) pairs incl. q_horizon > encoder_horizon + 1 and the converse; episode scripts with
    truncated episodes longer than every horizon, one short truncated and one terminated episode (seeded lengths)"""
    rng = np.random.default_rng([int(seed), 709])
    pairs = [(2, 4, "stub"), (1, 3, "stub"), (3, 1, "stub")] if tier == "quick" else \
        [(2, 4, "real"), (1, 3, "stub"), (3, 1, "stub"), (2, 2, "stub"), (4, 2, "stub"), (2, 5, "stub"), (5, 3, "stub"), (3, 5, "real"), (1, 4, "stub")]
    out = []
    for eh, qh, mode in pairs:
        hb = max(eh, qh)
        script = [(hb + 3 + int(rng.integers(0, 2)), "trunc")]
        tail = [(hb + 2 + int(rng.integers(0, 3)), "trunc"), (hb + 2 + int(rng.integers(0, 3)), "trunc"), (int(rng.integers(1, hb + 1)), "trunc"),
                (hb + 1 + int(rng.integers(0, 3)), "term"), (int(rng.integers(1, hb + 1)), "term")]
        script += [tail[i] for i in rng.permutation(len(tail))]
        steps = 34 if tier == "quick" else 48
        out.append(dict(eh=eh, qh=qh, mode=mode, script=[[int(a), str(e)] for a, e in script], steps=steps, learning_starts=hb + 3, batch=8, cap=4 * hb + 12,
                        target_delay=4, seed=int(seed) % 1000))
    return out


def _mrq_modules(env, seed):
    import optax
    from flax import nnx
    from rl_blox.blox.double_qnet import ContinuousClippedDoubleQNet
    from rl_blox.blox.embedding.model_based_encoder import DeterministicPolicyWithEncoder, ModelBasedEncoder
    from rl_blox.blox.function_approximator.layer_norm_mlp import LayerNormMLP
    from rl_blox.blox.function_approximator.policy_head import DeterministicTanhPolicy
    from rl_blox.blox.preprocessing import make_two_hot_bins

    na = env.action_space.shape[0]
    nb, zs, za, zsa = 5, 4, 2, 4
    rngs = nnx.Rngs(seed)
    encoder = ModelBasedEncoder(n_state_features=3, n_action_features=na, n_bins=nb, zs_dim=zs, za_dim=za, zsa_dim=zsa, hidden_nodes=[4],
                                activation="elu", encoder_activation_in_last_layer=False, rngs=rngs)
    pwe = DeterministicPolicyWithEncoder(encoder, DeterministicTanhPolicy(LayerNormMLP(zs, na, [4], "relu", rngs=rngs), env.action_space))
    q = ContinuousClippedDoubleQNet(LayerNormMLP(zsa, 1, [4], "elu", rngs=rngs), LayerNormMLP(zsa, 1, [4], "elu", rngs=rngs))
    opt = lambda m: nnx.Optimizer(m, optax.sgd(1e-3), wrt=nnx.Param)  # noqa: E731
    return pwe, opt(pwe.encoder), opt(pwe.policy), q, opt(q), make_two_hot_bins(n_bin_edges=nb)


def _tag2(o):
    o = np.asarray(o).reshape(-1)
    return [int(round(float(o[0]))), int(round(float(o[1])))]


def run_mrq_scenario(sc):
    """The real train_mrq on the scripted environment -> the run as the trace specification reads it:
    environment log `eps`, the distinct recorded rows, and per row the values the real loss computed."""
    import jax
    from rl_blox.algorithm import mrq

    from ..envs import Recorder, ScriptEnv

    _install_mrq_recorders()
    events = Recorder()
    env = ScriptEnv(events, [(int(a), str(e)) for a, e in sc["script"]], low=(-1.0,), high=(1.0,))
    pwe, eopt, popt, q, qopt, bins = _mrq_modules(env, sc["seed"])
    _MRQ.update(mode=sc["mode"], critic=[], encoder=[], sink=None)
    run = {"eh": sc["eh"], "qh": sc["qh"], "g": [1, 2], "rows": [], "occ": [], "scenario": sc}
    try:
        res = mrq.train_mrq(env, pwe, eopt, popt, q, qopt, bins, seed=sc["seed"], total_timesteps=sc["steps"], buffer_size=sc["cap"], gamma=0.5,
                            target_delay=sc["target_delay"], batch_size=sc["batch"], learning_starts=sc["learning_starts"],
                            encoder_horizon=sc["eh"], q_horizon=sc["qh"], progress_bar=False)
        jax.effects_barrier()
        run["buffer_horizon"] = int(getattr(res.replay_buffer, "horizon", -1))
    except Exception as e:  # noqa: BLE001 - raised by the code under test
        run["error"] = _base()._exc(e)
    finally:
        _uninstall_mrq_recorders()
    critic, encoder = _MRQ["critic"], _MRQ["encoder"]
    _MRQ.update(critic=None, encoder=None, sink=None)
    # the environment's own log: one [length, ending] per episode ("open": still running when the budget ended)
    eps = []
    for ev in events.events:
        if ev["ev"] == "reset":
            eps.append([0, "open"])
        elif ev["ev"] == "step" and not ev["after_end"]:
            eps[-1][0] += 1
            if ev["term"] or ev["trunc"]:
                eps[-1][1] = "term" if ev["term"] else "trunc"
    run["eps"] = eps
    index = {}

    def row_id(row):
        key = json.dumps(row, sort_keys=True)
        if key not in index:
            index[key] = len(run["rows"])
            run["rows"].append(row)
        return index[key]

    def r4(x):
        return [int(round(float(v) * 4)) for v in np.asarray(x).reshape(-1)]

    for ci, c in enumerate(critic):
        bt = c["batch"]
        if "error" in c:
            run.setdefault("error", "mrq_loss on a recorded critic batch: " + c["error"])
            continue
        rew, term = np.asarray(bt["reward"]), np.asarray(bt["terminated"])
        if rew.ndim != 2:
            run.setdefault("error", f"critic batch rewards of shape {rew.shape}")
            continue
        for i in range(rew.shape[0]):
            rid = row_id({"kind": "critic", "obs": _tag2(bt["observation"][i]), "rew4": r4(rew[i]), "term": [int(x) for x in term[i]],
                          "nobs": _tag2(bt["next_observation"][i])})
            occ = {"row": rid, "call": ci, "i": i, "rew": [float(x) for x in rew[i]], "target": float(c["target"][i]),
                   "nstep": [(float(r[i]), float(d[i])) for r, d in c["nstep"]] + [(float(r[i]), float(d[i])) for r, d in c.get("nstep_real", [])],
                   "n_real": len(c.get("nstep_real", []))}
            run["occ"].append(occ)
    for ei, bt in enumerate(encoder):
        obs = np.asarray(bt["observation"])
        if obs.ndim != 3:
            run.setdefault("error", f"encoder batch observations of shape {obs.shape}")
            continue
        for i in range(obs.shape[0]):
            rid = row_id({"kind": "encoder", "obss": [_tag2(o) for o in obs[i]], "rew4": r4(bt["reward"][i]), "term": [int(x) for x in np.asarray(bt["terminated"][i])],
                          "nobss": [_tag2(o) for o in np.asarray(bt["next_observation"])[i]]})
            run["occ"].append({"row": rid, "call": ei, "i": i, "encoder": True})
    run["calls"] = {"critic": len(critic), "encoder": len(encoder)}
    return run


def judge_mrq_runs(runs):
    """TLC judges every distinct recorded row of every run (+ one corrupted copy as the binding canary) -> TlcResult"""
    traces = [{"eh": r["eh"], "qh": r["qh"], "g": r["g"], "eps": r["eps"], "rows": r["rows"]} for r in runs]
    # binding canary: the first critic row of the first run with its first reward replaced by that of the same step four episodes later
    canary = None
    for r in runs:
        row = next((x for x in r["rows"] if x["kind"] == "critic"), None)
        if row is not None:
            bad = json.loads(json.dumps(row))
            bad["rew4"][0] += 4 * 16 * 4
            canary = {"eh": r["eh"], "qh": r["qh"], "g": r["g"], "eps": r["eps"], "rows": [bad]}
            break
    if canary is not None:
        traces.append(canary)
    os.makedirs(os.path.join(tlc.OUT, "tmp"), exist_ok=True)
    path = os.path.join(tlc.OUT, "tmp", f"c07mrq-{os.getpid()}-{uuid.uuid4().hex[:6]}.json")
    with open(path, "w") as f:
        json.dump(traces, f)
    try:
        res = tlc.run("ReturnsMRQTrace", tlc.cfg_text(init="TInit", next="TNext", constants=mrq_consts([1], [1], 2, 1)), workers=1,
                      env=dict(FAST_JVM, TRACE_FILE=path), tag="c07mrqtrace", timeout=900)
    finally:
        try:
            os.remove(path)
        except OSError:
            pass
    return res, canary is not None


def mrq_verdicts(runs, res, has_canary, corrupt=False):
    """-> Problems (with the run they belong to) from TLC's verdicts on the recorded rows and the comparison of the values
    the real loss computed with the ones TLC derived from the environment's log"""
    b = _base()
    out = []
    verdict = {(e["run"], e["row"]): e for e in res.emitted}
    n_rows = sum(len(r["rows"]) for r in runs) + (1 if has_canary else 0)
    if len(verdict) != n_rows:
        raise tlc.MachineryError(f"ReturnsMRQTrace judged {len(verdict)} rows, {n_rows} were recorded")
    if has_canary and not verdict[(len(runs) + 1, 1)]["bad"]:
        raise tlc.MachineryError("binding canary: a critic window with a reward of another episode was accepted by ReturnsMRQTrace")
    stats = {"rows_judged": n_rows, "critic_rows": 0, "encoder_rows": 0, "values_compared": 0, "windows_with_termination": 0, "windows_in_truncated_episodes": 0}
    for ri, run in enumerate(runs):
        probs = b.Problems()
        sc = run["scenario"]
        ctx = (f"train_mrq(encoder_horizon={run['eh']}, q_horizon={run['qh']}, buffer_size={sc['cap']}, replay_buffer=None) on episodes "
               f"{run['eps']} (its own buffer has horizon {run.get('buffer_horizon')})")
        if "error" in run:
            probs.add("train_mrq:raises", f"{ctx}: {run['error']}")
        if not run["calls"]["critic"] and "error" not in run:
            raise tlc.MachineryError(f"recorder on mrq.update_critic_and_policy saw no call ({ctx})")
        seen = set()
        for occ in run["occ"]:
            v = verdict[(ri + 1, occ["row"] + 1)]
            row = run["rows"][occ["row"]]
            first = occ["row"] not in seen
            seen.add(occ["row"])
            if first:
                stats["critic_rows" if row["kind"] == "critic" else "encoder_rows"] += 1
                if row["kind"] == "critic" and any(row["term"]):
                    stats["windows_with_termination"] += 1
                if row["kind"] == "critic" and not v["bad"] and run["eps"][row["obs"][0]][1] == "trunc":
                    stats["windows_in_truncated_episodes"] += 1
            if v["bad"]:
                if not first or sum(1 for q in probs if "leaves_its_episode" in q["key"]) >= 3:
                    continue
                if row["kind"] == "critic":
                    probs.add("train_mrq:critic_window_leaves_its_episode",
                              f"{ctx}: critic batch {occ['call'] + 1} row {occ['i']} starts at observation {row['obs']} (episode, step) and carries rewards "
                              f"{occ['rew']}, terminated {row['term']}, bootstrap observation {row['nobs']}; judged against the environment's log: {sorted(v['bad'])} fail - "
                              + (f"episode {row['obs'][0]} has only {v['own']} further step(s) behind this observation"
                                 if v["own"] < len(row["rew4"]) else f"these are not the next {v['own']} steps of episode {row['obs'][0]}")
                              + f", so the n-step return {occ['nstep'][0][0] if occ['nstep'] else '?'} (own episode: {exact.q(v['ret'])}) and the critic target "
                              f"{occ['target']!r} (own episode: {exact.q(v['tgt'])}) of time t depend on another episode's data")
                else:
                    probs.add("train_mrq:encoder_window_leaves_its_episode",
                              f"{ctx}: encoder batch {occ['call'] + 1} row {occ['i']} observations {row['obss']} rewards*4 {row['rew4']} terminated {row['term']}: "
                              f"{sorted(v['bad'])} fail against the environment's log")
                continue
            if row["kind"] != "critic":
                continue
            want_ret, want_disc, want_tgt = v["ret"], v["disc"], v["tgt"]
            if corrupt:
                want_ret = [want_ret[0] * 2 + 3 * want_ret[1], want_ret[1] * 2]
            stats["values_compared"] += 1
            for k, (r, d) in enumerate(occ["nstep"]):
                where = "inside the real update_critic_and_policy" if k >= len(occ["nstep"]) - occ["n_real"] else "in mrq_loss on the recorded batch"
                if not exact.eq(r, want_ret) or not exact.eq(d, want_disc):
                    probs.add("train_mrq:critic_n_step_return",
                              f"{ctx}: critic batch {occ['call'] + 1} row {occ['i']} from observation {row['obs']}: discounted_n_step_return {where} = ({r!r}, {d!r}); the "
                              f"environment's reward log of this episode gives ({exact.q(want_ret)}, {exact.q(want_disc)})")
                    break
            if not occ["nstep"]:
                raise tlc.MachineryError("recorder on mrq.discounted_n_step_return saw no call from mrq_loss")
            if sc["mode"] == "real" and not occ["n_real"]:
                raise tlc.MachineryError("recorder on mrq.discounted_n_step_return saw no call from inside the real update_critic_and_policy")
            if not exact.eq(occ["target"], want_tgt):
                probs.add("train_mrq:critic_target_value",
                          f"{ctx}: critic batch {occ['call'] + 1} row {occ['i']} from observation {row['obs']}: critic target (stub target critic, reward scales 1) = "
                          f"{occ['target']!r}; own episode: {exact.q(want_tgt)}")
        out.append(probs)
    return out, stats
