"""C16 - black-box optimisers keep their distribution and bookkeeping invariants.

spec/Optimisers.tla       CMA-ES ask/tell state machine on fitness RANK classes
spec/OptimisersFacts.tla  predicates on logged float32 ordinals (weights, step size, covariance, boxes)
spec/OptimisersParams.tla flat_params / set_params layout
spec/OptimisersCem.tla    cross-entropy method on a dyadic lattice (exact rationals)
spec/OptimisersTrain.tla  train_cmaes / optimize_cem control flow (trace validation)
"""
from __future__ import annotations

import copy
import dataclasses
import hashlib
import json
import math
import os
import re
import shutil
import uuid
from fractions import Fraction

import numpy as np

from .. import exact, graph, tlc
from ..graph import Mismatch

LEVEL = "model_checking"
MANIFEST = dict(
    category="model_checking",
    text="TLC checks IncumbentIsBestSoFar / UpdateEveryN / MeanIsWeightedBestMu on the complete state graph of the CMA-ES ask/tell machine over fitness rank classes (ties, +-inf, NaN); every transition of that graph is replayed into the real sample_population / get_next_parameters / set_evaluation_feedback / update_search_distribution with the projected state compared after every call; numeric predicates (weights, step size, covariance) are decided by TLC on logged float32 ordinals; CEM and the parameter round trip are compared exactly with TLC-computed rationals / layouts. Small-scope exhaustive on the bookkeeping, which is uniform in dimension and population size.",
    note="populations 2-6, <= 3 generations, dimensions 1-3 (+ one-hot coded populations); covariance / eigen-decomposition VALUES are not modelled, only symmetry / positivity / step-size predicates; trusted: projections in this driver, harness/exact.py, TLC",
    technique="TLA+ spec + TLC exhaustive state graph; transition-coverage replay into the real CMA-ES functions; TLC-generated exact vectors for cem_sample/cem_update; trace validation of train_cmaes and optimize_cem",
)

INF, NAN = 7, 99
U24 = 2.0**-24
ES_INVS_HIST = ["TypeOK", "IncumbentIsBestSoFar", "IncumbentNeverNaN", "IncumbentLatestOnTies", "UpdateEveryN"]
ES_INVS_SEL = ["TypeOK", "IncumbentNeverNaN", "UpdateEveryN", "MeanIsWeightedBestMu", "NegativeUpdateFromWorstMu", "FreshPopulationUnevaluated"]
K_NEGVAR = "cmaes:active_update:negative_variance"  # the recorded finding, see negvar_key()


def negvar_key(ad, neg):
    """Key of a non-positive variance after an ACTIVE update; a key names the failing input.
    The recorded finding is exactly: 1-D z-lattice population (mean + z_k * sigma, initial
    variance 1) whose candidate at z = -5 (slot 0) is in the negative update, i.e. a candidate
    >= 4.5 sigma from the mean ranked among the worst.  Every other occurrence gets its own key."""
    if ad.mode == "zlat" and ad.var0 == 1.0 and 0 in list(neg):
        return K_NEGVAR
    return f"{K_NEGVAR}:{ad.mode}-d{ad.d}-var{ad.var0:g}"


# ------------------------------------------------------------------ helpers
def cls2float(c):
    return {INF: math.inf, -INF: -math.inf, NAN: math.nan}.get(c, float(c))


def float2cls(v):
    v = float(v)
    if math.isnan(v):
        return NAN
    if math.isinf(v):
        return INF if v > 0 else -INF
    if v == int(v) and abs(v) < INF:
        return int(v)
    raise Mismatch(f"fitness value {v} is none of the fed classes", key="cmaes:fitness_value")


def bits(a):
    return np.ascontiguousarray(np.asarray(a, dtype=np.float32)).view(np.uint32)


def same_bits(a, b):
    a, b = np.asarray(a), np.asarray(b)
    return a.shape == b.shape and bool((bits(a) == bits(b)).all())


def digest(*arrays):
    h = hashlib.sha1()
    for a in arrays:
        a = np.asarray(a)
        h.update(str(a.shape).encode())
        h.update(np.ascontiguousarray(a).tobytes())
    return h.hexdigest()


def ulp32(x):
    x = abs(float(x))
    return float(np.spacing(np.float32(x))) if x > 0 else float(np.float32(2.0**-149))


def coverage_of(res):
    """action coverage incl. actions defined through a higher-order operator (TellWith, UpdateWith)"""
    cov = {}
    for m in re.finditer(r"^<(\w+) line \d+, col \d+ to line \d+, col \d+ of module (\w+)(?: \([\d ]+\))?>: (\d+):(\d+)", res.stdout, re.M):
        d, t = int(m.group(3)), int(m.group(4))
        od, ot = cov.get(m.group(1), (0, 0))
        cov[m.group(1)] = (od + d, ot + t)
    return cov


def require_taken(res, actions):
    cov = coverage_of(res)
    missing = [a for a in actions if cov.get(a, (0, 0))[1] == 0]
    if missing:
        raise tlc.MachineryError(f"actions never taken (vacuous model): {missing}")


def judge_facts(facts, tag="facts"):
    """OptimisersFacts.tla decides the predicates on the logged facts.
    Returns list of (fact index (0-based), [failed predicate names])."""
    d = os.path.join(tlc.OUT, "tmp", f"c16facts-{os.getpid()}-{uuid.uuid4().hex[:6]}")
    os.makedirs(d, exist_ok=True)
    path = os.path.join(d, "facts.json")
    with open(path, "w") as f:
        json.dump(facts, f)
    try:
        res = tlc.run("OptimisersFacts", tlc.cfg_text(constants=dict(EMIT=True)), workers=1, env={"FACTS_FILE": path}, tag=tag)
    finally:
        shutil.rmtree(d, ignore_errors=True)
    if res.distinct != len(facts) + 1:
        raise tlc.MachineryError(f"OptimisersFacts judged {res.distinct - 1} of {len(facts)} facts")
    return res, [(e["fact"] - 1, sorted(e["failed"])) for e in res.emitted]


# ------------------------------------------------------------------ CMA-ES adapter
class ES:
    """The real ask/tell objects (config, state, population) plus the bookkeeping the
    projection needs.  mode: "real"  population = sample_population (dimension d)
                             "coded" population k = 2^(k-3) * e_k in dimension n+1 (decodable mean)
                             "zlat"  d = 1, population = mean + z_k * sigma, z_k dyadic, |z| <= 5 (support of the sampler)"""

    ZS = [-5.0, 0.5, 2.0, -1.0, 4.0, -3.0]

    def __init__(self, n, d, active, maximize, mode, seed, bounds=None, cov0=None, var0=None, facts=None):
        import jax
        import jax.numpy as jnp

        from rl_blox.algorithm import cmaes as C

        self.C, self.jnp = C, jnp
        self.params = dict(n=n, d=d, active=active, maximize=maximize, mode=mode, seed=seed, bounds=bounds, cov0=cov0, var0=var0)
        self.n, self.mode, self.active, self.maximize = n, mode, active, maximize
        if mode == "coded":
            d = n + 1
        elif mode == "zlat":
            d = 1
        self.d = d
        b = None if bounds is None else np.asarray([[-bounds, bounds]] * d, dtype=np.float32)
        self.cfg = C.CMAESConfig.create(
            active=active, bounds=b, maximize=maximize, min_variance=None, min_fitness_dist=0.0, max_condition=None, n_params=d, n_samples_per_update=n
        )
        if cov0 == "diag":
            cov = np.asarray([0.5, 2.0, 1.0][:d], dtype=np.float32)
        elif cov0 == "full" and d > 1:
            cov = np.eye(d, dtype=np.float32) + 0.25 * (np.ones((d, d), dtype=np.float32) - np.eye(d, dtype=np.float32))
        else:
            cov = None
        self.var0 = float(var0) if var0 is not None else (1.0 if mode != "real" else 0.5)  # initial variance sigma^2
        self.negkey = None  # key of a non-positive variance produced by an earlier update of this run
        init = np.zeros(d, dtype=np.float32) if mode != "real" else np.asarray([0.25, -0.5, 1.0][:d], dtype=np.float32)
        self.st = C.CMAESState.create(key=jax.random.key(seed), initial_params=jnp.asarray(init), variance=self.var0, covariance=cov)
        self.init_mean = np.asarray(self.st.mean).copy()
        self.bounds = b
        self.facts = facts if facts is not None else []
        self.path = []
        self.by_id = {}
        self.ver = 0
        self.pop_ver = 0
        self.sel, self.neg = [], []
        self.pop = self._population()
        self.dig = self._digest()

    # -- population ---------------------------------------------------
    def _population(self):
        C, jnp = self.C, self.jnp
        if self.mode == "real":
            samples = C.sample_population(self.cfg, self.st)
        elif self.mode == "coded":
            x = np.zeros((self.n, self.d), dtype=np.float32)
            sign = -1.0 if self.ver % 2 else 1.0
            for k in range(self.n):
                x[k, k] = sign * 2.0 ** (k - 3)
            samples = jnp.asarray(x)
        else:
            c = float(np.asarray(self.st.cov)[0, 0])
            v = float(self.st.var)
            if not (c > 0 and v > 0):
                raise Mismatch(f"variance of the search distribution is {v} * {c}: nothing can be sampled", key=self.negkey or "cmaes:update:negative_variance")
            sd = np.float32(math.sqrt(v * c))
            samples = jnp.asarray((np.asarray(self.st.mean, dtype=np.float32)[None, :] + np.asarray(self.ZS[: self.n], dtype=np.float32)[:, None] * sd).astype(np.float32))
        s = np.asarray(samples)
        if s.shape != (self.n, self.d):
            raise Mismatch(f"population has shape {s.shape}, expected {(self.n, self.d)}", key="cmaes:sample_population:shape")
        if not np.isfinite(s).all():
            dg = np.diag(np.asarray(self.st.cov))
            raise Mismatch(
                f"sample_population returns non-finite candidates (cov diagonal {dg}, var {float(self.st.var)})",
                key=self.negkey or "cmaes:sample_population:nonfinite",
            )
        if self.bounds is not None and not ((s >= self.bounds[:, 0]).all() and (s <= self.bounds[:, 1]).all()):
            raise Mismatch("sampled candidate outside config.bounds", key="cmaes:sample_population:bounds")
        return C.Population.create(samples=samples)

    def _digest(self):
        st = self.st
        return digest(st.mean, st.cov, np.float32(st.var), st.ps, st.pc, st.invsqrtC)

    def clone(self):
        o = copy.copy(self)
        o.st = dataclasses.replace(self.st)
        o.pop = self.C.Population(samples=self.pop.samples, fitness=list(self.pop.fitness))
        o.by_id = dict(self.by_id)
        o.path = list(self.path)
        o.sel, o.neg = list(self.sel), list(self.neg)
        return o

    # -- projection -----------------------------------------------------
    def best_id(self):
        bp = np.asarray(self.st.best_params)
        cand = int(self.st.best_fitness_it) + 1
        if cand in self.by_id and same_bits(bp, self.by_id[cand]):
            return cand
        if same_bits(bp, self.init_mean):
            return 0
        for i, s in self.by_id.items():
            if same_bits(bp, s):
                return -i  # parameters of a candidate other than best_fitness_it names
        return -999

    def project(self):
        it = int(self.st.it)
        if it > 0 and it % self.n == 0 and self.ver < it // self.n:
            phase = "boundary"
        elif self.pop_ver < self.ver:
            phase = "resample"
        else:
            phase = "ask"
        return {
            "it": it,
            "fit": [float2cls(v) for v in self.pop.fitness],
            "bestFit": float2cls(self.st.best_fitness),
            "bestId": self.best_id(),
            "ver": self.ver,
            "sel": list(self.sel),
            "neg": list(self.neg),
            "phase": phase,
        }

    def _track_version(self):
        d = self._digest()
        if d != self.dig:
            self.dig = d
            self.ver += 1


def feedback_encoding(c, i):
    """the same fitness class fed as float / array of step rewards / numpy scalar"""
    v = cls2float(c)
    if i % 3 == 0:
        return v
    if i % 3 == 1:
        return np.asarray([v, 0.0], dtype=np.float32) if math.isfinite(v) else np.asarray([v, 1.0], dtype=np.float32)
    return np.float64(v)


def mean_check(ad: ES, samples, sel, mean):
    """state.mean against the model's ordered selection: sum_r w_r x[sel[r]]."""
    w = np.asarray(ad.cfg.weights, dtype=np.float32)
    mu = len(w)
    if len(sel) != mu:
        raise Mismatch(f"config.mu = {mu} but the model recombines {len(sel)} candidates", key="cmaes:mu")
    if mu == 1:
        if not same_bits(mean, samples[sel[0]]):
            raise Mismatch(f"mu = 1: mean {mean} is not the best candidate {samples[sel[0]]} (slot {sel[0]})", key="cmaes:update:mean_not_weighted_best_mu")
        return "exact"
    if ad.mode == "coded":
        # every column has at most one non-zero term w_r * (+-2^e): exact
        want = np.zeros(ad.d, dtype=np.float32)
        for r, k in enumerate(sel):
            want[k] = np.float32(w[r]) * samples[k, k]
        if not same_bits(mean + np.float32(0.0), want + np.float32(0.0)):
            raise Mismatch(f"mean {mean} is not sum_r w_r x[sel[r]] = {want} for sel={sel}", key="cmaes:update:mean_not_weighted_best_mu")
        return "exact"
    terms = w.astype(np.float64)[:, None] * samples[sel].astype(np.float64)
    ref = terms.sum(axis=0)
    tol = 2 * mu * U24 * np.abs(terms).sum(axis=0) + 2.0**-149
    if not (np.abs(mean.astype(np.float64) - ref) <= tol).all():
        raise Mismatch(f"mean {mean} differs from sum_r w_r x[sel[r]] = {ref} (sel={sel}) by more than {2 * mu} half-ulps", key="cmaes:update:mean_not_weighted_best_mu")
    return "float32"


def update_fact(ad: ES, var_pre, gen):
    st = ad.st
    cov = np.asarray(st.cov, dtype=np.float64)
    dg = np.diag(cov)
    finite = bool(np.isfinite(cov).all() and np.isfinite(np.asarray(st.mean)).all() and math.isfinite(float(st.var)))
    asym = 0
    if finite and (dg > 0).all():
        for i in range(ad.d):
            for j in range(i + 1, ad.d):
                asym = max(asym, int(math.ceil(abs(cov[i, j] - cov[j, i]) / (U24 * math.sqrt(dg[i] * dg[j])))))
    bound = np.float32(var_pre) * np.float32(math.exp(1.2))
    return {
        "kind": "update",
        "gen": gen,
        "n": ad.n,
        "d": ad.d,
        "mu": int(ad.cfg.mu),
        "active": bool(ad.active),
        "mode": ad.mode,
        "ordVarPre": exact.ord32(var_pre),
        "ordVarPost": exact.ord32(float(st.var)),
        "ordBound": exact.ord32(bound),
        "minDiagOrd": exact.ord32(np.float32(dg.min())) if finite else exact.ord32(np.float32("nan")),
        "asym": min(asym, 2**30),
        "finite": finite,
        "capped": bool(exact.ord32(float(st.var)) >= exact.ord32(bound) - 16),
        "excess": exact.ord32(float(st.var)) - exact.ord32(bound),
        "path": list(ad.path),
        "params": ad.params,
    }


def decode_cov_sets(ad: ES):
    """coded population, first generation (mean 0, cov I, sigma 1): dimension n is touched by no
    candidate, so C[n][n] is the pure decay factor; C[k][k] above it <=> slot k in the positive
    rank-mu update, below it <=> slot k in the negative one (ordered by the weight it reveals)."""
    cov = np.asarray(ad.st.cov, dtype=np.float64)
    ref = cov[ad.n, ad.n]
    up = sorted(k for k in range(ad.n) if cov[k, k] > ref)
    w = np.asarray(ad.cfg.weights, dtype=np.float64)
    down = []
    for k in range(ad.n):
        if cov[k, k] < ref:
            est = (ref - cov[k, k]) / (float(ad.cfg.neg_cmu) * 4.0 ** (k - 3))
            down.append((int(np.argmin(np.abs(w - est))), k))
    return up, [k for _, k in sorted(down)]


def es_step(ad: ES, op, args, exp, pre, post, enc=0):
    C = ad.C
    ad.path.append({"op": op, "args": args, "exp": exp})
    if op == "Ask":
        p = np.asarray(C.get_next_parameters(ad.cfg, ad.st, ad.pop))
        if not same_bits(p, np.asarray(ad.pop.samples)[exp["k"]]):
            raise Mismatch(f"get_next_parameters returns {p}, not the sample in slot {exp['k']}", key="cmaes:ask:wrong_slot")
    elif op == "Tell":
        it = int(ad.st.it)
        k = exp["k"]
        ad.by_id[it + 1] = np.asarray(ad.pop.samples)[k].copy()
        C.set_evaluation_feedback(ad.cfg, ad.st, ad.pop, feedback_encoding(args[0], it + enc))
        got = float2cls(ad.pop.fitness[k])
        if got != exp["fitness"]:
            raise Mismatch(f"fitness[{k}] = {ad.pop.fitness[k]} for feedback class {args[0]}, model {exp['fitness']}", key="cmaes:tell:fitness")
        ad.sel, ad.neg = [], []
        ad._track_version()
    elif op == "Update":
        samples = np.asarray(ad.pop.samples).copy()
        var_pre = float(ad.st.var)
        C.update_search_distribution(ad.cfg, ad.st, ad.pop)
        ad._track_version()
        how = mean_check(ad, samples, exp["sel"], np.asarray(ad.st.mean))
        ad.sel = list(exp["sel"])
        ad.neg = list(exp["neg"])
        if ad.mode == "coded" and exp["gen"] == 1:
            up, down = decode_cov_sets(ad)
            if up != sorted(exp["sel"]):
                raise Mismatch(f"covariance grows along slots {up}, the model's positive rank-mu update uses {sorted(exp['sel'])}", key="cmaes:update:rank_mu_selection")
            if down != list(exp["neg"]):
                raise Mismatch(f"covariance shrinks along slots {down}, the model's negative update uses {exp['neg']} (active={ad.active})", key="cmaes:update:negative_selection")
        f = update_fact(ad, var_pre, exp["gen"])
        f["mean"] = how
        if ad.active and not (np.diag(np.asarray(ad.st.cov)) > 0).all():
            ad.negkey = negvar_key(ad, exp["neg"])
        f["negkey"] = ad.negkey or negvar_key(ad, exp["neg"])  # label only; the predicate is TLC's
        ad.facts.append(f)
    elif op == "Sample":
        ad.pop = ad._population()
        ad.pop_ver = ad.ver
        ad._track_version()
    else:  # pragma: no cover
        raise AssertionError(op)


def es_project(ad: ES):
    return ad.project()


def es_key(v):
    k = v.get("detail", {}).get("key")
    if k:
        return k
    w = v["what"]
    if w.startswith("exception"):
        return "cmaes:" + w.split(":")[0].replace(" ", "_")
    op = v["path"][-1]["op"]
    got, want = v.get("detail", {}).get("got"), v.get("detail", {}).get("want")
    if isinstance(got, dict) and isinstance(want, dict):
        diff = sorted(k for k in want if got.get(k) != want.get(k))
        return f"cmaes:{op.lower()}:state:" + "+".join(diff)
    return f"cmaes:{op.lower()}:{w[:40]}"


def es_graph(n, gens, feed, maximize, active, tag):
    c = dict(N=n, MaxGen=gens, Feed=tlc.Subst(feed), Maximize=maximize, Active=active, HIST=False, EMIT=True)
    g = tlc.run("Optimisers", tlc.cfg_text(constants=c), workers=1, tag=tag)
    return graph.Graph(g.emitted), g


def es_cover(rep, G, params, facts, label):
    import time

    t0 = time.time()
    try:
        first = ES(facts=facts, **params)
    except Mismatch as m:
        rep.violation(m.detail.get("key", "cmaes:create"), f"CMA-ES {label}: {m.what}", {"kind": "es", "params": params, "path": [], "detail": m.detail})
        return {"edges_tested": 0, "violations": []}
    except Exception as ex:  # noqa: BLE001
        rep.violation(f"cmaes:create:exception:{type(ex).__name__}", f"CMA-ES {label}: creating config / state / first population raised {type(ex).__name__}: {str(ex)[:100]}", {"kind": "es", "params": params, "path": []})
        return {"edges_tested": 0, "violations": []}
    res = graph.cover(G, G.roots()[0], lambda: first, lambda o, op, a, e, pre, post: es_step(o, op, a, e, pre, post, rep.seed), es_project, clone=lambda o: o.clone())
    rep.extra.setdefault("replay_wall_s", {})[label] = round(time.time() - t0, 1)
    rep.traces += res["edges_tested"]
    for v in res["violations"]:
        rep.violation(es_key(v), f"CMA-ES {label}: {v['what']}", {"kind": "es", "params": params, "path": v["path"], "detail": v["detail"]})
    return res


WORKERS = int(os.environ.get("C16_WORKERS", "16"))


def par(jobs):
    """run independent TLC jobs concurrently (each with 4 workers)"""
    from concurrent.futures import ThreadPoolExecutor

    with ThreadPoolExecutor(max_workers=max(1, WORKERS // 4)) as ex:
        return list(ex.map(lambda j: j(), jobs))


def tw():
    return min(4, WORKERS)


# ================================================================== CMA-ES
def weight_facts(rep=None):
    from rl_blox.algorithm import cmaes as C

    facts = []
    cases = [(n, 2) for n in range(2, 41)] + [(None, d) for d in (1, 2, 3, 10, 100, 1000)]
    for n, d in cases:
        try:
            cfg = C.CMAESConfig.create(active=False, bounds=None, maximize=False, min_variance=None, min_fitness_dist=0.0, max_condition=None, n_params=d, n_samples_per_update=n)
        except Exception as ex:  # noqa: BLE001  (the code under test raised where the specification defines a configuration)
            if rep is not None:
                rep.violation(f"cmaes:config:exception:{type(ex).__name__}", f"CMAESConfig.create(n_params={d}, n_samples_per_update={n}) raised {type(ex).__name__}: {str(ex)[:100]}", {"kind": "weights", "fact": {"n": n, "d": d}})
            continue
        w = np.asarray(cfg.weights)
        if w.dtype != np.float32:
            raise tlc.MachineryError(f"weights are {w.dtype}, the ordinal device needs float32")
        s = sum(Fraction(float(x)) for x in w)
        lo = np.float32(float(s))
        if Fraction(float(lo)) > s:
            lo = np.nextafter(lo, np.float32(-np.inf))
        hi = lo if Fraction(float(lo)) == s else np.nextafter(lo, np.float32(np.inf))
        facts.append(
            {"kind": "weights", "n": int(cfg.n_samples_per_update), "d": d, "mu": int(cfg.mu), "ords": [exact.ord32(x) for x in w], "sumLo": exact.ord32(lo), "sumHi": exact.ord32(hi)}
        )
    return facts


def es_plan(quick):
    """(N, gens, Feed, maximize, active) -> adapters"""
    R = lambda d, **kw: dict(mode="real", d=d, **kw)
    Cd = dict(mode="coded", d=0)
    Z = dict(mode="zlat", d=1)
    if quick:
        return [
            ((2, 3, "FeedAll", False, True), [R(1), Z, R(3, var0=25, s=1)]),
            ((3, 2, "FeedMid", True, False), [R(2, var0=4), Z]),
            ((4, 2, "FeedSmall", False, True), [R(3, var0=25), Cd]),
            ((5, 2, "FeedInfNan", True, False), [R(1, bounds=0.5), Cd]),
            ((6, 2, "FeedTies", True, True), [R(2, cov0="full"), Cd, Z, R(1, var0=4, s=1), R(2, var0=25, s=2), R(3, var0=4, s=3)]),
        ]
    return [
        ((2, 3, "FeedAll", False, False), [R(1, cov0="diag"), R(2, cov0="full"), R(3), Cd, Z, R(2, bounds=0.5)]),
        ((2, 3, "FeedAll", True, True), [R(1), R(2), R(3, cov0="diag"), Cd, Z] + [R(1 + k % 3, var0=(4, 25)[k % 2], s=k) for k in range(1, 7)]),
        ((3, 3, "FeedMid", False, True), [R(1), R(2, cov0="full"), Cd, Z, R(3, var0=25, s=1), R(2, var0=4, s=2)]),
        ((3, 2, "FeedAll", True, False), [R(3), R(1, bounds=0.5), Cd, Z, R(2, var0=25, s=1)]),
        ((4, 2, "FeedMid", False, True), [R(2), Cd, Z, R(3, var0=25, s=1)]),
        ((4, 2, "FeedSmall", True, False), [R(3, cov0="diag"), R(1), Cd, Z, R(1, var0=4, s=1)]),
        ((5, 2, "FeedSmall", False, False), [R(2), Cd]),
        ((5, 2, "FeedInfNan", True, True), [R(1, bounds=0.5), R(3), Cd, Z, R(2, var0=25, s=1), R(1, var0=25, s=2)]),
        ((6, 2, "FeedInfNan", False, True), [R(2, cov0="full"), Cd, Z, R(3, var0=4, s=1)]),
        ((6, 3, "FeedTies", True, False), [R(3), R(1), Cd, Z] + [R(1 + k % 3, var0=(25, 4)[k % 2], s=k) for k in range(1, 4)]),
        ((6, 3, "FeedTies", False, True), [R(1 + k % 3, var0=(25, 4)[k % 2], s=k) for k in range(6)]),
    ]


def s31(x):
    return int(x) % 2**31


def run_cmaes(rep, quick):
    jobs, names = [], []
    # ---- properties on the model: incumbent properties against the ghost history
    hist_runs = [(2, 3, "FeedAll"), (3, 2, "FeedAll")] if quick else [(2, 3, "FeedAll"), (3, 2, "FeedAll"), (4, 2, "FeedSmall"), (2, 4, "FeedSmall"), (5, 1, "FeedAll")]
    for n, g, feed in hist_runs:
        for mx in ((n % 2 == 1,) if quick else (False, True)):
            c = dict(N=n, MaxGen=g, Feed=tlc.Subst(feed), Maximize=mx, Active=False, HIST=True, EMIT=False)
            jobs.append(lambda c=c: tlc.run("Optimisers", tlc.cfg_text(constants=c, invariants=ES_INVS_HIST, properties=["IncumbentMonotone"]), workers=tw(), tag="eshist"))
            names.append(f"Optimisers N={n} gens={g} {feed} maximize={mx}: incumbent invariants with history")
    plan = es_plan(quick)
    # ---- selection / schedule properties on exactly the graphs that are replayed
    for (n, g, feed, mx, act), _ in plan:
        c = dict(N=n, MaxGen=g, Feed=tlc.Subst(feed), Maximize=mx, Active=act, HIST=False, EMIT=False)
        jobs.append(lambda c=c: tlc.run("Optimisers", tlc.cfg_text(constants=c, invariants=ES_INVS_SEL), workers=tw(), coverage=True, tag="essel"))
        names.append(f"Optimisers N={n} gens={g} {feed} maximize={mx} active={act}: selection/schedule invariants")
    # ---- deviation canaries
    canaries = [("NextBadStrict", "IncumbentIsBestSoFar"), ("NextBadNan", "IncumbentNeverNaN"), ("NextBadSelect", "MeanIsWeightedBestMu"), ("NextBadBoundary", "UpdateEveryN")]
    for nxt, inv in canaries:
        c = dict(N=3, MaxGen=2, Feed=tlc.Subst("FeedInfNan"), Maximize=False, Active=True, HIST=True, EMIT=False)
        jobs.append(lambda c=c, nxt=nxt, inv=inv: tlc.run("Optimisers", tlc.cfg_text(next=nxt, constants=c, invariants=[inv]), workers=tw(), tag="esbad"))
        names.append(None)
    results = par(jobs)
    k = 0
    for r, name in zip(results, names):
        if name is None:
            nxt, inv = canaries[k]
            k += 1
            if r.violated != inv:
                raise tlc.MachineryError(f"canary: deviation {nxt} not refuted by {inv}")
            continue
        rep.add_tlc(r, name)
        if not r.ok:
            rep.violation(f"spec:Optimisers:{r.violated}", f"design-level violation of {r.violated} ({name})", r.error_trace)
        elif "selection" in name:
            require_taken(r, ["Ask", "TellWith", "UpdateWith", "SamplePopulation"])

    # ---- spec -> code: every transition of the graph into the real functions
    graphs = par([lambda cfg=cfg: es_graph(*cfg, tag="esgen") for cfg, _ in plan])
    facts = weight_facts(rep)
    n_weight = len(facts)
    edges = nontrivial = 0
    for (cfg, adapters), (G, g) in zip(plan, graphs):
        n, gens, feed, mx, act = cfg
        if not G.roots():
            raise tlc.MachineryError("empty CMA-ES graph")
        for a in adapters:
            a = dict(a)
            s_off = a.pop("s", 0)  # further seeds derived from rep.seed
            params = dict(n=n, active=act, maximize=mx, seed=(rep.seed * 7919 + 13 * n + 1 + 104729 * s_off) % 2**31, **a)
            res = es_cover(rep, G, params, facts, f"N={n} {a['mode']} d={a['d']} var0={a.get('var0', '-')} seed+{s_off} active={act} maximize={mx}")
            edges += res["edges_tested"]
        # non-trivial: a Tell that meets an evaluated incumbent or an Update, counted once per graph
        for key, es in G.out.items():
            for op, args, exp, k2 in es:
                if op == "Update" or (op == "Tell" and G.state[key]["bestId"] != 0):
                    nontrivial += 1
        rep.sample({"cmaes": dict(N=n, feed=feed, maximize=mx, active=act), "transition": g.emitted[min(len(g.emitted) - 1, 37 * n)]})
    # binding canary: a corrupted model state must be noticed by the replay
    g0 = graphs[0][1]
    e0 = copy.deepcopy(next(e for e in g0.emitted if e["op"] == "Tell" and e["pre"]["it"] == 0 and e["post"]["bestId"] == 1))
    e0["post"]["bestId"] = 0
    n0, _, _, mx0, act0 = plan[0][0]
    try:
        bad = graph.cover(graph.Graph([e0]), graph.canon(e0["pre"]), lambda: ES(n=n0, d=1, active=act0, maximize=mx0, mode="real", seed=1), es_step, es_project, clone=lambda o: o.clone())
    except Exception as ex:  # noqa: BLE001  (only acceptable if the code under test is already known to be broken)
        if not rep.violations:
            raise tlc.MachineryError(f"binding canary could not run: {type(ex).__name__}: {ex}")
        bad = {"violations": ["skipped"]}
    if not bad["violations"]:
        raise tlc.MachineryError("binding canary: corrupted incumbent id not noticed by the replay")

    # ---- numeric predicates: TLC judges the logged facts
    slim = [{k: v for k, v in f.items() if k not in ("path", "params", "negkey")} for f in facts]
    res, failed = judge_facts(slim, tag="esfacts")
    rep.add_tlc(res, f"OptimisersFacts: {n_weight} weight facts, {len(facts) - n_weight} update facts")
    for idx, preds in failed:
        f = facts[idx]
        for pname in preds:
            if f["kind"] == "weights":
                rep.violation(f"cmaes:weights:{pname}", f"CMAESConfig.create(n_samples_per_update={f['n']}): weights violate {pname}", {"kind": "weights", "fact": f})
            elif pname == "VariancesPositive" and f["active"]:
                rep.violation(f["negkey"], f"active update (N={f['n']}, d={f['d']}, {f['mode']} population, initial variance {f['params'].get('var0')}, generation {f['gen']}): smallest covariance diagonal entry is not positive", {"kind": "es-fact", "fact": f})
            else:
                rep.violation(f"cmaes:update:{pname}", f"update_search_distribution (N={f['n']}, d={f['d']}, active={f['active']}, {f['mode']}): {pname} fails", {"kind": "es-fact", "fact": f})
    # fact canary
    goodf = {"kind": "weights", "n": 4, "d": 2, "mu": 2, "ords": [exact.ord32(0.75), exact.ord32(0.25)], "sumLo": exact.ord32(1.0), "sumHi": exact.ord32(1.0)}
    badf = dict(goodf, ords=list(reversed(goodf["ords"])))
    goodu = {"kind": "update", "gen": 1, "n": 4, "d": 2, "mu": 2, "active": False, "ordVarPre": exact.ord32(1.0), "ordVarPost": exact.ord32(2.0), "ordBound": exact.ord32(3.0), "minDiagOrd": exact.ord32(0.5), "asym": 1, "finite": True}
    badu = dict(goodu, ordVarPost=goodu["ordBound"] + 4096)
    badc = dict(goodu, minDiagOrd=exact.ord32(-0.125))
    _, cf = judge_facts([goodf, badf, goodu, badu, badc], tag="esfactsbad")
    if [(i, p) for i, p in cf] != [(1, ["WeightsNonIncreasing"]), (3, ["StepSizeBounded"]), (4, ["VariancesPositive"])]:
        raise tlc.MachineryError(f"canary: corrupted facts not (only) flagged: {cf}")
    upd = [f for f in facts if f["kind"] == "update"] or [dict(goodu, capped=False, mean="-", excess=0)]
    rep.extra["cmaes"] = {
        "graph_edges_replayed": edges,
        "updates_logged": len(upd),
        "updates_with_step_size_cap_reached": sum(f["capped"] for f in upd),
        "mean_checked_exactly": sum(f["mean"] == "exact" for f in upd),
        "mean_checked_float32_recomputation": sum(f["mean"] == "float32" for f in upd),
        "max_asymmetry_half_ulps": max(f["asym"] for f in upd),
        "max_step_size_excess_ordinals": max(f["excess"] for f in upd),
        "weight_facts": n_weight,
    }
    return edges, nontrivial


# ================================================================== flat_params / set_params
def architectures():
    import gymnasium as gym
    from flax import nnx

    from rl_blox.blox.function_approximator import policy_head as P
    from rl_blox.blox.function_approximator.gaussian_mlp import GaussianMLP
    from rl_blox.blox.function_approximator.layer_norm_mlp import LayerNormMLP
    from rl_blox.blox.function_approximator.mlp import MLP

    space = gym.spaces.Box(low=np.array([-2.0, -1.0], dtype=np.float32), high=np.array([2.0, 3.0], dtype=np.float32))
    r = lambda: nnx.Rngs(0)
    return [
        ("MLP[]", lambda: MLP(3, 2, [], "relu", r())),
        ("MLP[4,3]", lambda: MLP(3, 2, [4, 3], "tanh", r())),
        ("LayerNormMLP[4,3]", lambda: LayerNormMLP(3, 2, [4, 3], "relu", r())),
        ("GaussianMLP shared", lambda: GaussianMLP(True, 3, 2, [4], "relu", r())),
        ("GaussianMLP separate", lambda: GaussianMLP(False, 3, 2, [4], "relu", r())),
        ("DeterministicTanhPolicy(MLP)", lambda: P.DeterministicTanhPolicy(MLP(3, 2, [4], "relu", r()), space)),
        ("GaussianTanhPolicy(GaussianMLP)", lambda: P.GaussianTanhPolicy(GaussianMLP(False, 3, 2, [4], "relu", r()), space)),
        ("GaussianPolicy(GaussianMLP)", lambda: P.GaussianPolicy(GaussianMLP(True, 3, 2, [4], "relu", r()))),
        ("SoftmaxPolicy(MLP)", lambda: P.SoftmaxPolicy(MLP(3, 2, [2], "relu", r()))),
        # module lists with more than ten entries: list index 10 sorts before 2 as a string, after it as a number
        ("MLP[12 hidden layers]", lambda: MLP(3, 2, [2, 3, 2, 3, 2, 3, 2, 3, 2, 3, 2, 3], "relu", r())),
        ("LayerNormMLP[11 hidden layers]", lambda: LayerNormMLP(2, 1, [2, 1, 2, 1, 2, 1, 2, 1, 2, 1, 2], "relu", r())),
    ]


def param_leaves(net):
    import jax
    from flax import nnx

    return jax.tree_util.tree_leaves(nnx.state(net, nnx.Param))


def other_digest(net):
    import jax
    from flax import nnx

    _, pstate, rest = nnx.split(net, nnx.Param, ...)
    return digest(*[np.asarray(x) for x in jax.tree_util.tree_leaves(rest)])


class PN:
    def __init__(self, archs):
        self.archs = archs
        self.arch = 0
        self.net = None
        self.vec = []
        self.vec_arr = None
        self.ops = 0

    def clone(self):
        from flax import nnx

        o = copy.copy(self)
        if self.net is not None:
            o.net = nnx.clone(self.net)
        return o


def pn_step(ad: PN, op, args, exp, pre, post):
    import jax
    import jax.numpy as jnp
    from flax import nnx

    from rl_blox.algorithm import cmaes as C

    if op == "Arch":
        ad.arch = args[0]
        ad.net = ad.archs[args[0] - 1][1]()
        # harness-side initialisation: leaf j, position p (row-major) := -(offset_j + p)
        state = nnx.state(ad.net, nnx.Param)
        leaves, treedef = jax.tree_util.tree_flatten(state)
        off, new = 0, []
        for leaf in leaves:
            m = int(np.prod(leaf.shape))
            new.append(jnp.asarray(-(np.arange(off + 1, off + m + 1, dtype=np.float32)).reshape(leaf.shape)))
            off += m
        nnx.update(ad.net, jax.tree_util.tree_unflatten(treedef, new))
        ad.other = other_digest(ad.net)
        return
    before = other_digest(ad.net)
    if op == "SetParams":
        C.set_params(ad.net, jnp.asarray(np.asarray(args[0], dtype=np.float32)))
    elif op == "FlatParams":
        v = np.asarray(C.flat_params(ad.net))
        if v.ndim != 1 or v.dtype != np.float32:
            raise Mismatch(f"flat_params returns shape {v.shape} dtype {v.dtype}", key="params:flat:shape")
        ad.vec_arr = v
        ad.vec = [int(x) for x in v]
        if ad.vec != list(exp):
            raise Mismatch(f"flat_params returns {ad.vec}, model {list(exp)}", key="params:flat:order")
    elif op == "WriteBack":
        C.set_params(ad.net, jnp.asarray(ad.vec_arr))
    else:  # pragma: no cover
        raise AssertionError(op)
    ad.ops += 1
    if other_digest(ad.net) != before:
        raise Mismatch(f"{op} changed variables that are not nnx.Param", key="params:non_param_changed")


def pn_project(ad: PN):
    leaves = [] if ad.net is None else [[int(x) for x in np.asarray(l).ravel()] for l in param_leaves(ad.net)]
    return {"arch": ad.arch, "leaves": leaves, "vec": list(ad.vec), "ops": ad.ops}


SPECIALS = np.array([0x7FC00000, 0xFFC00001, 0x80000000, 0x00000000, 0x7F800000, 0xFF800000, 0x00000001, 0x807FFFFF, 0x3F800001, 0x7F7FFFFF], dtype=np.uint32)


def special_round_trip(name, make, seed):
    """bitwise identity on vectors with NaN payloads, signed zeros, infinities, subnormals"""
    import jax.numpy as jnp

    from rl_blox.algorithm import cmaes as C

    net = make()
    p0 = np.asarray(C.flat_params(net))
    rng = np.random.default_rng(seed)
    v = rng.integers(0, 2**32, size=len(p0), dtype=np.uint32)
    snan = ((v & 0x7F800000) == 0x7F800000) & ((v & 0x007FFFFF) != 0)
    v[snan] |= 0x00400000  # quiet NaNs only: signalling NaNs may legitimately be quietened by a copy
    idx = rng.permutation(len(p0))[: min(len(SPECIALS), len(p0))]
    v[idx] = SPECIALS[: len(idx)]
    vf = v.view(np.float32)
    C.set_params(net, jnp.asarray(vf))
    back = np.asarray(C.flat_params(net))
    if not (bits(back) == v).all():
        bad = int(np.flatnonzero(bits(back) != v)[0])
        return f"{name}: flat_params(set_params(v))[{bad}] has bits {int(bits(back)[bad]):#010x}, wrote {int(v[bad]):#010x}"
    before = [bits(l).copy() for l in param_leaves(net)]
    C.set_params(net, C.flat_params(net))
    after = [bits(l) for l in param_leaves(net)]
    if not all((a == b).all() for a, b in zip(before, after)):
        return f"{name}: set_params(net, flat_params(net)) changed a parameter"
    return None


def run_params(rep, quick):
    archs = architectures()
    sizes = [[int(np.prod(l.shape)) for l in param_leaves(make())] for _, make in archs]
    c = dict(MaxOps=3, EMIT=False)
    d = os.path.join(tlc.OUT, "tmp", f"c16archs-{os.getpid()}-{uuid.uuid4().hex[:6]}")
    os.makedirs(d, exist_ok=True)
    env = {"ARCHS_FILE": os.path.join(d, "archs.json")}
    with open(env["ARCHS_FILE"], "w") as fh:
        json.dump(sizes, fh)
    invs = ["LayoutOK", "FlatOfSetIsIdentity", "SetOfFlatIsIdentity"]
    r, bad, g = par(
        [
            lambda: tlc.run("OptimisersParams", tlc.cfg_text(constants=c, invariants=invs, properties=["VecIsSnapshot"]), workers=tw(), coverage=True, tag="params", env=env),
            lambda: tlc.run("OptimisersParams", tlc.cfg_text(constants=c, invariants=["FlatOfReversedSetIsIdentity"]), workers=tw(), tag="paramsbad", env=env),
            lambda: tlc.run("OptimisersParams", tlc.cfg_text(constants=dict(c, EMIT=True)), workers=1, tag="paramsgen", env=env),
        ]
    )
    shutil.rmtree(d, ignore_errors=True)
    rep.add_tlc(r, f"OptimisersParams: {len(sizes)} architectures, <= 3 calls")
    if not r.ok:
        rep.violation(f"spec:OptimisersParams:{r.violated}", f"design-level violation of {r.violated}", r.error_trace)
    require_taken(r, ["ChooseArch", "Next", "FlatParams", "WriteBack"])  # TLC reports `\\E v : SetParams(v)` under Next
    if bad.violated != "FlatOfReversedSetIsIdentity":
        raise tlc.MachineryError("canary: reversed leaf order not refuted")
    G = graph.Graph(g.emitted)
    res = graph.cover(G, G.roots()[0], lambda: PN(archs), pn_step, pn_project, clone=lambda o: o.clone())
    rep.traces += res["edges_tested"]
    for v in res["violations"]:
        a = v["path"][0]["args"][0]
        key = v.get("detail", {}).get("key") or ("params:" + (v["what"].split(":")[0].replace(" ", "_") if v["what"].startswith("exception") else "round_trip"))
        rep.violation(key, f"flat_params/set_params on {archs[a - 1][0]}: {v['what']}", {"kind": "params", "path": v["path"], "detail": v["detail"]})
    # binding canary
    e0 = copy.deepcopy(next(e for e in g.emitted if e["op"] == "FlatParams" and e["pre"]["ops"] == 0))
    arch_edge = next(e for e in g.emitted if e["op"] == "Arch" and e["post"] == e0["pre"])
    e0["exp"] = list(reversed(e0["exp"]))
    e0["post"]["vec"] = list(e0["exp"])
    badres = graph.cover(graph.Graph([arch_edge, e0]), graph.canon(arch_edge["pre"]), lambda: PN(archs), pn_step, pn_project, clone=lambda o: o.clone())
    if not badres["violations"]:
        raise tlc.MachineryError("binding canary: corrupted expected flat vector not noticed")
    n_special = 0
    for rnd in range(1 if quick else 4):
        for name, make in archs:
            try:
                msg = special_round_trip(name, make, rep.seed + 101 * rnd)
            except Exception as ex:  # noqa: BLE001
                msg = f"{name}: exception {type(ex).__name__}: {str(ex)[:100]}"
            n_special += 1
            rep.traces += 1
            if msg:
                rep.violation("params:round_trip:bitwise", msg, {"kind": "params-special", "arch": name, "seed": rep.seed + 101 * rnd})
    rep.sample({"params": archs[2][0], "leaf_sizes": sizes[2], "transition": {k: g.emitted[5][k] for k in ("op", "exp")}})
    rep.extra["params"] = {"architectures": [a for a, _ in archs], "leaf_sizes": sizes, "graph_edges_replayed": res["edges_tested"], "special_value_round_trips": n_special}
    return res["edges_tested"], sum(1 for k, es in G.out.items() for e in es if e[0] != "Arch")


# ================================================================== cross-entropy method
class StubTN:
    """stands in for jax.random.truncated_normal: returns the model's draws"""

    def __init__(self, t):
        self.t = t
        self.calls = []

    def __call__(self, key, lower, upper, shape=(), dtype=float):
        import jax.numpy as jnp

        self.calls.append((float(lower), float(upper), tuple(shape)))
        return jnp.asarray(self.t)


def xq(c):
    """extended rational of OptimisersCem: [1, 0] = +inf, [-1, 0] = -inf, else the Fraction"""
    if isinstance(c, (list, tuple)) and int(c[1]) == 0:
        return float("inf") if int(c[0]) > 0 else float("-inf")
    return exact.q(c)


def qarr(x):
    return np.asarray([[float(xq(c)) for c in row] for row in x], dtype=np.float32) if isinstance(x[0][0], list) else np.asarray([float(xq(c)) for c in x], dtype=np.float32)


def box_text(vec):
    return f"box {[str(xq(c)) for c in vec['lb']]}..{[str(xq(c)) for c in vec['ub']]}, mean {[str(xq(c)) for c in vec['mean']]}, var {[str(xq(c)) for c in vec['var']]}"


def close_q(v, xq, scale, roundings):
    """v == rational exactly, or within `roundings` float32 roundings at magnitude `scale`"""
    if Fraction(float(v)) == xq:
        return True
    return roundings > 0 and abs(Fraction(float(v)) - xq) <= roundings * Fraction(ulp32(scale)) / 2 * 2


def cem_case(vec, fit, adm, corrupt=False):
    """one TLC vector into cem_sample (+ cem_update); returns None or (key, message)"""
    from unittest import mock

    import jax
    import jax.numpy as jnp

    from rl_blox.blox import cross_entropy_method as M

    n = vec["n"]
    mean, var, lb, ub = (jnp.asarray(qarr(vec[k])) for k in ("mean", "var", "lb", "ub"))
    t = np.asarray([[float(exact.q(c)) for c in row] for row in vec["t"]], dtype=np.float32)
    stub = StubTN(t)
    try:
        with mock.patch.object(jax.random, "truncated_normal", stub):
            s = M.cem_sample(mean, var, jax.random.key(0), n, lb, ub)
    except Exception as ex:  # noqa: BLE001
        return ("cem_sample:exception:" + type(ex).__name__, f"cem_sample raised {type(ex).__name__}: {str(ex)[:120]}")
    if stub.calls != [(-2.0, 2.0, (n, len(vec["mean"])))]:
        return ("cem_sample:truncation", f"truncated normal requested as {stub.calls}, expected one draw in (-2, 2) of shape {(n, len(vec['mean']))}")
    s = np.asarray(s)
    want = vec["samples"]
    inbox = vec.get("inbox")
    if corrupt == "inbox":
        inbox = copy.deepcopy(inbox)
        inbox[0][0] = not inbox[0][0]
    elif corrupt:
        want = copy.deepcopy(want)
        want[0][0] = [want[0][0][0] + want[0][0][1], want[0][0][1]]
    lbn, ubn = qarr(vec["lb"]), qarr(vec["ub"])
    if s.shape != (n, len(vec["mean"])):
        return ("cem_sample:shape", f"population of shape {s.shape}, expected {(n, len(vec['mean']))}")
    if inbox is not None:
        # the order predicate lb <= candidate <= ub of every candidate against TLC's verdict (a NaN is inside nothing)
        for i in range(n):
            for j in range(len(vec["mean"])):
                got = bool(lbn[j] <= s[i, j] <= ubn[j])
                if got != bool(inbox[i][j]):
                    one_sided = bool(np.isinf(lbn[j]) != np.isinf(ubn[j]))
                    where = f"candidate {i} dim {j} = {s[i, j]!r} with t = {xq(vec['t'][i][j])}; {box_text(vec)}; specification: candidate {xq(want[i][j])}, inside the box: {inbox[i][j]}"
                    if np.isnan(s[i, j]):
                        return ("cem_sample:nan_candidate" + (":one_sided_box" if one_sided else ""), "cem_sample proposes NaN: " + where)
                    return ("cem_sample:candidate_outside_bounds", "cem_sample proposes a candidate outside the bounds: " + where)
    for i in range(n):
        for j in range(len(vec["mean"])):
            w = exact.q(want[i][j])
            # exact = FALSE (TLC): the exact candidate is no float32 number; the final addition mean + t * sd rounds once
            ok = exact.eq(s[i, j], want[i][j]) if vec.get("exact", True) else bool(np.isfinite(s[i, j]) and np.float32(float(w)) == s[i, j])
            if not ok:
                return ("cem_sample:value", f"candidate {i} dim {j} = {s[i, j]!r}, model {w}{'' if vec.get('exact', True) else ' rounded to float32 = ' + repr(np.float32(float(w)))} ({box_text(vec)}, t {vec['t'][i][j]})")
    if fit is None:
        return None
    ne, alpha = vec["ne"], float(exact.q(vec["alpha"]))
    f = jnp.asarray(np.asarray([{INF: np.inf, -INF: -np.inf}.get(c, float(c)) for c in fit], dtype=np.float32))
    try:
        m2, v2 = M.cem_update(jnp.asarray(s), f, mean, var, ne, alpha)
    except Exception as ex:  # noqa: BLE001
        return ("cem_update:exception:" + type(ex).__name__, f"cem_update raised {type(ex).__name__}: {str(ex)[:120]}")
    m2, v2 = np.asarray(m2), np.asarray(v2)
    dyadic = ne in (1, 2, 4)
    xs = np.abs(np.asarray(s, dtype=np.float64))
    ok_any, mean_any = False, False
    for o in adm:
        okm = all(np.isfinite(m2[j]) and close_q(m2[j], exact.q(o["mean"][j]), max(xs[:, j].max(), abs(float(exact.q(vec["mean"][j])))), 0 if dyadic else 4) for j in range(len(m2)))
        spread = [max((xs[:, j].max() + xs[:, j].max()) ** 2, float(exact.q(vec["var"][j]))) for j in range(len(m2))]
        okv = all(np.isfinite(v2[j]) and close_q(v2[j], exact.q(o["var"][j]), spread[j], 0 if dyadic else 8) for j in range(len(v2)))
        mean_any |= okm
        ok_any |= okm and okv
    if not mean_any:
        return ("cem_update:mean_not_from_best_elites", f"new mean {m2.tolist()} matches no admissible elite set {[(o['elite'], [str(exact.q(x)) for x in o['mean']]) for o in adm]} (fitness {fit}, n_elite {ne}, alpha {alpha})")
    if not ok_any:
        return ("cem_update:var_not_from_best_elites", f"new variance {v2.tolist()} matches no admissible elite set {[(o['elite'], [str(exact.q(x)) for x in o['var']]) for o in adm]} (fitness {fit}, n_elite {ne}, alpha {alpha})")
    if not ((m2 >= lbn).all() and (m2 <= ubn).all()) and dyadic:
        return ("cem_update:mean_outside_bounds", f"new mean {m2.tolist()} outside [{lbn.tolist()}, {ubn.tolist()}]")
    return None


CEM_INVS = ["SamplesWithinBounds", "SpreadReachesNoFace", "ElitesExist", "ElitesAreTheBest", "MeanWithinBounds", "VarNonNegative"]


def box_fact(x, lb, ub, tol, what):
    x, lb, ub = (np.asarray(a, dtype=np.float64) for a in (x, lb, ub))
    scale = np.maximum(np.maximum(np.abs(lb), np.abs(ub)), ub - lb)
    u = np.asarray([ulp32(s) for s in scale])
    over = int(np.ceil(np.max(np.maximum(x - ub, 0) / u)))
    under = int(np.ceil(np.max(np.maximum(lb - x, 0) / u)))
    return {"kind": "box", "what": what, "over": over, "under": under, "tol": tol}


def side_box_fact(x, lb, ub, ref_lo, ref_hi, tol, what):
    """the box fact for boxes with a bound at infinity or a mean much closer to one face than the box is wide: the
    excess beyond a face is counted in float32 ulps of max(|that face|, ref) - the magnitudes the roundings of
    mean + t * sqrt(min(var, (dist/2)^2)) act on (ref: the distance of the mean to that face for cem_sample, the
    largest candidate / mean for optimize_cem) -, not in ulps of the extent of the box; an infinite face cannot be
    exceeded; nan: some value is NaN"""
    x, lb, ub, ref_lo, ref_hi = (np.asarray(a, dtype=np.float64) for a in (x, lb, ub, ref_lo, ref_hi))
    x = x.reshape(-1, lb.shape[0])
    nan = bool(np.isnan(x).any())
    xs = np.where(np.isnan(x), lb if np.isfinite(lb).all() else 0.0, x)
    u_lo = np.asarray([ulp32(max(abs(b), r)) if np.isfinite(b) else 1.0 for b, r in zip(lb, ref_lo)])
    u_hi = np.asarray([ulp32(max(abs(b), r)) if np.isfinite(b) else 1.0 for b, r in zip(ub, ref_hi)])
    over = np.where(np.isfinite(ub), np.maximum(xs - np.where(np.isfinite(ub), ub, 0.0), 0) / u_hi, np.where(np.isposinf(xs), 1.0, 0.0))
    under = np.where(np.isfinite(lb), np.maximum(np.where(np.isfinite(lb), lb, 0.0) - xs, 0) / u_lo, np.where(np.isneginf(xs), 1.0, 0.0))
    return {"kind": "box", "what": what, "over": int(min(np.ceil(over.max()), 2**30)), "under": int(min(np.ceil(under.max()), 2**30)), "tol": tol, "nan": nan}


def edge_boxes(rng, case):
    """one-sided and wide boxes for the real generator: (lb, ub, mean, var), float32, the nearer face the active limit"""
    d = 1 + case % 2
    kind = case % 4
    near = rng.choice([0.02, 0.3, 1.0 / 64, 1e-3], size=d)  # distance of the mean to its nearer face
    if kind == 0:  # bounded below only
        lb, ub = rng.choice([0.0, -1.0, 2.5], size=d), np.full(d, np.inf)
        mean = lb + near
    elif kind == 1:  # bounded above only
        lb, ub = np.full(d, -np.inf), rng.choice([0.0, 1.0, -2.5], size=d)
        mean = ub - near
    elif kind == 2:  # box ~1e6 .. 3e7 times wider than the distance of the mean to the lower face
        lb = rng.choice([0.0, -1.0, 6.99], size=d)
        ub = lb + rng.choice([1e6, 3e7, 2.0**20], size=d)
        mean = lb + near
    else:  # ... to the upper face
        ub = rng.choice([0.0, 1.0, -6.99], size=d)
        lb = ub - rng.choice([1e6, 3e7, 2.0**20], size=d)
        mean = ub - near
    lb, ub, mean = (np.asarray(a, dtype=np.float32) for a in (lb, ub, mean))
    mean = np.clip(mean, lb, ub)
    var = np.asarray(rng.choice([1.0, 4.0, 100.0], size=d), dtype=np.float32)
    return lb, ub, mean, var


def run_cem(rep, quick):
    import jax
    import jax.numpy as jnp

    from rl_blox.blox import cross_entropy_method as M

    S = tlc.Subst
    base = dict(Lattice="small", NPats=1, STOP="updated", EMIT=False)
    sample_cfg = dict(NPops={2, 3, 5} if quick else {2, 3, 4, 5, 6}, Alphas=S("AlphaDefault"), Lattice="full", Fits=S("CFitTies"), NPats=2 if quick else 3, STOP="sampled", EMIT=False)
    if quick:
        upd_cfgs = [
            dict(base, NPops={2}, Alphas=S("AlphasAll"), Fits=S("CFitInf")),
            dict(base, NPops={3}, Alphas=S("AlphaDefault"), Fits=S("CFitInf"), Lattice="tiny"),
            dict(base, NPops={4}, Alphas=S("AlphaDefault"), Fits=S("CFitThree"), Lattice="tiny"),
        ]
    else:
        upd_cfgs = [
            dict(base, NPops={2, 3}, Alphas=S("AlphasAll"), Fits=S("CFitInf")),
            dict(base, NPops={4}, Alphas=S("AlphasAll"), Fits=S("CFitThree")),
            dict(base, NPops={4}, Alphas=S("AlphaDefault"), Fits=S("CFitInf")),
            dict(base, NPops={5, 6}, Alphas=S("AlphasSome"), Fits=S("CFitTies")),
            dict(base, NPops={2, 3}, Alphas=S("AlphasSome"), Fits=S("CFitTies"), Lattice="full"),
        ]
    # legal but unusual boxes (OptimisersCem!EdgeBoxes): a bound at infinity, a box 2^20 .. 2^23 times wider than the
    # distance of the mean to its nearer face; cem_sample alone and the whole iteration
    edge_cfgs = [
        dict(NPops={3} if quick else {2, 3, 6}, Alphas=S("AlphaDefault"), Lattice="edge", Fits=S("CFitTies"), NPats=2 if quick else 3, STOP="sampled", EMIT=False),
        dict(NPops={2} if quick else {2, 3}, Alphas=S("AlphasSome") if quick else S("AlphasAll"), Lattice="edge", Fits=S("CFitTies"), NPats=1, STOP="updated", EMIT=False),
    ]
    cfgs = [sample_cfg] + upd_cfgs + edge_cfgs
    jobs = [lambda c=c: tlc.run("OptimisersCem", tlc.cfg_text(constants=c, invariants=CEM_INVS), workers=tw(), tag="cem") for c in cfgs]
    jobs += [lambda c=c: tlc.run("OptimisersCem", tlc.cfg_text(constants=dict(c, EMIT=True)), workers=1, tag="cemgen") for c in cfgs]
    cb = dict(NPops={2, 3}, Alphas=tlc.Subst("AlphasSome"), Lattice="small", Fits=tlc.Subst("CFitTies"), NPats=1, STOP="updated", EMIT=False)
    jobs += [
        lambda: tlc.run("OptimisersCem", tlc.cfg_text(constants=cb, invariants=CEM_INVS), workers=tw(), coverage=True, tag="cemcov"),
        lambda: tlc.run("OptimisersCem", tlc.cfg_text(next="NextBadSample", constants=cb, invariants=["SamplesWithinBounds"]), workers=tw(), tag="cembad"),
        lambda: tlc.run("OptimisersCem", tlc.cfg_text(constants=cb, invariants=["ExtrapolatedWithinBounds"]), workers=tw(), tag="cembad"),
        lambda: tlc.run("OptimisersCem", tlc.cfg_text(next="NextBadSample", constants=dict(cb, Lattice="edge", NPops={2}), invariants=["SamplesWithinBounds"]), workers=tw(), tag="cembad"),
    ]
    results = par(jobs)
    if results.pop().violated != "SamplesWithinBounds":
        raise tlc.MachineryError("canary: unconstrained variance on the one-sided / wide boxes not refuted")
    k = len(cfgs)
    for c, r in zip(cfgs, results[:k]):
        name = f"OptimisersCem NPops={sorted(c['NPops'])} lattice={c['Lattice']} fits={c['Fits'].name} stop={c['STOP']}"
        rep.add_tlc(r, name)
        if not r.ok:
            rep.violation(f"spec:OptimisersCem:{r.violated}", f"design-level violation of {r.violated} ({name})", r.error_trace)
    require_taken(results[-3], ["ChooseConfig", "ChooseDist", "ChooseNoise", "SampleWith", "ChooseFitness", "CemUpdate"])
    if results[-2].violated != "SamplesWithinBounds" or results[-1].violated != "ExtrapolatedWithinBounds":
        raise tlc.MachineryError("canary: CEM deviations (unconstrained variance / extrapolated mean) not refuted")
    n_vec = nontriv = 0
    first = True
    edge_stats = {"one_sided_or_unbounded": 0, "wide_boxes": 0, "rounded_candidates": 0}
    for r in results[k : 2 * k]:
        for e in r.emitted:
            vec, fit, adm = (e["vec"], e["fit"], e["adm"]) if "vec" in e else (e, None, None)
            if first and fit is not None:
                first = False
                if cem_case(vec, fit, adm, corrupt=True) is None:
                    raise tlc.MachineryError("binding canary: corrupted expected CEM sample not noticed")
                if cem_case(vec, fit, adm, corrupt="inbox") is None:
                    raise tlc.MachineryError("binding canary: corrupted in-box predicate of a CEM candidate not noticed")
            out = cem_case(vec, fit, adm)
            n_vec += 1
            lo, hi, mu = (float(xq(vec[f][0])) for f in ("lb", "ub", "mean"))
            if np.isinf(lo) or np.isinf(hi):
                edge_stats["one_sided_or_unbounded"] += 1
            elif hi - lo >= 4096:
                edge_stats["wide_boxes"] += 1
            edge_stats["rounded_candidates"] += 0 if vec.get("exact", True) else 1
            if fit is None:
                half = Fraction(min(mu - lo, hi - mu)) / 2 if np.isfinite(min(mu - lo, hi - mu)) else None
                nontriv += 1 if half is not None and half * half < exact.q(vec["var"][0]) else 0  # a face of the box limits the spread
            else:
                nontriv += 1 if len(set(fit)) > 1 or len(adm) > 1 else 0
            if out:
                rep.violation(out[0], out[1], {"kind": "cem", "vec": vec, "fit": fit, "adm": adm})
        if r.emitted:
            rep.sample({"cem": r.emitted[len(r.emitted) // 3]}, cap=6)
    rep.traces += n_vec

    # ---- real generator: candidates and means inside the box (TLC judges the excess facts)
    facts = []
    rng = np.random.default_rng(rep.seed + 5)
    key = jax.random.key(s31(rep.seed + 5))
    for case in range(6 if quick else 40):
        d = 1 + case % 3
        dy = case % 2 == 0
        if dy:
            lb = rng.integers(-8, 0, size=d) / 4.0
            ub = lb + rng.integers(1, 16, size=d) / 4.0
            mean = lb + (ub - lb) * rng.integers(0, 5, size=d) / 4.0
            var = 4.0 ** rng.integers(-2, 2, size=d)
        else:
            lb = rng.uniform(-3, 1, size=d)
            ub = lb + rng.uniform(0.01, 4, size=d)
            mean = lb + (ub - lb) * rng.choice([0.0, 1.0, 0.3, 0.999999], size=d)
            var = rng.uniform(0.01, 9, size=d)
        lb, ub, mean, var = (np.asarray(a, dtype=np.float32) for a in (lb, ub, mean, var))
        mean = np.clip(mean, lb, ub)
        key, k1, k2 = jax.random.split(key, 3)
        try:
            s = np.asarray(M.cem_sample(jnp.asarray(mean), jnp.asarray(var), k1, 512, jnp.asarray(lb), jnp.asarray(ub)))
            facts.append(dict(box_fact(s, lb, ub, 0 if dy else 3, "cem_sample"), case=case))
            iters, n, ne = 4, 8, 2 + case % 3
            sol, path, hist = M.optimize_cem(lambda x: -jnp.sum((x - 0.7) ** 2, axis=1), jnp.asarray(mean), jnp.asarray(var), k2, iters, n, ne, jnp.asarray(lb), jnp.asarray(ub), epsilon=0.0, return_history=True)
            facts.append(dict(box_fact(np.asarray(hist), lb, ub, 3 + iters * (ne + 3), "optimize_cem samples"), case=case))
            facts.append(dict(box_fact(np.asarray(path), lb, ub, iters * (ne + 3), "optimize_cem means"), case=case))
        except Exception as ex:  # noqa: BLE001
            rep.violation("cem:exception:" + type(ex).__name__, f"CEM with a real generator raised {type(ex).__name__}: {str(ex)[:120]}", {"kind": "cem-real", "case": case, "seed": rep.seed})
    # ---- real generator on one-sided and wide boxes: 6 roundings between the exact and the computed candidate (mean - lb,
    #      the square, its root, t * sd, the sum, the half-ulp of the face itself)
    n_plain = len(facts)
    for case in range(8 if quick else 48):
        lb, ub, mean, var = edge_boxes(rng, case)
        key, k1, k2 = jax.random.split(key, 3)
        desc = {"kind": "cem-real-edge", "case": case, "seed": rep.seed, "lb": lb.tolist(), "ub": ub.tolist(), "mean": mean.tolist(), "var": var.tolist()}
        try:
            s = np.asarray(M.cem_sample(jnp.asarray(mean), jnp.asarray(var), k1, 512, jnp.asarray(lb), jnp.asarray(ub)))
            facts.append(dict(side_box_fact(s, lb, ub, mean - lb, ub - mean, 6, "cem_sample"), case=case, desc=desc))
            iters, n, ne = 3, 8, 2 + case % 3
            target = np.where(np.isfinite(lb), lb, ub) + np.float32(0.7)
            sol, path, hist = M.optimize_cem(lambda x: -jnp.sum((x - target) ** 2, axis=1), jnp.asarray(mean), jnp.asarray(var), k2, iters, n, ne, jnp.asarray(lb), jnp.asarray(ub), epsilon=0.0, return_history=True)
            path, hist = np.asarray(path), np.asarray(hist)
            big = np.nanmax(np.abs(np.concatenate([hist.reshape(-1, lb.shape[0]), path.reshape(-1, lb.shape[0])])), axis=0)
            facts.append(dict(side_box_fact(hist, lb, ub, big, big, 6 + iters * (ne + 3), "optimize_cem samples"), case=case, desc=desc))
            facts.append(dict(side_box_fact(path, lb, ub, big, big, iters * (ne + 3), "optimize_cem means"), case=case, desc=desc))
        except Exception as ex:  # noqa: BLE001
            rep.violation("cem:exception:" + type(ex).__name__, f"CEM with a real generator raised {type(ex).__name__}: {str(ex)[:120]}", desc)
    res, failed = judge_facts([{k: v for k, v in f.items() if k != "desc"} for f in facts], tag="cemfacts")
    rep.add_tlc(res, f"OptimisersFacts: {len(facts)} box facts (real generator; {len(facts) - n_plain} on one-sided / wide boxes)")
    for idx, preds in failed:
        f = facts[idx]
        if "NoNaN" in preds:
            d = f["desc"]
            one_sided = any(np.isinf(a) != np.isinf(b) for a, b in zip(d["lb"], d["ub"]))
            rep.violation("cem:nan:" + f["what"].replace(" ", "_") + (":one_sided_box" if one_sided else ""), f"{f['what']} yields NaN for box {d['lb']}..{d['ub']}, mean {d['mean']}, var {d['var']}", d)
            continue
        rep.violation("cem:outside_bounds:" + f["what"].replace(" ", "_"), f"{f['what']}: {f['over']} ulp above / {f['under']} ulp below the box (tolerated {f['tol']})" + (f"; box {f['desc']['lb']}..{f['desc']['ub']}, mean {f['desc']['mean']}, var {f['desc']['var']}, ulps of max(|face|, distance of the mean to it)" if "desc" in f else ""),
                      f.get("desc", {"kind": "cem-real", "case": f["case"], "seed": rep.seed}))
    rep.traces += len(facts)
    rep.extra["cem"] = {"vectors_replayed": n_vec, "box_facts": len(facts), "edge_lattice_vectors": edge_stats, "box_facts_one_sided_or_wide": len(facts) - n_plain}
    return n_vec, nontriv


# ================================================================== train_cmaes (code -> spec)
def make_script_env(script, events, rec):
    import gymnasium as gym

    class ScriptEnv(gym.Env):
        """episode e pays script[e][t] at step t and ends after len(script[e]) steps;
        observations are tags [episode, t] (device D1)"""

        observation_space = gym.spaces.Box(-np.inf, np.inf, (2,), np.float32)
        action_space = gym.spaces.Box(-np.inf, np.inf, (1,), np.float32)

        def __init__(self):
            self.ep = -1
            self.t = 0

        def reset(self, *, seed=None, options=None):
            self.ep += 1
            self.t = 0
            events.append({"op": "Reset"})
            return np.asarray([self.ep, 0], dtype=np.float32), {}

        def step(self, action):
            rewards = script[min(max(self.ep, 0), len(script) - 1)]
            r = rewards[self.t] if self.t < len(rewards) else 0
            done = self.t + 1 >= len(rewards)
            events.append({"op": "Step", "t": self.t, "actor": rec.who(np.asarray(action).ravel()[:1], column=True), "r": r, "done": bool(done)})
            self.t += 1
            trunc = done and self.ep % 2 == 1
            return np.asarray([self.ep, self.t], dtype=np.float32), cls2float(r), bool(done and not trunc), bool(trunc), {}

    return ScriptEnv()


class TrainRecorder:
    def __init__(self, n, total):
        self.n, self.total = n, total
        self.events = []
        self.pops = []
        self.state = None
        self.cfg = None
        self.ver = 0
        self.dig = None
        self.init_mean = None

    def track(self):
        st = self.state
        d = digest(st.mean, st.cov, np.float32(st.var), st.ps, st.pc, st.invsqrtC)
        if self.dig is not None and d != self.dig:
            self.ver += 1
        self.dig = d

    def who(self, p, column=False, anywhere=False):
        """candidate id of a parameter vector (or of its first component)"""
        pops = list(enumerate(self.pops))
        for gi, pop in reversed(pops) if anywhere else reversed(pops[-1:]):
            for k in range(len(pop)):
                if same_bits(p, pop[k][:1] if column else pop[k]):
                    return gi * self.n + k + 1
        if self.state is not None:
            m = np.asarray(self.state.mean)
            if same_bits(p, m[:1] if column else m):
                return 0
        if anywhere and self.init_mean is not None and same_bits(p, self.init_mean):
            return 0
        return -5


def matches_of(cfg, samples, mean):
    import itertools

    w = np.asarray(cfg.weights, dtype=np.float32)
    mu, out = len(w), []
    for perm in itertools.permutations(range(len(samples)), mu):
        sel = list(perm)
        if mu == 1:
            ok = same_bits(mean, samples[sel[0]])
        else:
            terms = w.astype(np.float64)[:, None] * samples[sel].astype(np.float64)
            ok = bool((np.abs(mean.astype(np.float64) - terms.sum(axis=0)) <= 2 * mu * U24 * np.abs(terms).sum(axis=0) + 2.0**-149).all())
        if ok:
            out.append(sel)
    return out


def record_train(n, d, total, script, active, seed):
    """run the real train_cmaes on the scripted environment with its collaborators interposed"""
    from unittest import mock

    import jax.numpy as jnp
    from flax import nnx

    from rl_blox.algorithm import cmaes as C

    rec = TrainRecorder(n, total)
    ev = rec.events

    class TagPolicy(nnx.Module):
        def __init__(self):
            self.theta = nnx.Param(jnp.asarray(np.arange(d, dtype=np.float32) * 0.5 + 0.25))

        def __call__(self, obs):
            return self.theta.value[:1] + 0.0 * jnp.sum(obs)

    orig = {k: getattr(C, k) for k in ("sample_population", "get_next_parameters", "set_params", "set_evaluation_feedback", "is_cmaes_finished", "update_search_distribution")}

    def sample_population(config, state):
        out = orig["sample_population"](config, state)
        if rec.state is None:
            rec.init_mean = np.asarray(state.mean).copy()
        rec.state, rec.cfg = state, config
        rec.pops.append(np.asarray(out).copy())
        rec.track()
        ev.append({"op": "Sample", "total": total, "n": int(config.n_samples_per_update), "maximize": bool(config.maximize), "active": bool(config.active)})
        return out

    def get_next_parameters(config, state, population):
        out = orig["get_next_parameters"](config, state, population)
        w = rec.who(np.asarray(out))
        ev.append({"op": "Ask", "k": (w - 1) % n if w > 0 else -1})
        return out

    def set_params(net, params):
        orig["set_params"](net, params)
        ev.append({"op": "SetParams", "id": rec.who(np.asarray(params)), "ver": rec.ver})

    def set_evaluation_feedback(config, state, population, feedback):
        orig["set_evaluation_feedback"](config, state, population, feedback)
        rec.track()
        ev.append({"op": "Tell", "f": float2cls(feedback), "it": int(state.it), "bestFit": float2cls(state.best_fitness), "bestId": rec.who(np.asarray(state.best_params), anywhere=True), "ver": rec.ver})

    def is_cmaes_finished(config, state, population, logger):
        out = orig["is_cmaes_finished"](config, state, population, logger)
        ev.append({"op": "Finished", "res": bool(out)})
        return out

    def update_search_distribution(config, state, population):
        samples = np.asarray(population.samples).copy()
        orig["update_search_distribution"](config, state, population)
        rec.track()
        ev.append({"op": "Update", "ver": rec.ver, "matches": matches_of(config, samples, np.asarray(state.mean))})

    env = make_script_env(script, ev, rec)
    policy = TagPolicy()
    import warnings

    with warnings.catch_warnings(), mock.patch.multiple(C, sample_population=sample_population, get_next_parameters=get_next_parameters, set_params=set_params, set_evaluation_feedback=set_evaluation_feedback, is_cmaes_finished=is_cmaes_finished, update_search_distribution=update_search_distribution):
        warnings.simplefilter("ignore")  # "[CMA-ES] Stopping: ..." is expected in the scripted runs
        result = C.train_cmaes(env, policy, total_episodes=total, seed=seed, variance=0.5, n_samples_per_update=n, active=active, progress_bar=False)
    ev.append(
        {
            "op": "Return",
            "best": float2cls(result.best_fitness),
            "stopped": bool(result.stopped),
            "policyIsMean": bool(result.policy is policy and same_bits(np.asarray(C.flat_params(policy)), np.asarray(rec.state.mean))),
        }
    )
    return ev


def validate_traces(module, traces, constants, invariants, init="Init", next="Next", tag="trace"):
    """TLC validates a batch of traces; returns (result, index of the first rejected trace or None, stuck event index)"""
    d = os.path.join(tlc.OUT, "tmp", f"c16trace-{os.getpid()}-{uuid.uuid4().hex[:6]}")
    os.makedirs(d, exist_ok=True)
    path = os.path.join(d, "traces.json")
    with open(path, "w") as f:
        json.dump(traces, f)
    try:
        r = tlc.run(module, tlc.cfg_text(init=init, next=next, constants=constants, invariants=invariants), workers=1, env={"TRACE_FILE": path}, tag=tag)
    finally:
        shutil.rmtree(d, ignore_errors=True)
    if r.ok:
        return r, None, None
    tail = r.stdout[r.stdout.rfind("\nState ") :]  # the last state of the counterexample
    mt = re.search(r"/\\ tr = (\d+)", tail)
    mi = re.search(r"/\\ i = (\d+)", tail)
    return r, (int(mt.group(1)) - 1 if mt else 0), (int(mi.group(1)) if mi else -1)


TRAIN_INVS = ["Accepted", "TypeOK", "TrainUpdateEveryN", "TrainIncumbentNeverNaN", "OneEpisodePerCandidate"]


def train_plan(quick, seed):
    rng = np.random.default_rng(seed + 77)

    def script(total, special=None):
        eps = []
        for e in range(total):
            ln = int(rng.integers(1, 4))
            rs = [int(x) for x in rng.integers(-1, 2, size=ln)]
            eps.append(rs)
        if special:
            for e, c in special.items():
                eps[e][-1] = c
        return eps

    plan = [
        dict(n=3, d=2, total=8, active=False, script=script(8)),
        dict(n=2, d=3, total=7, active=True, script=script(7, {0: NAN, 3: INF})),  # non-finite fitness: ignored in generation 1, stops at the boundary after generation 2
    ]
    if not quick:
        plan += [
            dict(n=4, d=2, total=8, active=True, script=script(8, {1: -INF, 2: NAN})),
            dict(n=4, d=1, total=4, active=False, script=script(4)),
            dict(n=5, d=3, total=12, active=False, script=script(12, {7: NAN})),
            dict(n=2, d=2, total=6, active=False, script=[[1], [1], [1], [1], [1], [1]]),  # identical returns: fitness-spread stop
            dict(n=6, d=2, total=13, active=True, script=script(13)),
        ]
    return plan


def run_train(rep, quick):
    plan = train_plan(quick, rep.seed)
    groups = {}
    for pi, p in enumerate(plan):
        try:
            ev = record_train(p["n"], p["d"], p["total"], p["script"], p["active"], s31(rep.seed + pi))
        except Mismatch as m:
            rep.violation(m.detail.get("key", "train_cmaes:recorder"), f"train_cmaes: {m.what}", {"kind": "train", "plan": p, "seed": s31(rep.seed + pi)})
            continue
        except Exception as ex:  # noqa: BLE001
            import traceback

            tb = traceback.extract_tb(ex.__traceback__)
            rep.violation(f"train_cmaes:exception:{type(ex).__name__}", f"train_cmaes raised {type(ex).__name__} at {tb[-1].name}: {str(ex)[:120]}", {"kind": "train", "plan": p, "seed": s31(rep.seed + pi)})
            continue
        gens = -(-p["total"] // p["n"])
        groups.setdefault((p["n"], gens, p["active"]), []).append((pi, ev))
    n_events = 0
    for (n, gens, active), items in groups.items():
        c = dict(N=n, MaxGen=gens, Feed=tlc.Subst("FeedAll"), Maximize=True, Active=active, HIST=False, EMIT=False)
        traces = [ev for _, ev in items]
        r, bad, at = validate_traces("OptimisersTrain", traces, c, TRAIN_INVS, init="TInit", next="TNext", tag="train")
        rep.add_tlc(r, f"OptimisersTrain N={n} generations<={gens} active={active}: {len(traces)} trace(s), {sum(len(t) for t in traces)} events")
        n_events += sum(len(t) for t in traces)
        rep.traces += len(traces)
        if bad is not None:
            pi, ev = items[bad]
            op = ev[at]["op"] if r.violated == "Accepted" and 0 <= at < len(ev) else "end"
            rep.violation(
                f"train_cmaes:{r.violated}:{op}",
                f"train_cmaes trace (N={n}, active={active}) is not a behaviour of the ask/tell specification: {r.violated} at event {at} {ev[at] if 0 <= at < len(ev) else ''} (previous: {ev[max(0, at - 3):at]})",
                {"kind": "train", "plan": plan[pi], "seed": s31(rep.seed + pi), "stuck_at": at},
            )
    # canary: traces of realistic wrong loops must be rejected
    good = [(k, ev) for k, its in groups.items() for _, ev in its if any(e["op"] == "Update" for e in ev) and ev[-1]["op"] == "Return" and ev[-2]["op"] == "SetParams"]
    if not good and not rep.violations:
        raise tlc.MachineryError("no train_cmaes trace with an update to build the canaries from")
    if good:
        (n, gens, active), ev = good[0]
        c = dict(N=n, MaxGen=gens, Feed=tlc.Subst("FeedAll"), Maximize=True, Active=active, HIST=False, EMIT=False)
        no_reset = [e for j, e in enumerate(ev) if not (e["op"] == "Reset" and j > 2 and ev[j - 1]["op"] == "Step")]  # no reset between candidates
        j = next(j for j, e in enumerate(ev) if e["op"] == "Update")
        late_update = ev[:j] + ev[j + 2 :]  # generation boundary without update / fresh population
        wrong_final = copy.deepcopy(ev)
        wrong_final[-2]["id"] = 1  # a candidate instead of the mean
        for name, t in (("no reset between candidates", no_reset), ("missing update", late_update), ("final parameters are not the mean", wrong_final)):
            r, bad, at = validate_traces("OptimisersTrain", [t], c, ["Accepted"], init="TInit", next="TNext", tag="trainbad")
            if bad is None:
                raise tlc.MachineryError(f"canary: corrupted train_cmaes trace accepted ({name})")
        rep.sample({"train_cmaes": dict(N=n, active=active), "events": ev[:3] + ev[len(ev) // 2 : len(ev) // 2 + 4] + ev[-2:]}, cap=8)
    rep.extra["train_cmaes"] = {"runs": len(plan), "events_validated": n_events}
    return len(plan), len(plan)


# ================================================================== optimize_cem (code -> spec)
def record_cem_loop(p, seed):
    from unittest import mock

    import jax
    import jax.numpy as jnp

    from rl_blox.blox import cross_entropy_method as M

    ev = []
    d = p["d"]
    rng = np.random.default_rng(seed)
    mean0 = np.asarray(rng.integers(-2, 3, size=d) / 4.0, dtype=np.float32)
    var0 = np.asarray([p["var"] / 4.0**j for j in range(d)], dtype=np.float32)  # max(var) and min(var) differ
    lb, ub = np.full(d, -1.0, dtype=np.float32), np.full(d, 2.0, dtype=np.float32)
    dists = [digest(mean0, var0)]
    pops, fits, keys = [], [], set()
    eps = np.float32(p["eps"])
    orig_s, orig_u = M.cem_sample, M.cem_update

    def ver_of(mean, var):
        dg = digest(np.asarray(mean), np.asarray(var))
        return len(dists) - 1 - dists[::-1].index(dg) if dg in dists else -1  # latest version with these values

    def cem_sample(mean, var, step_key, n_population, lb_, ub_):
        out = orig_s(mean, var, step_key, n_population, lb_, ub_)
        kd = digest(np.asarray(jax.random.key_data(step_key)))
        ev.append({"op": "Sample", "dist": ver_of(mean, var), "n": int(n_population), "boxIsCallers": bool(same_bits(lb_, lb) and same_bits(ub_, ub)), "keyFresh": kd not in keys, "ordMaxVar": exact.ord32(np.max(np.asarray(var)))})
        keys.add(kd)
        pops.append(digest(np.asarray(out)))
        return out

    def fitness(x):
        f = -jnp.sum((x - 0.5) ** 2, axis=1)
        dg = digest(np.asarray(x))
        ev.append({"op": "Fitness", "population": pops.index(dg) if dg in pops else -1})
        fits.append(digest(np.asarray(f)))
        return f

    def cem_update(samples, f, mean, var, n_elite, alpha):
        out = orig_u(samples, f, mean, var, n_elite, alpha)
        ds, df = digest(np.asarray(samples)), digest(np.asarray(f))
        ev.append({"op": "Update", "population": pops.index(ds) if ds in pops else -1, "fitness": fits.index(df) if df in fits else -1, "dist": ver_of(mean, var), "ne": int(n_elite), "alphaIsCallers": float(alpha) == p["alpha"]})
        dists.append(digest(np.asarray(out[0]), np.asarray(out[1])))
        cem_update.last = out
        return out

    cem_update.last = (mean0, var0)
    ev.append({"op": "Call", "iters": p["iters"], "n": p["n"], "ne": p["ne"], "ordEps": exact.ord32(eps)})
    try:
        with mock.patch.multiple(M, cem_sample=cem_sample, cem_update=cem_update):
            res = M.optimize_cem(fitness, jnp.asarray(mean0), jnp.asarray(var0), jax.random.key(seed), p["iters"], p["n"], p["ne"], jnp.asarray(lb), jnp.asarray(ub), epsilon=float(eps), alpha=p["alpha"], return_history=p["hist"])
    except ValueError:
        ev.append({"op": "ValueError"})
        return ev
    t = len(dists) - 1
    sol = res[0] if p["hist"] else res
    path_ok = samples_ok = True
    path_len = t
    if p["hist"] and t > 0:
        path, hist = np.asarray(res[1]), np.asarray(res[2])
        path_len = len(path)
        path_ok = all(digest(path[k], np.asarray(cem_update.last[1])) == dists[k + 1] if k == t - 1 else True for k in range(min(t, len(path)))) and same_bits(path[-1], sol)
        samples_ok = hist.shape == (t * p["n"], d) and all(digest(hist[k * p["n"] : (k + 1) * p["n"]]) == pops[k] for k in range(t))
    ev.append({"op": "Return", "dist": t if same_bits(sol, cem_update.last[0]) else -1, "ordMaxVar": exact.ord32(np.max(np.asarray(cem_update.last[1]))), "pathLen": path_len, "pathIsMeans": bool(path_ok), "samplesArePopulations": bool(samples_ok)})
    return ev


def run_cemloop(rep, quick):
    plan = [
        dict(d=2, n=6, ne=2, iters=3, eps=0.001, var=1.0, alpha=0.25, hist=True),
        dict(d=1, n=4, ne=4, iters=2, eps=0.5, var=0.25, alpha=0.5, hist=False),  # var <= epsilon at the start: no iteration
        dict(d=2, n=3, ne=4, iters=2, eps=0.001, var=1.0, alpha=0.25, hist=False),  # more elites than candidates
        dict(d=3, n=8, ne=2, iters=6, eps=0.05, var=1.0, alpha=0.0, hist=True),  # epsilon stop in the middle
        dict(d=2, n=4, ne=1, iters=0, eps=0.001, var=1.0, alpha=0.25, hist=False),
        dict(d=2, n=4, ne=2, iters=1, eps=0.5, var=1.0, alpha=0.25, hist=True),  # min(var) <= epsilon < max(var): continues
    ]
    if not quick:
        plan += [dict(d=1 + k % 3, n=4 + k, ne=1 + k % 4, iters=1 + k % 5, eps=[0.001, 0.02, 0.2][k % 3], var=[1.0, 0.25, 4.0][k % 3], alpha=[0.25, 0.5, 0.0, 1.0][k % 4], hist=bool(k % 2)) for k in range(12)]
    traces = []
    for pi, p in enumerate(plan):
        try:
            traces.append((pi, record_cem_loop(p, s31(rep.seed + pi))))
        except Exception as ex:  # noqa: BLE001
            rep.violation(f"optimize_cem:exception:{type(ex).__name__}", f"optimize_cem raised {type(ex).__name__}: {str(ex)[:120]}", {"kind": "cemloop", "plan": p, "seed": s31(rep.seed + pi)})
    invs = ["Accepted", "IterationsBounded"]
    remaining = list(traces)
    n_events = sum(len(t) for _, t in traces)
    first = True
    while remaining:
        r, bad, at = validate_traces("OptimisersCemLoop", [t for _, t in remaining], dict(), invs, tag="cemloop")
        if first:
            rep.add_tlc(r, f"OptimisersCemLoop: {len(remaining)} optimize_cem traces, {n_events} events")
            first = False
        if bad is None:
            break
        pi, ev = remaining.pop(bad)
        op = ev[at]["op"] if 0 <= at < len(ev) else "end"
        rep.violation(f"optimize_cem:{r.violated}:{op}", f"optimize_cem trace rejected at event {at}: {ev[at] if 0 <= at < len(ev) else ''} (call {ev[0]})", {"kind": "cemloop", "plan": plan[pi], "seed": s31(rep.seed + pi)})
    rep.traces += len(traces)
    good = [t for _, t in traces if sum(e["op"] == "Update" for e in t) >= 2 and t[-1]["op"] == "Return"]
    if not good and not rep.violations:
        raise tlc.MachineryError("no optimize_cem trace with two updates to build the canaries from")
    if good:
        ev = copy.deepcopy(good[0])
        j = max(j for j, e in enumerate(ev) if e["op"] == "Update")
        ev[j]["dist"] -= 1  # update from a stale distribution
        ev2 = [e for e in good[0] if e["op"] != "Fitness"]
        for name, t in (("stale distribution", ev), ("fitness never evaluated", ev2)):
            r, bad, at = validate_traces("OptimisersCemLoop", [t], dict(), ["Accepted"], tag="cemloopbad")
            if bad is None:
                raise tlc.MachineryError(f"canary: corrupted optimize_cem trace accepted ({name})")
        rep.sample({"optimize_cem": good[0][:5]}, cap=8)
    rep.extra["optimize_cem"] = {"runs": len(plan), "events_validated": n_events}
    return len(plan), len(plan)


def run(rep):
    quick = rep.tier == "quick"
    for m in ("Optimisers", "OptimisersFacts", "OptimisersParams", "OptimisersCem", "OptimisersTrain", "OptimisersCemLoop"):
        tlc.sany(m)
    import time

    walls = rep.extra.setdefault("section_wall_s", {})

    def timed(f):
        t0 = time.time()
        out = f(rep, quick)
        walls[f.__name__] = round(time.time() - t0, 1)
        return out

    only = [x for x in os.environ.get("C16_ONLY", "").split(",") if x]  # development aid: run some sections only

    def section(f):
        return timed(f) if not only or f.__name__[4:] in only else (0, 0)

    e1, n1 = section(run_cmaes)
    e2, n2 = section(run_params)
    e3, n3 = section(run_cem)
    e4, n4 = section(run_train)
    e5, n5 = section(run_cemloop)
    if only:
        rep.extra["partial_run_sections"] = only
    rep.evaluations = e1 + e2 + e3 + e4 + e5
    rep.distinct = n1 + n2 + n3 + n4 + n5
    rep.exhaustive = True
    rep.rule = (
        "CMA-ES: TLC enumerates the complete reachable state graph of the ask/tell machine (populations 2-6, 2-3 generations, feedback classes "
        "incl. ties, +-inf, NaN, maximise/minimise, active/default); every transition (distinct pre-state, call, feedback class) is replayed once per "
        "adapter (real sample_population in dimension 1-3, one-hot coded population, 1-D z-lattice population) with the projected state compared after the call; "
        "non-trivial = an Update, or a Tell that meets an already evaluated incumbent. Parameters: every transition of the set/flat/write-back graph per architecture. "
        "CEM: every vector of the staged dyadic lattice (box, mean, sd, noise pattern, population, n_elite, alpha, fitness classes); non-trivial = a face of the box limits the spread / "
        "fitness not constant or several admissible elite sets. train_cmaes / optimize_cem: one recorded trace per scripted run, validated event by event."
    )
    rep.assumptions += [
        "the values of the rank-one / rank-mu covariance update, the evolution paths and the eigen-decomposition are NOT modelled (out of reach of TLA+); only symmetry (rounding bound), positive diagonal, finiteness and the step-size growth bound are decided, on logged float32 ordinals",
        "MeanIsWeightedBestMu: the SELECTION (which slots, in which rank order) is decided by TLC; the weighted average is compared bitwise for mu = 1 and for one-hot coded populations (every column has a single term w_r * 2^e); for sampled populations with mu >= 2 the projection recomputes sum_r w_r x_r in float64 and accepts (2 mu) half-ulps of sum |w_r x_r| - a weaker use",
        "positive variances under the active update are exposed with an injected 1-D population mean + z * sigma, z in {-5, 1/2, 2, -1, 4, -3} (inside the support |z| <= 5.42 of the float32 normal sampler), because sampled populations reach it only with probability ~1e-5 per generation",
        "the negative-update selection (worst mu) is bound to the code only in the first generation of coded populations (decoded from the covariance diagonal)",
        "CEM: exact on the dyadic lattice (n_elite in {1, 2, 4}: bitwise; otherwise 4 / 8 float32 roundings of the operand magnitude); the truncated-normal draw is an input (jax.random.truncated_normal interposed); NaN fitness is outside the CEM classes (lax.top_k ranks NaN best)",
        "with a real generator and non-dyadic boxes candidates / means may leave the box by the roundings counted in OptimisersFacts!WithinBox (3 per sample, n_elite + 3 per update)",
        "is_cmaes_finished: only 'never in the first generation' and 'always on non-finite fitness' are modelled; the variance / fitness-spread / condition tests are free",
        "CEM on one-sided / unbounded boxes and boxes 2^20..2^23 times wider than the distance of the mean to its nearer face (OptimisersCem!EdgeBoxes): candidates compared exactly (large-magnitude side: the exact candidate rounded once), in-box predicates per candidate from TLC; real generator there: excess counted in ulps of max(|face|, distance of the mean to it), 6 roundings",
        "trusted: the projections and recorders in harness/drivers/c16.py, harness/exact.py ord32, scripted environment, TLC, CPython/NumPy/JAX",
    ]


# ------------------------------------------------------------------ replay
def replay(path, rep):
    d = json.load(open(path))
    r, key = d["replay"], d.get("key")
    kind = r.get("kind") if isinstance(r, dict) else None
    print(f"replaying {key} ({kind})")

    def fail(msg):
        print("VIOLATION property=C16 replay=" + path)
        print("  ", str(msg)[:1000])
        return 1

    if kind in ("es", "es-fact"):
        params, steps = (r["params"], r["path"]) if kind == "es" else (r["fact"]["params"], r["fact"]["path"])
        facts = []
        try:
            ad = ES(facts=facts, **params)
            for st in steps:
                es_step(ad, st["op"], st["args"], st.get("exp"), None, None, rep.seed)
                print(f"  {st['op']}{st['args']} -> {ad.project()}")
                if st["op"] == "Update":
                    print(f"     mean {np.asarray(ad.st.mean)} var {float(ad.st.var)} cov diag {np.diag(np.asarray(ad.st.cov))}")
            if kind == "es":
                want = r.get("detail", {}).get("want")
                if want is not None and graph.canon(ad.project()) != graph.canon(want):
                    return fail(f"state {ad.project()} differs from model {want}")
        except Mismatch as m:
            return fail(m.what)
        except Exception as ex:  # noqa: BLE001
            return fail(f"exception {type(ex).__name__}: {ex}")
        if facts:
            _, failed = judge_facts([{k: v for k, v in facts[-1].items() if k not in ("path", "params", "negkey")}])
            if failed:
                return fail(f"OptimisersFacts: {failed[0][1]} fail for {dict((k, v) for k, v in facts[-1].items() if k not in ('path', 'params'))}")
        return 0
    if kind == "weights":
        f = next(x for x in weight_facts() if x["n"] == r["fact"]["n"] and x["d"] == r["fact"]["d"])
        _, failed = judge_facts([f])
        print("  ", f)
        return fail(failed[0][1]) if failed else 0
    if kind == "params":
        ad = PN(architectures())
        try:
            for st in r["path"]:
                pn_step(ad, st["op"], st["args"], st.get("exp"), None, None)
                print(f"  {st['op']} -> {str(pn_project(ad))[:300]}")
            want = r.get("detail", {}).get("want")
            if want is not None and graph.canon(pn_project(ad)) != graph.canon(want):
                return fail(f"leaves {pn_project(ad)['leaves']} differ from model {want['leaves']}")
        except Mismatch as m:
            return fail(m.what)
        except Exception as ex:  # noqa: BLE001
            return fail(f"exception {type(ex).__name__}: {ex}")
        return 0
    if kind == "params-special":
        make = dict(architectures())[r["arch"]]
        msg = special_round_trip(r["arch"], make, r["seed"])
        return fail(msg) if msg else 0
    if kind == "cem":
        out = cem_case(r["vec"], r["fit"], r["adm"])
        print("  vector", r["vec"], "fitness", r["fit"])
        return fail(out[1]) if out else 0
    if kind == "cem-real-edge":
        import jax
        import jax.numpy as jnp

        from rl_blox.blox import cross_entropy_method as M

        lb, ub, mean, var = (np.asarray(r[f], dtype=np.float32) for f in ("lb", "ub", "mean", "var"))
        bad = 0
        for sd in range(8):  # the excess depends on the draws: a few keys
            smp = np.asarray(M.cem_sample(jnp.asarray(mean), jnp.asarray(var), jax.random.key(s31(r["seed"] + sd)), 512, jnp.asarray(lb), jnp.asarray(ub)))
            f = side_box_fact(smp, lb, ub, mean - lb, ub - mean, 6, "cem_sample")
            print(f"  cem_sample box {lb.tolist()}..{ub.tolist()} mean {mean.tolist()} var {var.tolist()}: min {smp.min(axis=0).tolist()} max {smp.max(axis=0).tolist()} -> {f}")
            bad += 1 if f["nan"] or f["over"] > f["tol"] or f["under"] > f["tol"] else 0
        return fail("candidates outside the box / NaN") if bad else 0
    if kind == "train":
        p = r["plan"]
        ev = record_train(p["n"], p["d"], p["total"], p["script"], p["active"], r["seed"])
        for e in ev:
            print("  ", e)
        c = dict(N=p["n"], MaxGen=-(-p["total"] // p["n"]), Feed=tlc.Subst("FeedAll"), Maximize=True, Active=p["active"], HIST=False, EMIT=False)
        res, bad, at = validate_traces("OptimisersTrain", [ev], c, TRAIN_INVS, init="TInit", next="TNext")
        return fail(f"{res.violated} at event {at}: {ev[at] if 0 <= at < len(ev) else ''}") if bad is not None else 0
    if kind == "cemloop":
        ev = record_cem_loop(r["plan"], r["seed"])
        for e in ev:
            print("  ", e)
        res, bad, at = validate_traces("OptimisersCemLoop", [ev], dict(), ["Accepted", "IterationsBounded"])
        return fail(f"{res.violated} at event {at}") if bad is not None else 0
    print("  no single-case replay for this kind; re-run bin/check C16 with VERIF_SEED=%s" % r.get("seed", rep.seed) if isinstance(r, dict) else r)
    return 1
