"""C06 - target networks follow the Polyak / hard-copy law, only at update points."""
import json

from .. import sweep, tlc
from . import c06_law

LEVEL = "model_checking"
MANIFEST = dict(
    category="model_checking",
    text="TargetNet.tla models online / target parameter trees as references into a heap of storage cells with actions SupplyTarget, CreateTarget, OnlineStep, SoftUpdate(tau), HardUpdate; TLC checks the Polyak law per leaf, tau=1 / tau=0, the closed form over histories, OnlineUntouched, TargetUntouched and NoSharedStorage, and refutes seven deviations. Every transition is replayed into real modules of 16 types with exact dyadic values in every leaf; targets created by each train_* routine are checked for storage independence. Cadence: every routine that maintains targets is run with small delays on a scripted environment; LoopTrace.tla requires target components to change exactly in the learning segments where the routine's documented rule (every step / every policy-delay / every target-delay interval) makes them due (TargetsOnlyAtUpdatePoints, TargetUpdateMissing, TargetChangeOutsideLearning).",
    note="dyadic lattice for exact comparison, counted rounding bound for non-dyadic tau; inside float-valued training runs the cadence (which segments change a target) and, per single update, the relation new = tau*online + (1-tau)*old with the configured tau (also with several gradient steps per environment step) are decided, the exact arithmetic law at function level; bounded runs; trusted: digests, recording wrappers, TLC",
    technique="TLA+ spec + TLC; transition-coverage replay into real modules; trace validation of recorded training runs for the update cadence",
)


GRADIENT_STEP_ROUTINES = ("ddpg", "td3", "td3_lap")  # routines with a gradient_steps parameter and soft target updates


def run(rep):
    c06_law.run_law(rep)
    for m in ("LoopClauses", "LoopTrace"):
        tlc.sany(m)
    traces, out = sweep.report_property(rep, "C06")
    ruled = [t for t in traces if t["cfg"].get("rules") and t["cfg"].get("targets")]
    rep.extra["cadence"] = {"runs_with_target_rules": len(ruled), "routines": sorted({t["cfg"]["routine"] for t in ruled}),
                            "target_change_events": sum(1 for t in ruled for e in loop_changed(t) if e)}
    if not ruled:
        raise tlc.MachineryError("no recorded run carries target-cadence rules (vacuous cadence clause)")
    # the law inside runs is judged per single update with the configured tau - also in runs with more than one gradient
    # step per environment step, for every routine that has such a parameter
    multi = {}
    for t in traces:
        if t["cfg"].get("gsteps", 1) > 1 and not t.get("error"):
            m = multi.setdefault(t["cfg"]["routine"], 0)
            multi[t["cfg"]["routine"]] = m + sum(len(e.get("rel", [])) for e in t["events"])
    rep.extra["cadence"]["law_judgements_in_runs_with_several_gradient_steps"] = multi
    missing = [r for r in GRADIENT_STEP_ROUTINES if not multi.get(r)]
    if missing:
        raise tlc.MachineryError(f"no in-run target law judgement with gradient_steps > 1 for {missing} (vacuous)")


def loop_changed(t):
    from ..loopbind import normalise

    n = normalise(t)
    tg = set(n["cfg"]["targets"])
    return [bool(tg & set(e["changed"])) for e in n["events"]]


def replay(path, rep):
    d = json.load(open(path))["replay"]
    if isinstance(d, dict) and d.get("kind") == "sweep":
        rc = sweep.replay_one(d, "C06")
    else:
        rc = c06_law.replay_law(d, rep)
    if rc:
        print("VIOLATION property=C06 replay=" + path)
    return rc
