"""THROW-AWAY development driver for C06 (law + storage part only); the coordinator replaces it."""
import json

from . import c06_law

LEVEL = "model_checking"
MANIFEST = dict(
    category="model_checking",
    text="(development stub - law and storage clauses only)",
    note="",
    technique="TLA+ spec + TLC; replay into soft_/hard_target_net_update",
)


def run(rep):
    c06_law.run_law(rep)


def replay(path, rep):
    d = json.load(open(path))
    rc = c06_law.replay_law(d["replay"], rep)
    if rc:
        print("VIOLATION property=C06 replay=" + path)
    return rc
