"""C17 - PETS model: ensemble consistency, bootstraps and plan evaluation.

Specification: spec/Ensemble.tla (views of one stacked state: Joint / Member /
Aggregate), spec/EnsembleBoot.tla + EnsembleBootTrace.tla (bootstrap discipline
state machine, trace validation of real train_ensemble runs, train_epoch on
parameter versions), spec/EnsembleNll.tla (gaussian_nll as a form in LN2),
spec/EnsemblePlan.tla (evaluate_plans with a table reward, ts_inf mean
trajectories), spec/EnsemblePend.tla (pendulum_reward as a form in PI^2).

TLC decides the model-level properties and generates every expected value;
this driver only (a) loads TLC's abstract parameters into the real objects,
(b) feeds TLC's inputs, (c) compares.
"""
from __future__ import annotations

import json
import math
import os
from fractions import Fraction

import numpy as np

from .. import tlc

LEVEL = "model_checking"
MANIFEST = dict(
    category="model_checking",
    text="TLC checks, on explicit TLA+ models, that a member view is by construction slice i of the joint pass with shape batch x outputs, that the aggregate equals the moments of the uniform mixture (law of total variance), the bootstrap discipline (own bootstrap only, each position at most once per epoch, rectangular batches, only the remainder dropped), member isolation of one optimiser step, order/scale laws of the Gaussian NLL, locality laws of plan evaluation and of TS-inf propagation, and the Pendulum reward laws; every TLC-generated vector (exact dyadic expectations, linear forms in LN2 / PI^2 / named variances) is replayed into the real GaussianMLPEnsemble (__call__, base_predict, base_distribution, aggregate), gaussian_nll, evaluate_plans, ts_inf, pendulum_reward, and real train_ensemble / train_epoch runs are validated against the bootstrap specification (trace validation) - the right level because the defects of interest are shape/index/broadcast errors that small exhaustive lattices over ensemble size x outputs x input kind expose exactly.",
    note="bounds: ensemble size 2-3 (1-4 for members that agree far from zero: offsets 50-200, spread 0 or ~2^-8, log-variance at / near the lower soft bound), outputs 1-3, batch rows 1-3, one ReLU hidden layer of 2 nodes with dyadic parameters, data sets <= 32 rows / bootstrap samples <= 16 positions for trace validation; log-variances only through order/bound predicates and the saturated points (softplus is uninterpreted), ts_inf noise only through 8-sigma envelopes and a sample-variance band; pendulum_reward batches of rank 0-4 with axis lengths 1-3, plan evaluation with the Pendulum reward for <= 4 plans x <= 4 particles x horizon <= 3 (incl. one particle / one plan / horizon 1), ts_inf with one or two members; Pendulum-vs-Gymnasium comparison is differential evidence outside the specification; trusted: TLC, spec/Exact.tla, the projection code in this driver, numeric values of LN2 and PI^2",
    technique="TLA+ specs + TLC (invariants, named deviation canaries); replay of TLC-generated vectors into GaussianMLPEnsemble.__call__/base_predict/base_distribution/aggregate, gaussian_nll, evaluate_plans, ts_inf, pendulum_reward; trace validation (EnsembleBootTrace) of train_ensemble with bootstrap/train_epoch interposed; version (digest) comparison of real train_epoch runs",
)

WORKERS = int(os.environ.get("VERIF_TLC_WORKERS", "16"))
LN2 = math.log(2.0)
PISQ = math.pi**2
EPS32 = 2.0**-24  # half an ulp, relative


# ------------------------------------------------------------------ helpers
def _is_q(x):
    return isinstance(x, list) and len(x) == 2 and all(isinstance(t, int) for t in x)


def qarr(x):
    """nested lists whose leaves are rationals [n, d] -> float64 array (exact for dyadics)"""

    def conv(t):
        if _is_q(t):
            return float(Fraction(t[0], t[1]))
        return [conv(u) for u in t]

    return np.asarray(conv(x), dtype=np.float64)


def bits_equal(a, b):
    a, b = np.asarray(a), np.asarray(b)
    return a.shape == b.shape and a.dtype == b.dtype and a.tobytes() == b.tobytes()


def within_ulps(v, ref, ulps):
    """|v - ref| <= ulps * ulp32(ref), elementwise (v float32 values, ref float64)"""
    v = np.asarray(v, dtype=np.float64)
    ref = np.asarray(ref, dtype=np.float64)
    sp = np.spacing(np.abs(ref).astype(np.float32)).astype(np.float64)
    return np.abs(v - ref) <= ulps * sp


def _run(module, constants, *, invariants=(), next="Next", init="Init", emit=False, tag=None, env=None, coverage=False, simulate=None, depth=None, seed=None):
    c = dict(constants)
    c["EMIT"] = bool(emit)
    return tlc.run(
        module,
        tlc.cfg_text(init=init, next=next, constants=c, invariants=list(invariants)),
        workers=1 if emit else max(1, WORKERS // 4),
        tag=tag or module,
        env=env,
        coverage=coverage,
        simulate=simulate,
        depth=depth,
        seed=seed,
    )


def _enable_xla_cache():
    """persistent XLA compilation cache (keyed by HLO) - purely a speed-up: the eager nnx.vmap calls of the ensemble
    compile ~500 tiny computations per run (DESIGN.md section 2, Caching)"""
    import jax

    try:
        jax.config.update("jax_compilation_cache_dir", os.path.join(tlc.ROOT, ".cache", "xla"))
        jax.config.update("jax_persistent_cache_min_compile_time_secs", 0.0)
        jax.config.update("jax_persistent_cache_min_entry_size_bytes", -1)
    except Exception:  # unknown option in this jax version: run without the cache
        pass


class Pool:
    """TLC runs are independent processes: model checking, canaries and generation of the
    later parts run in a small thread pool while the main thread binds the earlier parts."""

    def __init__(self):
        from concurrent.futures import ThreadPoolExecutor

        self.n = 4
        self.ex = ThreadPoolExecutor(self.n)
        self.mc, self.canaries, self.gen = [], [], {}
        self.later = []  # model checking and canaries are queued behind all generators (start())

    def model_check(self, module, constants, invs, name, covered=None, **kw):
        def go():
            f = self.ex.submit(_run, module, constants, invariants=invs, tag="c17mc", coverage=bool(covered), **kw)
            self.mc.append((f, module, constants, name, covered))

        self.later.append(go)

    def canary(self, module, constants, dev, inv, **kw):
        c = dict(constants)
        c["Dev"] = dev

        def go():
            self.canaries.append((self.ex.submit(_run, module, c, invariants=[inv], tag="c17canary", **kw), module, dev, inv))

        self.later.append(go)

    def start(self):
        for go in self.later:
            go()
        self.later = []

    def generate(self, key, module, constants, **kw):
        self.gen[key] = self.ex.submit(_run, module, constants, emit=True, tag="c17gen", **kw)

    def emitted(self, key):
        r = self.gen.pop(key).result()
        if not r.emitted:
            raise tlc.MachineryError(f"generator {key} produced no vectors")
        return r.emitted

    def finish(self, rep):
        for f, module, constants, name, covered in self.mc:
            r = f.result()
            rep.add_tlc(r, name)
            if not r.ok:
                rep.violation(f"spec:{module}:{r.violated}", f"design-level violation of {r.violated} in {module} {constants}", r.error_trace)
            elif covered:
                tlc.require_covered(r, covered)
        for f, module, dev, inv in self.canaries:
            r = f.result()
            if r.violated != inv:
                raise tlc.MachineryError(f"canary: deviation {dev!r} of {module} not refuted by {inv} (got {r.violated})")
        self.ex.shutdown()


class Out:
    """collects (key, what) pairs of one checked case"""

    def __init__(self):
        self.items = []

    def add(self, key, what):
        self.items.append((key, what))

    def __bool__(self):
        return bool(self.items)


def _report(rep, out, payload, prefix=""):
    for key, what in out.items:
        rep.violation(key, prefix + what, payload)


# =============================================================== 1. views
F, HD = 2, 2
VIEW_INVS = ["ShapesOK", "SliceConsistent", "PerMemberGeneralisesJoint", "AggregateIsMixtureMoments", "AggregateOffsetFree", "MembersDiffer", "MembersAgreeFarFromZero"]
_models = {}


def view_model(E, O, shared):
    from flax import nnx

    from rl_blox.blox.probabilistic_ensemble import GaussianMLPEnsemble

    k = (E, O, shared)
    if k not in _models:
        _models[k] = GaussianMLPEnsemble(
            n_ensemble=E, shared_head=shared, n_features=F, n_outputs=O, hidden_nodes=[HD], activation="relu", rngs=nnx.Rngs(0)
        )
    return _models[k]


def load_view_params(model, par, E, O, shared):
    """TLC's abstract parameters -> the real stacked parameters (both head layouts)"""
    import jax.numpy as jnp

    f32 = lambda a: jnp.asarray(np.asarray(a, dtype=np.float32))
    ens = model.ensemble
    ens.hidden_layers[0].kernel.value = f32(qarr(par["W1"]))  # (E, F, HD)
    ens.hidden_layers[0].bias.value = f32(qarr(par["b1"]))  # (E, HD)
    Wm, bm = qarr(par["Wm"]), qarr(par["bm"])  # (E, HD, O), (E, O)
    lb = np.asarray(par["lb"], dtype=np.float64)  # (E, O) raw log-variances
    if shared:
        ens.output_layers[0].kernel.value = f32(np.concatenate([Wm, np.zeros_like(Wm)], axis=2))
        ens.output_layers[0].bias.value = f32(np.concatenate([bm, lb], axis=1))
    else:
        ens.output_layers[0].kernel.value = f32(Wm)
        ens.output_layers[0].bias.value = f32(bm)
        ens.output_layers[1].kernel.value = f32(np.zeros_like(Wm))
        ens.output_layers[1].bias.value = f32(lb)
    model.raw_min_log_var.value = f32(np.asarray(par["rmin"], dtype=np.float64))
    model.raw_max_log_var.value = f32(np.asarray(par["rmax"], dtype=np.float64))


def soft_bounds(model):
    """numeric values of the named constants Lo_k, SoftHi_k (float64 from the model's own bounds)"""
    lo = np.asarray(model.min_log_var, dtype=np.float64)
    hi = np.asarray(model.max_log_var, dtype=np.float64)
    return lo, hi, lo + np.logaddexp(0.0, hi - lo)


_loaded = {}
_joint_cache = {}


def joint_view(case, shared):
    """Joint view (__call__) of one (configuration, parameters, input); cached across the members of a group"""
    import jax.numpy as jnp

    E, O = case["cfg"]["E"], case["cfg"]["O"]
    par, inp, exp = case["par"], case["inp"], case["exp"]
    kind, n = inp["kind"], inp["n"]
    gk = (E, O, par["p"], kind, n, inp["xp"], shared, json.dumps(exp["joint_mean"]))
    if gk in _joint_cache:
        return _joint_cache[gk]
    out = Out()
    model = view_model(E, O, shared)
    if _loaded.get((E, O, shared)) != json.dumps(par):
        load_view_params(model, par, E, O, shared)
        _loaded[(E, O, shared)] = json.dumps(par)
    x = jnp.asarray(qarr(inp["x"]).astype(np.float32))  # (n, F) or (E, n, F)
    tagc = f"E={E} O={O} p={par['p']} kind={kind} n={n} xp={inp['xp']} shared_head={shared}"
    J = {"out": out, "model": model, "x": x, "ok": False}
    _joint_cache.clear()  # one group at a time
    _joint_cache[gk] = J
    try:
        means, lvs = model(x)
    except Exception as e:  # the specification defines a result
        out.add("call:raises", f"__call__ raised {type(e).__name__}: {str(e)[:200]} ({tagc})")
        return J
    means, lvs = np.asarray(means), np.asarray(lvs)
    want = qarr(exp["joint_mean"])
    if list(means.shape) != exp["joint_shape"] or list(lvs.shape) != exp["joint_shape"]:
        out.add("call:joint_shape", f"__call__ shapes {means.shape}/{lvs.shape}, model {exp['joint_shape']} ({tagc})")
        return J
    J.update(ok=True, means=means, lvs=lvs)
    if not np.array_equal(means.astype(np.float64), want):
        out.add("call:joint_mean", f"__call__ means {means.tolist()} differ from the model's exact {want.tolist()} ({tagc})")
    lo, hi, softhi = soft_bounds(model)
    # the learned bounds themselves: documented ranges, monotone in their raw parameters (D4)
    (l0, l1), (h0, h1) = exp["lo_range"], exp["hi_range"]
    if not (np.all((lo >= l0) & (lo <= l1)) and np.all((hi >= h0) & (hi <= h1))):
        out.add("bounds:range", f"learned bounds outside their ranges: min_log_var={lo.tolist()} not in [{l0},{l1}] or max_log_var={hi.tolist()} not in [{h0},{h1}] ({tagc})")
    for a in range(O):
        for b in range(O):
            if exp["lo_order"][a] < exp["lo_order"][b] and not lo[a] < lo[b]:
                out.add("bounds:monotone", f"min_log_var not increasing in its raw parameter: {par['rmin']} -> {lo.tolist()} ({tagc})")
            if exp["hi_order"][a] < exp["hi_order"][b] and not hi[a] < hi[b]:
                out.add("bounds:monotone", f"max_log_var not increasing in its raw parameter: {par['rmax']} -> {hi.tolist()} ({tagc})")
    if not np.all(np.isfinite(lvs)):
        out.add("call:logvar_finite", f"non-finite log-variance {lvs.tolist()} ({tagc})")
    else:
        lv64 = lvs.astype(np.float64)
        # D4 predicates: Lo <= lv (exact: Lo + softplus(.) with softplus >= 0), lv <= SoftHi (sub, exp, log1p, add, add: 4 ulp)
        if not (np.all(lv64 >= lo) and np.all((lv64 <= softhi) | within_ulps(lv64, np.broadcast_to(softhi, lv64.shape), 4))):
            out.add("call:logvar_bounds", f"log-variance outside the learned soft bounds: lv={lvs.tolist()} lo={lo.tolist()} softhi={softhi.tolist()} ({tagc})")
        if not all(bits_equal(lvs[:, 0], lvs[:, r]) for r in range(lvs.shape[1])):
            out.add("call:logvar_rows", f"log-variance depends on the row although the head is constant ({tagc})")
        cls, rank = exp["lvclass"], exp["lvrank"]
        for m in range(E):
            for k in range(O):
                v = lv64[m, 0, k]
                if cls[m][k] == "lo" and v != lo[k]:
                    out.add("call:logvar_saturation", f"raw log-variance -10^4 gives {v}, lower bound is {lo[k]} ({tagc})")
                if cls[m][k] == "softhi" and not within_ulps(v, softhi[k], 4):
                    out.add("call:logvar_saturation", f"raw log-variance +10^4 gives {v}, soft upper bound is {softhi[k]} ({tagc})")
                for m2 in range(E):
                    if rank[m][k] < rank[m2][k] and not lv64[m, 0, k] <= lv64[m2, 0, k]:
                        out.add("call:logvar_monotone", f"soft clamp not monotone: output {k}, members {m},{m2} ({tagc})")
                    if rank[m][k] == rank[m2][k] and lvs[m, 0, k].tobytes() != lvs[m2, 0, k].tobytes():
                        out.add("call:logvar_monotone", f"equal raw values clamp differently: output {k}, members {m},{m2} ({tagc})")
    return J


def check_view(case, shared):
    """one TLC vector of Ensemble.tla against the real ensemble; returns Out"""
    import jax.numpy as jnp

    E, O = case["cfg"]["E"], case["cfg"]["O"]
    par, inp, exp, i = case["par"], case["inp"], case["exp"], case["member"]
    kind, n = inp["kind"], inp["n"]
    tagc = f"E={E} O={O} p={par['p']} kind={kind} n={n} xp={inp['xp']} member={i} shared_head={shared}"
    J = joint_view(case, shared)
    out = Out()
    out.items += J["out"].items
    if not J["ok"]:
        return out
    model, x, means, lvs = J["model"], J["x"], J["means"], J["lvs"]
    if kind == "permember":
        return out

    if kind == "vector" and i == 0:
        # a single vector is rejected loudly by __call__ (CallAccepts(1) = FALSE)
        try:
            model(x[0])
            accepted = True
        except ValueError:
            accepted = False
        except Exception as e:
            accepted = None
            out.add("call:vector_rejection", f"__call__ on a vector raised {type(e).__name__} instead of ValueError ({tagc})")
        if accepted is not None and accepted != exp["call_accepts_vector"]:
            out.add("call:vector_rejection", f"__call__ on a vector accepted={accepted}, model {exp['call_accepts_vector']} ({tagc})")

    xin = x[0] if kind == "vector" else x
    jm = means[i, 0] if kind == "vector" else means[i]
    jl = lvs[i, 0] if kind == "vector" else lvs[i]
    jvar = np.asarray(jnp.exp(jnp.asarray(jl)))
    jstd = np.asarray(jnp.exp(0.5 * jnp.asarray(jl)))

    # ---- Member: base_predict
    K_BP = "base_predict:variance_shape_multi_output"
    try:
        m_i, v_i = model.base_predict(xin, i)
        m_i, v_i = np.asarray(m_i), np.asarray(v_i)
    except Exception as e:
        m_i = None
        out.add(K_BP, f"base_predict({kind}, member {i}) raised {type(e).__name__}: {str(e)[:160]}; the model defines mean, var of shape {exp['member_mean_shape']} ({tagc})")
    if m_i is not None:
        if list(m_i.shape) != exp["member_mean_shape"]:
            out.add("base_predict:mean_shape", f"base_predict mean shape {m_i.shape}, model {exp['member_mean_shape']} ({tagc})")
        elif not bits_equal(m_i, jm):
            out.add("base_predict:mean", f"base_predict mean {m_i.tolist()} is not slice {i} of the joint pass {jm.tolist()} ({tagc})")
        if list(v_i.shape) != exp["member_var_shape"]:
            out.add(K_BP, f"base_predict({kind}) variance has shape {v_i.shape}, the model's is {exp['member_var_shape']} (one variance per output); values {v_i.tolist()} vs joint slice {jvar.tolist()} ({tagc})")
            # keep checking the values: if the extra axis is an outer broadcast over outputs, its diagonal must be the member's variance
            if list(v_i.shape) == exp["member_var_shape"] + [O] and not bits_equal(np.diagonal(v_i, axis1=-2, axis2=-1), jvar):
                out.add("base_predict:variance_value", f"base_predict variance diagonal {np.diagonal(v_i, axis1=-2, axis2=-1).tolist()} is not exp(log-variance) of slice {i} of the joint pass {jvar.tolist()} ({tagc})")
        elif not bits_equal(v_i, jvar):
            out.add("base_predict:variance_value", f"base_predict variance {v_i.tolist()} is not exp(log-variance) of slice {i} of the joint pass {jvar.tolist()} ({tagc})")

    # ---- Member: base_distribution
    K_BD = "base_distribution:single_vector_shape" if kind == "vector" else "base_distribution:batch_shape"
    try:
        d = model.base_distribution(xin, i)
        bs, es = list(d.batch_shape), list(d.event_shape)
        dm, dsd = np.asarray(d.mean()), np.asarray(d.stddev())
    except Exception as e:
        d = None
        out.add(K_BD, f"base_distribution({kind}, member {i}) raised {type(e).__name__}: {str(e)[:160]} ({tagc})")
    if d is not None:
        if bs != exp["dist_batch_shape"] or es != exp["dist_event_shape"] or list(dsd.shape) != exp["member_var_shape"]:
            out.add(
                K_BD,
                f"base_distribution({kind}) has batch shape {bs}, event shape {es}, stddev shape {list(dsd.shape)}; the model's are {exp['dist_batch_shape']}, {exp['dist_event_shape']}, {exp['member_var_shape']}; "
                f"stddev {dsd.tolist()} vs joint slice {jstd.tolist()} ({tagc})",
            )
            # keep checking the values behind the extra axis: means are broadcast rows, the stddev diagonal is the member's
            if list(dsd.shape) == exp["member_var_shape"] + [O]:
                if not all(bits_equal(dm[..., r, :], jm) for r in range(O)):
                    out.add("base_distribution:mean", f"distribution mean rows {dm.tolist()} are not slice {i} of the joint pass {jm.tolist()} ({tagc})")
                if not bits_equal(np.diagonal(dsd, axis1=-2, axis2=-1), jstd):
                    out.add("base_distribution:stddev", f"distribution stddev diagonal {np.diagonal(dsd, axis1=-2, axis2=-1).tolist()} is not exp(logvar/2) of slice {i} of the joint pass {jstd.tolist()} ({tagc})")
        else:
            if not bits_equal(dm, jm):
                out.add("base_distribution:mean", f"distribution mean {dm.tolist()} is not slice {i} of the joint pass {jm.tolist()} ({tagc})")
            if not bits_equal(dsd, jstd):
                out.add("base_distribution:stddev", f"distribution stddev {dsd.tolist()} is not exp(logvar/2) of slice {i} of the joint pass {jstd.tolist()} ({tagc})")

    # ---- Aggregate (documented for batches)
    if kind == "batch" and i == 0:
        try:
            am, av = model.aggregate(x)
            am, av = np.asarray(am), np.asarray(av)
        except Exception as e:
            am = None
            out.add("aggregate:raises", f"aggregate raised {type(e).__name__}: {str(e)[:160]} ({tagc})")
        if am is not None:
            if list(am.shape) != exp["agg_shape"] or list(av.shape) != exp["agg_shape"]:
                out.add("aggregate:shape", f"aggregate shapes {am.shape}/{av.shape}, model {exp['agg_shape']} ({tagc})")
            else:
                dy = E in (1, 2, 4)  # mean over E members is dyadic
                wm = qarr(exp["agg_mean"])
                # E = 3: E-1 additions and one division, each <= 1/2 ulp -> 4 ulp is generous; else exact
                okm = np.array_equal(am.astype(np.float64), wm) if dy else np.all(within_ulps(am, wm, 4))
                if not okm:
                    out.add("aggregate:mean", f"aggregate mean {am.tolist()}, model {wm.tolist()} ({tagc})")
                V = np.exp(lvs.astype(np.float32)).astype(np.float64)  # named constants V[i][r][k] = exp(joint log-variance), float32 as in the code
                V = np.asarray(jnp.exp(jnp.asarray(lvs))).astype(np.float64)
                wv = float(Fraction(*exp["agg_vcoef"])) * V.sum(axis=0) + qarr(exp["agg_epi"])
                # positive terms only; mean of V: E-1 add + div; var of means: <= 3E+1 ops; final add  -> 4 (E=2) / 8 (E=3) ulp
                # of the TRUE value wv - never of the squared mean: an absolute error of the order eps * mean^2 (what a
                # one-pass second-moment formula leaves after cancellation) is far outside whenever wv << mean^2
                ulv = 4 if E <= 2 else 8  # E = 4 (class "agree" only): 3 + 7 + 1 roundings of <= 1/2 ulp -> 8
                okv = within_ulps(av, wv, ulv)
                if case["cfg"].get("cls") == "agree" and not dy:
                    # members far from zero, mean over E = 3 not dyadic: the documented two-term formula centres the member
                    # means mu_i at the ROUNDED mean m' (E-1 additions of partial sums <= E*max|mu| and one division /
                    # reciprocal multiplication: |m' - m| <= delta = (E+1) * 2^-24 * max|mu|), so that each squared distance
                    # (mu_i - m')^2 is off by <= 2 |mu_i - m| delta + delta^2 - counted from TLC's exact max|mu_i| and
                    # max|mu_i - m|; on the dyadic sizes (1, 2, 4) m' = m and nothing is added
                    delta = (E + 1) * EPS32 * qarr(exp["agg_maxabs"])
                    slack = 2.0 * qarr(exp["agg_dev"]) * delta + delta**2
                    sp = np.spacing(np.abs(wv).astype(np.float32)).astype(np.float64)
                    okv = np.abs(av.astype(np.float64) - wv) <= 8 * sp + slack
                if not np.all(okv):
                    far = " (members agree far from zero: the variance must not be lost against the squared mean)" if case["cfg"].get("cls") == "agree" else ""
                    out.add("aggregate:var", f"aggregate variance {av.tolist()}, model (mean of member variances + variance of member means) {wv.tolist()}{far} ({tagc})")
    return out


def views_constants(quick):
    C = dict(Dev="none", Es={2, 3}, Os={1, 2, 3}, NPat=2 if quick else 4, NXPat=1 if quick else 2)
    # class "agree" (members (nearly) agree far from zero, log-variance at / near the lower soft bound; ensemble of ONE member)
    if quick:
        C.update(ACfgs={12, 22, 32}, NAgree=3, ANs={2})
    else:
        C.update(ACfgs={11, 12, 22, 33, 42}, NAgree=6, ANs={1, 3})
    return C


def plan_views(pool, quick):
    C = views_constants(quick)
    pool.generate("views", "Ensemble", C)
    pool.model_check("Ensemble", C, VIEW_INVS, "Ensemble views: invariants", covered=["ChooseConfig", "ChooseParams", "ChooseInput", "ChooseMember"] if quick else None)
    small = views_constants(True)
    pool.canary("Ensemble", small, "outer_var", "ShapesOK")
    pool.canary("Ensemble", small, "vector_row0", "SliceConsistent")
    pool.canary("Ensemble", small, "no_epistemic", "AggregateIsMixtureMoments")
    # second moment of the member means instead of their variance: refuted by offset freedom on exactly agreeing members
    pool.canary("Ensemble", dict(small, NPat=1, Os={1}, ACfgs={21}, NAgree=1, ANs={2}), "uncentred_epistemic", "AggregateOffsetFree")


def part_views(rep, pool):
    quick = rep.tier == "quick"
    cases = pool.emitted("views")
    # two outputs and batches first (stable sort, groups stay contiguous): the first reported case of a key is the most telling one
    cases.sort(key=lambda c: (c["cfg"]["O"] != 2, c["inp"]["kind"] != "batch"))
    n = 0
    nontrivial = 0
    group = {}
    for case in cases:  # all members of one (configuration, parameters, input) use the same layout
        gk = json.dumps([case["cfg"], case["par"]["p"], case["inp"]["kind"], case["inp"]["n"], case["inp"]["xp"]])
        group.setdefault(gk, len(group))
        # quick: one head layout per (E, O) configuration (halves the models to build); thorough: both
        layouts = (True, False) if not quick else (((case["cfg"]["E"] + case["cfg"]["O"]) % 2 == 0),)
        for shared in layouts:
            out = check_view(case, shared)
            n += 1
            _report(rep, out, {"part": "views", "case": case, "shared": shared})
        lb = case["par"]["lb"]
        agg_far = case["cfg"]["cls"] == "agree" and case["inp"]["kind"] == "batch" and case["member"] == 0
        if any(len(set(row)) > 1 for row in lb) or case["cfg"]["O"] == 1 or agg_far:
            nontrivial += 1
    # vacuity guard (class "agree"): aggregate vectors whose members agree far from zero, with one and with several members
    agree = [c for c in cases if c["cfg"]["cls"] == "agree" and c["inp"]["kind"] == "batch" and c["member"] == 0]
    for want_single in (True, False):
        if not any(
            (c["cfg"]["E"] == 1) == want_single and float(np.min(qarr(c["exp"]["agg_maxabs"]))) >= 50.0 and any("lo" in row for row in c["exp"]["lvclass"])
            for c in agree
        ):
            raise tlc.MachineryError(f"no aggregate vector with agreeing members far from zero (single member: {want_single})")
    # binding canary (class "agree"): an expected variance that is off by 2^-24 * mean^2 - the order of what is left when the
    # second moments cancel - must be noticed; the comparison is relative to the true variance, not to the squared mean
    bad = json.loads(json.dumps(agree[len(agree) // 2]))
    for r, row in enumerate(bad["exp"]["agg_epi"]):
        for k, q in enumerate(row):
            v = Fraction(*q) + Fraction(*bad["exp"]["agg_mean"][r][k]) ** 2 / 2**24
            row[k] = [v.numerator, v.denominator]
    layout = (bad["cfg"]["E"] + bad["cfg"]["O"]) % 2 == 0
    if not any(k == "aggregate:var" for k, _ in check_view(bad, layout).items):
        raise tlc.MachineryError("binding canary: aggregate variance off by 2^-24 * mean^2 not noticed")
    rep.extra["views_agreeing_members_vectors"] = sum(1 for c in cases if c["cfg"]["cls"] == "agree")
    rep.extra["views_agreeing_members_aggregates"] = len(agree)
    rep.sample({"views_agree": {k: agree[0][k] for k in ("cfg", "inp")}, "bm": agree[0]["par"]["bm"], "lb": agree[0]["par"]["lb"], "exp_agg_epi": agree[0]["exp"]["agg_epi"]})
    # binding canary: a corrupted expectation must be noticed
    bad = json.loads(json.dumps(cases[len(cases) // 2]))
    q = bad["exp"]["joint_mean"][0][0][0]
    q[0] += q[1]
    if not any(k == "call:joint_mean" for k, _ in check_view(bad, True).items):
        raise tlc.MachineryError("binding canary: corrupted joint mean not noticed")
    rep.traces += n
    rep.sample({"views": {k: cases[3][k] for k in ("cfg", "inp", "member")}, "exp_member_var_shape": cases[3]["exp"]["member_var_shape"], "exp_joint_mean": cases[3]["exp"]["joint_mean"]})
    return n, nontrivial


# ======================================================= 2. bootstrap discipline
BOOT_INVS = ["TypeOK", "OnlyOwnBootstrap", "EachPositionAtMostOncePerEpoch", "AllMembersSameBatchCount", "OnlyRemainderDropped", "MemberIsolation", "BoundsCouple"]


class Interposed:
    """setattr-interposition on rl_blox.blox.probabilistic_ensemble (restored afterwards)"""

    def __init__(self, call_through=False):
        self.call_through = call_through
        self.boot = None
        self.epochs = []
        self.passthrough_ok = True
        self.n_boot_calls = 0

    def __enter__(self):
        from rl_blox.blox import probabilistic_ensemble as pe

        self.pe = pe
        self.orig_boot, self.orig_epoch = pe.bootstrap, pe.train_epoch

        def bootstrap(*a, **k):
            res = self.orig_boot(*a, **k)
            self.boot = np.asarray(res).tolist()
            self.n_boot_calls += 1
            return res

        def train_epoch(model, optimizer, X, Y, indices):
            self.epochs.append(np.asarray(indices).tolist())
            if X is not self.X or Y is not self.Y:
                self.passthrough_ok = False
            if self.call_through:
                return self.orig_epoch(model, optimizer, X, Y, indices)
            import jax.numpy as jnp

            return jnp.float32(0.0)

        pe.bootstrap, pe.train_epoch = bootstrap, train_epoch
        return self

    def __exit__(self, *a):
        self.pe.bootstrap, self.pe.train_epoch = self.orig_boot, self.orig_epoch


_trace_models = {}


def record_trace(cfg, key_seed, call_through=False):
    """run the real train_ensemble once; returns dict(boot, epochs) or dict(error=...)"""
    import jax
    import jax.numpy as jnp
    import optax
    from flax import nnx

    from rl_blox.blox import probabilistic_ensemble as pe

    E, N, B = cfg["E"], cfg["N"], cfg["B"]
    if E not in _trace_models:
        _trace_models[E] = pe.GaussianMLPEnsemble(E, False, 1, 1, [2], "swish", nnx.Rngs(0))
    model = _trace_models[E]
    opt = nnx.Optimizer(model, optax.adam(1e-3), wrt=nnx.Param) if call_through else None
    X = jnp.arange(N, dtype=jnp.float32)[:, None]
    Y = 2.0 * X
    with Interposed(call_through) as ip:
        ip.X, ip.Y = X, Y
        try:
            pe.train_ensemble(model, opt, cfg["TsNum"] / cfg["TsDen"], X, Y, cfg["epochs"], B, jax.random.key(key_seed))
        except Exception as e:
            return {"error": f"{type(e).__name__}: {str(e)[:300]}", "boot": ip.boot, "epochs": ip.epochs}
    return {"boot": ip.boot, "epochs": ip.epochs, "passthrough_ok": ip.passthrough_ok, "n_boot_calls": ip.n_boot_calls}


def validate_traces(cfg, traces, tag="c17trace"):
    """EnsembleBootTrace on a list of traces of one configuration -> list of consumed events per trace"""
    d = os.path.join(tlc.OUT, "tmp", f"c17-traces-{os.getpid()}-{tag}")
    os.makedirs(d, exist_ok=True)
    path = os.path.join(d, f"{tag}.json")
    with open(path, "w") as f:
        json.dump([{"boot": t["boot"], "epochs": t["epochs"]} for t in traces], f)
    C = dict(E=cfg["E"], N=cfg["N"], TsNum=cfg["TsNum"], TsDen=cfg["TsDen"], B=cfg["B"], MaxEpochs=99, Dev="none", EMIT=False)
    try:
        r = tlc.run(
            "EnsembleBootTrace",
            tlc.cfg_text(init="TInit", next="TNext", constants=C, invariants=["TraceInv"]),
            workers=1,
            tag=tag,
            env={"TRACE_FILE": path},
        )
    finally:
        try:
            os.remove(path)
            os.rmdir(d)
        except OSError:
            pass
    pos = [0] * len(traces)
    for line in r.printed:
        if line.startswith('<<"POS"'):
            _, tid, p = line.strip("<>").split(",")
            pos[int(tid) - 1] = max(pos[int(tid) - 1], int(p))
    return r, pos


def record_boot_config(rep, cfg, seeds, call_through=False):
    traces, payloads = [], []
    for s in seeds:
        t = record_trace(cfg, s, call_through)
        pay = {"part": "boot", "cfg": cfg, "key_seed": s, "call_through": call_through}
        if "error" in t:
            rep.violation("train_ensemble:raises", f"train_ensemble raised {t['error']} for {cfg}", pay)
            continue
        if t["boot"] is None or t["n_boot_calls"] != 1:
            rep.violation("train_ensemble:bootstrap_calls", f"bootstrap() called {t['n_boot_calls']} times in one train_ensemble ({cfg})", pay)
            continue
        if len(t["epochs"]) != cfg["epochs"]:
            rep.violation("train_ensemble:epoch_count", f"train_epoch called {len(t['epochs'])} times for n_epochs={cfg['epochs']} ({cfg})", pay)
        if not t["passthrough_ok"]:
            rep.violation("train_ensemble:data_passthrough", f"train_epoch did not receive the caller's X, Y ({cfg})", pay)
        traces.append(t)
        payloads.append(pay)
    return traces, payloads


def judge_boot_config(rep, cfg, traces, payloads, r, pos):
    n_ok = 0
    rep.add_tlc(r, f"EnsembleBootTrace {cfg}")
    if r.violated:
        rep.violation("train_ensemble:trace_invariant", f"recorded trace violates {r.violated} ({cfg})", payloads[0])
    for t, p, pay in zip(traces, pos, payloads):
        want = 1 + len(t["epochs"])
        if p == want:
            n_ok += 1
        elif p == 0:
            rep.violation("train_ensemble:bootstrap_matrix", f"matrix returned by bootstrap() is not in [members -> [1..floor(train_size*n) -> data indices]]: {t['boot']} ({cfg})", pay)
        else:
            rep.violation(
                "train_ensemble:epoch_indices",
                f"index tensor of epoch {p} is not explained by the bootstrap specification (own bootstrap positions, each at most once, batches of {cfg['B']}, only the remainder dropped): boot={t['boot']} tensor={t['epochs'][p - 1]} ({cfg})",
                pay,
            )
    return n_ok


def plan_boot(pool, quick):
    # model checking of the discipline (small constants, exhaustive)
    mcs = [(2, 3, 1, 1, 2, 1), (2, 4, 1, 2, 2, 2), (3, 2, 1, 1, 1, 1), (2, 3, 1, 1, 4, 1)]
    if not quick:
        mcs += [(2, 3, 1, 1, 3, 1), (2, 4, 3, 4, 1, 1), (2, 3, 1, 1, 1, 2)]
    for j, (E, N, tn, td, B, me) in enumerate(mcs):
        C = dict(E=E, N=N, TsNum=tn, TsDen=td, B=B, MaxEpochs=me, Dev="none")
        pool.model_check("EnsembleBoot", C, BOOT_INVS, f"EnsembleBoot E={E} N={N} ts={tn}/{td} B={B} epochs<={me}", covered=["Bootstrap", "EpochNone"] if j == 1 else None)
    small = dict(E=2, N=3, TsNum=1, TsDen=1, B=2, MaxEpochs=1)
    pool.canary("EnsembleBoot", small, "shared_row", "OnlyOwnBootstrap")
    pool.canary("EnsembleBoot", small, "with_replacement", "EachPositionAtMostOncePerEpoch")
    pool.canary("EnsembleBoot", dict(small, B=3), "drop_always", "OnlyRemainderDropped")


def part_boot(rep, pool):
    quick = rep.tier == "quick"
    # code -> spec: real train_ensemble runs, validated by EnsembleBootTrace
    cfgs = [
        dict(E=2, N=4, TsNum=1, TsDen=1, B=2, epochs=3),  # NB=4, 2 batches
        dict(E=3, N=8, TsNum=3, TsDen=4, B=4, epochs=2),  # NB=6, 1 batch, remainder 2
        dict(E=2, N=6, TsNum=1, TsDen=2, B=2, epochs=2),  # NB=3, remainder 1
        dict(E=2, N=4, TsNum=1, TsDen=2, B=3, epochs=1),  # NB < B: no batch at all
        dict(E=5, N=8, TsNum=7, TsDen=10, B=2, epochs=2),  # the PETS defaults: 5 members, train_size 0.7 (0.7 * 8 = 5.6 -> 5)
    ]
    if not quick:
        cfgs += [
            dict(E=3, N=4, TsNum=1, TsDen=1, B=1, epochs=2),  # batch size 1
            dict(E=3, N=6, TsNum=1, TsDen=1, B=3, epochs=3),
            dict(E=2, N=5, TsNum=1, TsDen=1, B=5, epochs=2),
            dict(E=2, N=8, TsNum=1, TsDen=2, B=3, epochs=4),
            dict(E=4, N=4, TsNum=1, TsDen=1, B=2, epochs=2),
            dict(E=5, N=16, TsNum=7, TsDen=10, B=4, epochs=3),  # 0.7 * 16 = 11.2 -> 11, remainder 3
            dict(E=3, N=32, TsNum=1, TsDen=2, B=8, epochs=2),
        ]
    nseeds = 3 if quick else 8
    jobs = []
    for j, cfg in enumerate(cfgs):
        seeds = [rep.seed * 1000 + 17 * j + s for s in range(nseeds)]
        traces, payloads = record_boot_config(rep, cfg, seeds, call_through=(j == 0))
        if traces:
            jobs.append((cfg, traces, payloads, pool.ex.submit(validate_traces, cfg, traces, f"c17trace{j}")))
    # binding canary (independent of the code under test): a hand-made valid trace must be accepted, and the same trace
    # with one index that member 0's bootstrap sample holds only once used twice must be rejected at the first epoch
    ccfg = dict(E=2, N=4, TsNum=1, TsDen=1, B=2)
    good = {"boot": [[0, 1, 2, 2], [3, 3, 1, 0]], "epochs": [[[[2, 0], [1, 3]], [[1, 2], [3, 0]]], [[[2, 2], [3, 3]], [[0, 1], [0, 1]]]]}
    bad = json.loads(json.dumps(good))
    bad["epochs"][0][1][0] = [0, 2]  # member 0 now uses index 0 twice in epoch 1 (held once)
    canary = pool.ex.submit(validate_traces, ccfg, [good, bad], "c17tracecanary")
    if jobs:
        t0 = jobs[0][1][0]
        rep.sample({"bootstrap_trace": {"cfg": jobs[0][0], "boot": t0["boot"], "epochs": t0["epochs"][:1]}})
    total_ok = 0
    for cfg, traces, payloads, fut in jobs:
        r, pos = fut.result()
        total_ok += judge_boot_config(rep, cfg, traces, payloads, r, pos)
    cpos = canary.result()[1]
    if cpos != [3, 1]:
        raise tlc.MachineryError(f"binding canary: EnsembleBootTrace consumed {cpos} events of the (valid, corrupted) hand-made traces, expected [3, 1]")
    rep.traces += total_ok
    return total_ok


# ---------------------------------------------------- train_epoch on versions
_iso = {}


def _fresh_model(E):
    """the same initial parameters for every run: one model, its initial state restored before each run"""
    import jax
    import jax.numpy as jnp
    import optax
    from flax import nnx

    from rl_blox.blox import probabilistic_ensemble as pe

    if E not in _iso:
        model = pe.GaussianMLPEnsemble(E, False, 1, 1, [4], "swish", nnx.Rngs(0))
        _iso[E] = (model, jax.tree.map(jnp.copy, nnx.state(model)))
    model, state0 = _iso[E]
    nnx.update(model, jax.tree.map(jnp.copy, state0))
    # plain SGD: the step is proportional to the gradient (Adam's first step is ~ lr * sign(g) and would hide a dependence)
    return model, nnx.Optimizer(model, optax.sgd(1e-2), wrt=nnx.Param)


def _member_digests(model, E):
    import jax
    from flax import nnx

    leaves = [np.asarray(l) for l in jax.tree.leaves(nnx.state(model.ensemble))]
    mem = [b"".join(l[e].tobytes() for l in leaves) for e in range(E)]
    bounds = np.asarray(model.raw_min_log_var.value).tobytes() + np.asarray(model.raw_max_log_var.value).tobytes()
    return mem, bounds


def check_isolation(case, flip=False):
    """the same first optimiser step on two data sets that differ exactly in the rows D"""
    import jax.numpy as jnp

    from rl_blox.blox import probabilistic_ensemble as pe

    out = Out()
    bs, D, N = case["batches"], case["D"], case["N"]
    E = len(bs[0])
    idx = jnp.asarray(np.asarray(bs[:1], dtype=np.int32))  # first step only (1, E, B)
    rng = np.random.default_rng(12345)
    XA = rng.normal(size=(N, 1)).astype(np.float32)
    YA = rng.normal(size=(N, 1)).astype(np.float32)
    XB, YB = XA.copy(), YA.copy()
    for r in D:
        XB[r] += 1.0
        YB[r] -= 0.5
    res = []
    for X, Y in ((XA, YA), (XB, YB)):
        model, opt = _fresh_model(E)
        before = _member_digests(model, E)
        try:
            pe.train_epoch(model, opt, jnp.asarray(X), jnp.asarray(Y), idx)
        except Exception as e:
            out.add("train_epoch:raises", f"train_epoch raised {type(e).__name__}: {str(e)[:200]} (indices {bs[:1]})")
            return out
        res.append(_member_digests(model, E))
    (mA, bA), (mB, bB) = res
    same = list(case["same"])
    if flip:
        same[0] = not same[0]
    for e in range(E):
        got = mA[e] == mB[e]
        if same[e] and not got:
            out.add("train_epoch:member_isolation", f"member {e}'s parameters after one step depend on rows {D} it was not handed (its rows: {bs[0][e]})")
        if not same[e] and got:
            out.add("train_epoch:own_rows_ignored", f"member {e}'s parameters after one step do not depend on its own rows {bs[0][e]} (changed rows {D})")
        if mA[e] == before[0][e]:
            out.add("train_epoch:no_update", f"member {e} was not updated at all")
    if case["same_bounds"] != (bA == bB):
        out.add("train_epoch:bounds_dependence", f"shared log-variance bounds: equal={bA == bB}, model {case['same_bounds']} (rows {D}, indices {bs[0]})")
    return out


def plan_isolation(pool, quick):
    # (the train size only fixes the number of bootstrap positions here: NB = 2, one batch of 2)
    pool.generate("iso", "EnsembleBoot", dict(E=2, N=3, TsNum=2, TsDen=3, B=2, MaxEpochs=1, Dev="none"))


def part_isolation(rep, pool):
    quick = rep.tier == "quick"
    seen, cases = set(), []
    for c in pool.emitted("iso"):
        k = json.dumps([c["batches"], c["D"]])
        if k not in seen:
            seen.add(k)
            cases.append(c)
    rng = np.random.default_rng(rep.seed + 5)
    pick = rng.permutation(len(cases))[: (12 if quick else 80)]
    n = 0
    for j in pick:
        out = check_isolation(cases[j])
        n += 1
        _report(rep, out, {"part": "isolation", "case": cases[j]})
    if not any(k in ("train_epoch:member_isolation", "train_epoch:own_rows_ignored") for k, _ in check_isolation(cases[pick[0]], flip=True).items):
        raise tlc.MachineryError("binding canary: flipped isolation expectation not noticed")
    rep.traces += n
    rep.extra["isolation_vectors_available"] = len(cases)
    rep.sample({"train_epoch_isolation": cases[pick[0]]})
    return n


# ================================================================== 3. NLL
def check_nll(case, jit=None):
    import jax.numpy as jnp

    from rl_blox.blox.probabilistic_ensemble import gaussian_nll

    out = Out()
    n, O = case["shape"]
    ent = case["ent"]
    m = np.asarray([float(Fraction(*e["m"])) for e in ent], dtype=np.float32).reshape(n, O)
    y = np.asarray([float(Fraction(*e["y"])) for e in ent], dtype=np.float32).reshape(n, O)
    js = [e["j"] for e in ent]
    lv = np.asarray([j * LN2 for j in js], dtype=np.float32).reshape(n, O)
    fn = jit or gaussian_nll
    try:
        v = float(fn(jnp.asarray(m), jnp.asarray(lv), jnp.asarray(y)))
    except Exception as e:
        out.add("gaussian_nll:raises", f"gaussian_nll raised {type(e).__name__}: {str(e)[:200]} for {case}")
        return out
    c, l = float(Fraction(*case["exp"]["c"])), float(Fraction(*case["exp"]["ln2"]))
    want = c + l * LN2
    if all(j == 0 for j in js):
        ok = v == want  # exp(0) = 1, dyadic mean: exact
    else:
        # both terms have one sign each; per entry: sub, square, *0.5, exp (<= 2 ulp + |j| LN2 argument rounding <= 3 ulp), mul;
        # mean: count-1 additions + division; 0.5 * mean(lv); final addition  ->  <= 16 half-ulps of the term magnitudes
        # a log-variance j*LN2 of large magnitude carries an absolute rounding error of |j| LN2 half-ulps, which is the
        # RELATIVE error of its precision exp(-j LN2): counted on top for |j| > 3
        jm = max(abs(j) for j in js)
        k = 16 if jm <= 3 else 16 + int(np.ceil(jm * LN2)) + 1
        ok = abs(v - want) <= k * EPS32 * (abs(c) + abs(l) * LN2) + 1e-30
    if not ok:
        out.add("gaussian_nll:closed_form", f"gaussian_nll = {v!r}, closed form {c} + {l}*LN2 = {want!r} for entries {ent} shape {case['shape']}")
    return out


def plan_nll(pool, quick):
    C = dict(Dev="none", Shapes={11, 21, 22, 41} if quick else {11, 21, 12, 22, 41, 14, 42}, Pats=6 if quick else 15, Wide=False)
    pool.generate("nll", "EnsembleNll", C)
    # log-variances near both ends of the range the learned soft bounds allow (precision up to 2^21): vectors only
    pool.generate("nll_wide", "EnsembleNll", dict(C, Wide=True, Shapes={11, 21, 22} if quick else {11, 21, 12, 22, 41}))
    pool.model_check("EnsembleNll", C, ["MinimalAtTarget", "ProperVariance", "AverageNotSum"], "EnsembleNll invariants")
    small = dict(C, Shapes={11}, Pats=1)
    pool.canary("EnsembleNll", small, "no_half_logvar", "ProperVariance")
    pool.canary("EnsembleNll", small, "var_not_inverse", "ProperVariance")


def part_nll(rep, pool):
    import jax

    from rl_blox.blox.probabilistic_ensemble import gaussian_nll

    wide = pool.emitted("nll_wide")
    if not any(e["j"] <= -21 for c_ in wide for e in c_["ent"]):
        raise tlc.MachineryError("no NLL vector with a log-variance deep in the legal range")
    cases = pool.emitted("nll") + wide
    jfn = jax.jit(gaussian_nll)
    n = 0
    for j, case in enumerate(cases):
        out = check_nll(case, jfn)
        if j % 16 == 0:  # the un-jitted function as well, on every 16th vector
            out.items += check_nll(case).items
        n += 1
        _report(rep, out, {"part": "nll", "case": case})
    bad = json.loads(json.dumps(cases[len(cases) // 2]))
    bad["exp"]["ln2"] = [bad["exp"]["ln2"][0] * 2 + 1, bad["exp"]["ln2"][1] * 2]
    if not check_nll(bad, jfn):
        raise tlc.MachineryError("binding canary: corrupted NLL form not noticed")
    rep.traces += n
    rep.sample({"nll": cases[len(cases) // 3]})
    return n


# ============================================================ 4. evaluate_plans
_eval_jit = {}


def check_eval(case, use_jit=True):
    import jax
    import jax.numpy as jnp

    from rl_blox.algorithm.pets import evaluate_plans

    out = Out()
    S, P, H = case["dims"][:3]
    RT = jnp.asarray(qarr(case["rtab"]).astype(np.float32))
    RA = jnp.asarray(qarr(case["ract"]).astype(np.float32))
    RO = jnp.asarray(qarr(case["robs"]).astype(np.float32))
    rkind = case["rkind"]

    # table rewards over tags (D1): feature 0 of action / observation is the tag.  Each is written the way a user
    # would: the action-only reward (a control cost) never touches `obs`, so its result has the shape of `act` alone
    if rkind == "act":

        def reward_model(act, obs):
            return RA[act[..., 0].astype(int)]

    elif rkind == "obs":

        def reward_model(act, obs):
            return RO[obs[..., 0].astype(int)]

    else:

        def reward_model(act, obs):
            return RT[act[..., 0].astype(int), obs[..., 0].astype(int)]

    acts = np.asarray(case["acts"], dtype=np.float32).reshape(S, H, 1)
    tr = np.asarray(case["traj"], dtype=np.float32).reshape(S, P, H + 1, 1)
    tr = np.concatenate([tr, np.full_like(tr, 7.0)], axis=-1)  # second observation feature: junk
    key = (S, P, H, rkind, json.dumps([case["rtab"], case["ract"], case["robs"]]))
    if use_jit:
        if key not in _eval_jit:
            _eval_jit[key] = jax.jit(lambda a, t: evaluate_plans(a, t, reward_model))
        fn = _eval_jit[key]
    else:
        fn = lambda a, t: evaluate_plans(a, t, reward_model)
    try:
        v = np.asarray(fn(jnp.asarray(acts), jnp.asarray(tr)))
    except Exception as e:
        out.add("evaluate_plans:raises", f"evaluate_plans raised {type(e).__name__}: {str(e)[:200]} dims {case['dims']}")
        return out
    want = qarr(case["exp"])
    if v.shape != (S,):
        out.add("evaluate_plans:shape", f"evaluate_plans returned shape {v.shape}, one value per plan expected ({S},)")
        return out
    # P in {1, 2, 4}: dyadic -> exact; otherwise P-1 additions + division -> 4 ulp
    ok = np.array_equal(v.astype(np.float64), want) if P in (1, 2, 4) else np.all(within_ulps(v, want, 4))
    if not ok:
        out.add("evaluate_plans:value", f"evaluate_plans = {v.tolist()}, model (particle mean of summed rewards) {want.tolist()} for a reward depending on {rkind!r}, dims (plans, particles, horizon) {case['dims']}, acts {case['acts']} traj {case['traj']}")
    return out


EVAL_INVS = ["LastObsIgnored", "PlanLocal", "ParticlesExchangeable", "UnitCase", "ActionOnlyIsPlainSum", "ObservationOnlyIgnoresActions"]
ALL_KINDS = {"both", "act", "obs"}


def plan_eval(pool, quick, seed):
    # every tag assignment for small shapes, reward depending on action and observation
    C = dict(Dev="none", Dims={111, 121, 211, 112, 221, 122} if quick else {111, 121, 211, 112, 221, 122, 212}, NPat=1, RKinds={"both"}, TrajPats=0)
    pool.generate("eval", "EnsemblePlan", C, next="NextEval")
    # all three reward kinds (action only / observation only / both) x 1, 2, 4 particles x 1-3 plans: every action
    # assignment, patterned trajectories (for an action-only reward the trajectories are irrelevant by ActionOnlyIsPlainSum)
    CK = dict(Dev="none", Dims={111, 121, 141, 211, 221, 241, 212, 222, 242, 341}, NPat=1, RKinds=ALL_KINDS, TrajPats=3 if quick else 6)
    pool.generate("evalkinds", "EnsemblePlan", CK, next="NextEval")
    # beyond the exhaustive bound: random vectors with 3-4 particles / plans (TLC simulation, seeded)
    C2 = dict(Dev="none", Dims={231, 322, 242, 332} if quick else {231, 322, 242, 332, 343, 433, 243}, NPat=1, RKinds=ALL_KINDS, TrajPats=0)
    pool.generate("evalsim", "EnsemblePlan", C2, next="NextEval", simulate=f"num={60 if quick else 400}", depth=12, seed=seed + 11)
    pool.model_check("EnsemblePlan", C, EVAL_INVS, "EnsemblePlan Eval invariants (reward on action and observation)", next="NextEval")
    pool.model_check("EnsemblePlan", CK, EVAL_INVS, "EnsemblePlan Eval invariants (three reward kinds, 1/2/4 particles)", next="NextEval")
    small = dict(C, Dims={112})
    pool.canary("EnsemblePlan", small, "sum_all_obs", "LastObsIgnored", next="NextEval")
    pool.canary("EnsemblePlan", small, "mean_over_time", "UnitCase", next="NextEval")
    pool.canary("EnsemblePlan", dict(CK, Dims={221}, TrajPats=1), "collapsed_particle_axis", "ActionOnlyIsPlainSum", next="NextEval")


def part_eval(rep, pool):
    cases = list(pool.emitted("eval"))
    kinds = pool.emitted("evalkinds")
    sim = pool.emitted("evalsim")
    # vacuity guard: the kinds generator really covers action-only rewards with several particles and plans
    for kind in ALL_KINDS:
        for particles in (1, 2, 4):
            if not any(c["rkind"] == kind and c["dims"][1] == particles and c["dims"][0] >= 2 for c in kinds):
                raise tlc.MachineryError(f"no evaluate_plans vector with reward kind {kind}, {particles} particles and >= 2 plans")
    cases += kinds + sim
    n = 0
    for j, case in enumerate(cases):
        out = check_eval(case)
        if j % 64 == 0:
            out.items += check_eval(case, use_jit=False).items
        n += 1
        _report(rep, out, {"part": "eval", "case": case})
    bad = json.loads(json.dumps(cases[len(cases) // 2]))
    bad["exp"][0] = [bad["exp"][0][0] * 2 + bad["exp"][0][1], bad["exp"][0][1] * 2]
    if not check_eval(bad):
        raise tlc.MachineryError("binding canary: corrupted plan value not noticed")
    rep.traces += n
    rep.extra["eval_simulated_vectors"] = len(sim)
    rep.extra["eval_reward_kind_vectors"] = {k: sum(1 for c in cases if c["rkind"] == k) for k in sorted(ALL_KINDS)}
    rep.sample({"evaluate_plans": next(c for c in kinds if c["rkind"] == "act" and c["dims"][:2] == [2, 4])})
    return n


# ==================================================================== 5. ts_inf
PROP_INVS = ["ParticleKeepsMember", "StepIsDelta", "MembersDifferP"]
_prop_models = {}


def prop_model(O, shared, E=2):
    from flax import nnx

    from rl_blox.blox.probabilistic_ensemble import GaussianMLPEnsemble

    k = (O, shared, E)
    if k not in _prop_models:
        _prop_models[k] = GaussianMLPEnsemble(
            n_ensemble=E, shared_head=shared, n_features=O + 1, n_outputs=O, hidden_nodes=[], activation="relu", rngs=nnx.Rngs(0)
        )
    return _prop_models[k]


def load_prop_params(model, par, O, shared, lb=None, raw_min=-1e4):
    import jax.numpy as jnp

    f32 = lambda a: jnp.asarray(np.asarray(a, dtype=np.float32))
    Wo, Wa, b = qarr(par["Wo"]), qarr(par["Wa"]), qarr(par["b"])  # (2,O,O) (2,O) (2,O)
    K = np.concatenate([Wo, Wa[:, None, :]], axis=1)  # rows: observation features, then the action
    lb = np.asarray(par["lb"] if lb is None else lb, dtype=np.float64)
    ens = model.ensemble
    if shared:
        ens.output_layers[0].kernel.value = f32(np.concatenate([K, np.zeros_like(K)], axis=2))
        ens.output_layers[0].bias.value = f32(np.concatenate([b, lb], axis=1))
    else:
        ens.output_layers[0].kernel.value = f32(K)
        ens.output_layers[0].bias.value = f32(b)
        ens.output_layers[1].kernel.value = f32(np.zeros_like(K))
        ens.output_layers[1].bias.value = f32(lb)
    model.raw_min_log_var.value = f32(np.full((O,), raw_min))
    model.raw_max_log_var.value = f32(np.zeros((O,)))


def check_prop(case, shared, seed):
    """ts_inf against the model's mean trajectory; noise at its floor exp(-10) inside an 8-sigma envelope"""
    import jax
    import jax.numpy as jnp

    from rl_blox.algorithm.pets import ts_inf

    out = Out()
    S, P, H, O = case["dims"][:4]
    par = case["par"]
    model = prop_model(O, shared, len(par["b"]))  # members: two, or the number named by the dims code (one member)
    load_prop_params(model, par, O, shared)
    acts = jnp.asarray(qarr(case["acts"]).astype(np.float32).reshape(S, H, 1))
    obs0 = jnp.asarray(qarr(par["obs0"]).astype(np.float32))
    keys = jax.random.split(jax.random.key(seed), (S, P))
    midx = jnp.asarray(np.asarray(case["model_idx"], dtype=np.int32))
    try:
        tr = np.asarray(ts_inf(keys, midx, acts, obs0, model))
    except Exception as e:
        out.add("ts_inf:raises", f"ts_inf raised {type(e).__name__}: {str(e)[:200]} dims {case['dims']}")
        return out
    want = qarr(case["exp"])  # (S, P, H+1, O)
    if tr.shape != want.shape:
        out.add("ts_inf:shape", f"ts_inf returned shape {tr.shape}, model {want.shape}")
        return out
    sigma = math.exp(0.5 * float(np.max(np.asarray(model.min_log_var))))  # all outputs at the floor (raw -10^4)
    L = 1.0 + float(np.max(np.sum(np.abs(qarr(par["Wo"])), axis=1)))  # growth of a perturbation per step (inf-norm)
    env = np.asarray([8.0 * sigma * sum(L**j for j in range(t)) for t in range(H + 1)]) + 64 * EPS32 * (1.0 + np.abs(want).max())
    err = np.abs(tr.astype(np.float64) - want).max(axis=(0, 1, 3))
    if np.any(err > env):
        out.add(
            "ts_inf:mean_trajectory",
            f"ts_inf trajectory deviates from the member's mean propagation by {err.tolist()} per step (envelope {env.tolist()}); got {tr.tolist()} model {want.tolist()} model_idx {case['model_idx']} dims {case['dims']} shared_head={shared}",
        )
    return out


def check_noise(O, shared, pattern, seed, bd_failed):
    """one TS-inf step, many samples: the per-output noise scale of each member (symbols lo / softhi)"""
    import jax
    import jax.numpy as jnp

    from rl_blox.algorithm.pets import ts_inf

    out = Out()
    S, P = 1024, 2
    model = prop_model(O, shared)
    zero = [[0, 1]] * O
    par = {"Wo": [[zero] * O] * 2, "Wa": [zero] * 2, "b": [zero] * 2, "obs0": zero}
    # raw log-variances: saturating low / high, alternating over (member, output) - pattern from EnsemblePlan.NoiseRaw
    lb = pattern["lb"]
    load_prop_params(model, par, O, shared, lb=lb, raw_min=0.0)
    lo, hi, softhi = soft_bounds(model)
    keys = jax.random.split(jax.random.key(seed), (S, P))
    try:
        tr = np.asarray(ts_inf(keys, jnp.asarray([0, 1], dtype=jnp.int32), jnp.zeros((S, 1, 1)), jnp.zeros((O,)), model)).astype(np.float64)
    except Exception as e:
        out.add("ts_inf:raises", f"ts_inf raised {type(e).__name__}: {str(e)[:200]} (noise vector O={O})")
        return out
    if tr.shape != (S, P, 2, O):
        out.add("ts_inf:shape", f"ts_inf returned shape {tr.shape}, model {(S, P, 2, O)}")
        return out
    delta = tr[:, :, 1, :] - tr[:, :, 0, :]  # (S, P, O); particle p uses member p
    for m in range(2):
        for k in range(O):
            cls = pattern["cls"][m][k]
            sd = math.exp(0.5 * (lo[k] if cls == "lo" else softhi[k]))
            got = float(delta[:, m, k].std())
            mean = float(delta[:, m, k].mean())
            # 1024 samples: relative standard error of the sample std 1/sqrt(2048) = 2.2%; band of +-20% is 9 sigma
            if not (0.8 * sd <= got <= 1.25 * sd) or abs(mean) > 8 * sd / math.sqrt(S):
                key = "base_distribution:single_vector_shape" if bd_failed and O > 1 else "ts_inf:noise_scale"
                out.add(
                    key,
                    f"ts_inf noise of member {m}, output {k}: sample std {got:.4g} (mean {mean:.3g}) over {S} particles, the member's predictive std is {sd:.4g} "
                    f"(raw log-variances {lb[m]}, class {cls}); O={O} shared_head={shared}",
                )
    return out


def plan_prop(pool, quick):
    # 5-digit codes ESPHO: E members.  12122: ONE member, one particle;  2122 / 2212: one particle / horizon 1 with two members
    C = dict(Dev="none", Dims={2222, 1332, 12122} if quick else {2221, 2222, 1332, 2323, 3213, 12122, 11313, 2122, 2212}, NPat=2 if quick else 4, RKinds={"both"}, TrajPats=0)
    pool.generate("prop", "EnsemblePlan", C, next="NextProp")
    pool.model_check("EnsemblePlan", C, PROP_INVS, "EnsemblePlan TsInf invariants", next="NextProp")
    small = dict(C, Dims={2222}, NPat=2)
    pool.canary("EnsemblePlan", small, "stale_obs", "StepIsDelta", next="NextProp")
    pool.canary("EnsemblePlan", small, "one_member", "StepIsDelta", next="NextProp")


def part_prop(rep, pool):
    quick = rep.tier == "quick"
    emitted = pool.emitted("prop")
    cases = [c for c in emitted if "model_idx" in c]
    noise = [c for c in emitted if "noise" in c]
    n = 0
    for j, case in enumerate(cases):
        shared = (case["dims"][3] % 2 == 0) if quick else (j % 2 == 0)  # quick: one layout per shape (one compilation)
        out = check_prop(case, shared, rep.seed + j)
        n += 1
        _report(rep, out, {"part": "prop", "case": case, "shared": shared, "seed": rep.seed + j})
    bad = json.loads(json.dumps(cases[-1]))
    q = bad["exp"][0][0][1][0]
    q[0] += q[1]
    if not check_prop(bad, (bad["dims"][3] % 2 == 0), rep.seed):
        raise tlc.MachineryError("binding canary: corrupted mean trajectory not noticed")
    bd_failed = any(v["key"] == "base_distribution:single_vector_shape" for v in rep.violations)
    for j, pat in enumerate(noise):
        O = pat["noise"]["nout"]
        shared = O % 2 == 1
        out = check_noise(O, shared, pat["noise"], rep.seed + 100 + j, bd_failed)
        n += 1
        _report(rep, out, {"part": "noise", "pattern": pat["noise"], "shared": shared, "seed": rep.seed + 100 + j})
    rep.traces += n
    rep.sample({"ts_inf": {k: cases[0][k] for k in ("dims", "acts", "model_idx")}, "exp_first_particle": cases[0]["exp"][0][0]})
    return n


# =============================================================== 6. pendulum
PEND_INVS = ["NonPositive", "ZeroIffUprightAtRest", "TorqueSaturates", "SinIgnored", "HalfTurns"]


def _pend_inputs(cases):
    v = [c["vec"] for c in cases]
    q = lambda t: float(Fraction(*t))
    obs = np.asarray([[q(c["c"]), q(c["s"]), q(c["v"])] for c in v], dtype=np.float32)
    act = np.asarray([[q(c["u"])] for c in v], dtype=np.float32)
    want = np.asarray([q(c["exp"]["c"]) + q(c["exp"]["pisq"]) * PISQ for c in cases], dtype=np.float64)
    return act, obs, want


def check_pend(cases, single=False):
    """pendulum_reward on TLC's lattice (whole lattice as one batch, or the given cases one by one)"""
    import jax.numpy as jnp

    from rl_blox.algorithm.pets_reward_models import pendulum_reward

    out = Out()
    act, obs, want = _pend_inputs(cases)
    try:
        if single:
            got = np.asarray([float(pendulum_reward(jnp.asarray(a), jnp.asarray(o))) for a, o in zip(act, obs)])
        else:
            got = np.asarray(pendulum_reward(jnp.asarray(act), jnp.asarray(obs)))
    except Exception as e:
        out.add("pendulum_reward:raises", f"pendulum_reward raised {type(e).__name__}: {str(e)[:200]}")
        return out
    if got.shape != want.shape:
        out.add("pendulum_reward:shape", f"pendulum_reward returned shape {got.shape} for {len(cases)} (action, observation) pairs")
        return out
    # all three cost terms are non-negative.  arccos <= 2 ulp, angle normalisation (add PI, mod, sub PI) <= 2 ulp of theta,
    # squaring doubles -> 8; 0.1*v^2 and 0.001*u^2: constant rounding + 2 mul each -> 2 + 2; two additions -> 1  => 16 ulp
    ok = within_ulps(got, want, 16)
    for j in np.nonzero(~ok)[0][:3]:
        out.add("pendulum_reward:lattice_value", f"pendulum_reward = {got[j]!r}, model {cases[j]['exp']} = {want[j]!r} at {cases[j]['vec']}")
    return out


def _pend_point(o, u=None):
    q = lambda t: float(Fraction(*t))
    return [q(o["c"]), q(o["s"]), q(o["v"])] if u is None else [q(u)]


def _form_value(f):
    return float(Fraction(*f["c"])) + float(Fraction(*f["pisq"])) * PISQ


def check_pend_batch(case):
    """pendulum_reward on one TLC batch (EnsemblePend.NextBatch): batch shape sh of any rank, singleton axes anywhere"""
    import jax.numpy as jnp

    from rl_blox.algorithm.pets_reward_models import pendulum_reward

    out = Out()
    b = case["batch"]
    sh = tuple(b["shape"])
    obs = np.asarray([_pend_point(o) for o in b["obs"]], dtype=np.float32).reshape(sh + (3,))
    act = np.asarray([_pend_point(None, u) for u in b["act"]], dtype=np.float32).reshape(sh + (1,))
    want = np.asarray([_form_value(f) for f in case["exp"]], dtype=np.float64)
    tagc = f"batch shape {list(sh)} (actions {list(act.shape)}, observations {list(obs.shape)}), pattern {b['q']}"
    try:
        got = np.asarray(pendulum_reward(jnp.asarray(act), jnp.asarray(obs)))
    except Exception as e:  # the specification defines a result for every batch shape
        out.add("pendulum_reward:batch_raises", f"pendulum_reward raised {type(e).__name__}: {str(e)[:200]} on {tagc}")
        return out
    if list(got.shape) != case["out_shape"]:
        out.add(
            "pendulum_reward:batch_shape",
            f"pendulum_reward returned shape {list(got.shape)} on {tagc}; the model's result has the batch shape {case['out_shape']} "
            f"(one reward per pair - axes of length one are batch axes like any other)",
        )
        return out
    # same count as on the point lattice (check_pend): 16 ulp
    ok = within_ulps(got.reshape(-1), want, 16)
    for j in np.nonzero(~ok)[0][:2]:
        out.add("pendulum_reward:batch_value", f"pendulum_reward[{j}] = {got.reshape(-1)[j]!r}, model {case['exp'][j]} = {want[j]!r} at obs {b['obs'][j]} torque {b['act'][j]} on {tagc}")
    return out


def check_pend_plan(case):
    """evaluate_plans with the bundled Pendulum reward model on one TLC vector (EnsemblePend.NextPlan)"""
    import jax.numpy as jnp

    from rl_blox.algorithm.pets import evaluate_plans
    from rl_blox.algorithm.pets_reward_models import pendulum_reward

    out = Out()
    pl = case["plan"]
    S, P, H = pl["dims"]
    acts = np.asarray([[_pend_point(None, u) for u in row] for row in pl["acts"]], dtype=np.float32).reshape(S, H, 1)
    traj = np.asarray([[[_pend_point(o) for o in part] for part in plan] for plan in pl["traj"]], dtype=np.float32).reshape(S, P, H + 1, 3)
    want = np.asarray([_form_value(f) for f in case["exp"]], dtype=np.float64)
    tagc = f"{S} plans x {P} particle(s) x horizon {H}, pattern {pl['q']}"
    try:
        v = np.asarray(evaluate_plans(jnp.asarray(acts), jnp.asarray(traj), pendulum_reward))
    except Exception as e:
        out.add("evaluate_plans:pendulum_raises", f"evaluate_plans(.., pendulum_reward) raised {type(e).__name__}: {str(e)[:200]} ({tagc})")
        return out
    if v.shape != (S,):
        out.add("evaluate_plans:pendulum_shape", f"evaluate_plans(.., pendulum_reward) returned shape {v.shape}, one value per plan expected ({S},) ({tagc})")
        return out
    # every reward is <= 0 (no cancellation): each within 16 ulp of itself (check_pend) -> their sum within 32 ulp of the total
    # (sum of ulps <= 2 ulp of the sum); H-1 additions along the horizon, P-1 additions and one division over the particles,
    # each <= 1/2 ulp of a partial sum that is <= the total in magnitude  ->  32 + H + P ulp
    ok = within_ulps(v, want, 32 + H + P)
    if not np.all(ok):
        out.add(
            "evaluate_plans:pendulum_value",
            f"evaluate_plans(.., pendulum_reward) = {v.tolist()}, model (particle mean of the Pendulum rewards of each plan's own torques summed along its trajectory) "
            f"{want.tolist()} for {tagc}; torques {acts[..., 0].tolist()}",
        )
    return out


def differential_pendulum(rep):
    """pendulum_reward vs Gymnasium's Pendulum-v1 on random states (differential evidence, outside the specification)"""
    import gymnasium as gym
    import jax.numpy as jnp

    from rl_blox.algorithm.pets_reward_models import pendulum_reward

    n = 500 if rep.tier == "quick" else 5000
    rng = np.random.default_rng(rep.seed + 77)
    env = gym.make("Pendulum-v1")
    env.reset(seed=0)
    u = env.unwrapped
    th = rng.uniform(-np.pi, np.pi, n)
    thd = rng.uniform(-8.0, 8.0, n)
    tq = rng.uniform(-3.0, 3.0, n)
    obs, rew = [], []
    for a, b, c in zip(th, thd, tq):
        u.state = np.array([a, b], dtype=np.float64)
        obs.append(u._get_obs())
        rew.append(float(env.step(np.array([c], dtype=np.float32))[1]))
    env.close()
    obs, rew = np.asarray(obs, dtype=np.float32), np.asarray(rew, dtype=np.float64)
    got = np.asarray(pendulum_reward(jnp.asarray(tq.astype(np.float32)[:, None]), jnp.asarray(obs))).astype(np.float64)
    # conditioning: the observation carries cos(th) in float32; d(th^2) = 2 th / sin(th) * d(cos); d(cos) <= 1/2 ulp of the
    # float32 cosine, plus arccos' own error of a few ulp of th; the remaining terms as on the lattice (16 ulp of the value)
    s = np.abs(np.sin(th))
    cond = 2.0 * np.abs(th) / np.maximum(s, 1e-12)
    bound = 4 * EPS32 * cond * np.maximum(np.abs(np.cos(th)), 2.0**-20) + 32 * EPS32 * np.abs(rew) + 1e-7
    wellcond = s > 0.05  # near th = +-pi the angle is not recoverable from a float32 cosine: excluded, reported
    ratio = np.abs(got - rew) / bound
    worst = int(np.argmax(np.where(wellcond, ratio, 0)))
    rep.extra["differential_pendulum_vs_gymnasium"] = {
        "states": int(n),
        "compared": int(wellcond.sum()),
        "excluded_ill_conditioned": int((~wellcond).sum()),
        "max_abs_diff": float(np.abs(got - rew)[wellcond].max()),
        "max_diff_over_bound": float(ratio[wellcond].max()),
        "max_abs_diff_excluded": float(np.abs(got - rew)[~wellcond].max()) if (~wellcond).any() else 0.0,
    }
    if ratio[wellcond].max() > 1.0:
        rep.violation(
            "pendulum_reward:differs_from_gymnasium",
            f"pendulum_reward = {got[worst]!r}, Gymnasium Pendulum-v1 reward {rew[worst]!r} at th={th[worst]!r} th_dot={thd[worst]!r} u={tq[worst]!r} (bound {bound[worst]:.3g})",
            {"part": "pendulum_diff", "th": float(th[worst]), "thd": float(thd[worst]), "u": float(tq[worst])},
        )
    return int(wellcond.sum())


PEND_BATCH_INVS = ["BatchShapeKept", "BatchPointwise"]
PEND_PLAN_INVS = ["PlanLocalPend", "SingleParticleIsPlainSum", "LastObsIgnoredPend", "RestIsTorqueCost"]


def _shape_codes(lengths, ranks):
    """decimal codes of all batch shapes with the given axis lengths and ranks (0 = rank 0)"""
    import itertools

    return {int("".join(map(str, sh)) or "0") for r in ranks for sh in itertools.product(sorted(lengths), repeat=r)}


def pend_constants(quick):
    if quick:
        # every rank 0-3 with a singleton axis in every position (lengths 1, 2) and three rank-4 shapes;
        # plans: one particle with 2-3 candidate plans, one plan, horizon 1, several particles
        return dict(Dev="none", Shapes=_shape_codes({1, 2}, range(4)) | {1212, 2121, 2112}, Dims={211, 212, 312, 112, 121, 221, 222, 132}, NPat=3)
    return dict(
        Dev="none",
        Shapes=_shape_codes({1, 2, 3}, range(4)) | _shape_codes({1, 2}, [4]),
        Dims={111, 211, 212, 312, 213, 413, 112, 121, 221, 222, 132, 231, 241, 322, 142, 313},
        NPat=6,
    )


def plan_pend(pool, quick):
    C = pend_constants(quick)
    pool.generate("pend", "EnsemblePend", C)
    pool.generate("pendbatch", "EnsemblePend", C, next="NextBatch")
    pool.generate("pendplan", "EnsemblePend", C, next="NextPlan")
    pool.model_check("EnsemblePend", C, PEND_INVS, "EnsemblePend invariants")
    pool.model_check("EnsemblePend", C, PEND_BATCH_INVS, "EnsemblePend batch invariants (every rank, singleton axes)", next="NextBatch")
    pool.model_check("EnsemblePend", C, PEND_PLAN_INVS, "EnsemblePend plan evaluation with the Pendulum reward", next="NextPlan")
    pool.canary("EnsemblePend", C, "no_clip", "TorqueSaturates")
    small = dict(C, Shapes={21, 121}, Dims={212}, NPat=1)
    pool.canary("EnsemblePend", small, "squeeze_all", "BatchShapeKept", next="NextBatch")
    pool.canary("EnsemblePend", small, "torque_axis_collapsed", "PlanLocalPend", next="NextPlan")
    pool.canary("EnsemblePend", small, "torque_axis_collapsed", "SingleParticleIsPlainSum", next="NextPlan")


def part_pend(rep, pool):
    cases = pool.emitted("pend")
    out = check_pend(cases)
    step = 9 if rep.tier == "quick" else 1
    out.items += check_pend(cases[::step], single=True).items
    for key, what in out.items:
        rep.violation(key, what, {"part": "pend", "cases": cases})
    bad = json.loads(json.dumps(cases[-5:]))
    bad[0]["exp"]["pisq"] = [bad[0]["exp"]["pisq"][0] - 1, 4]
    if not check_pend(bad):
        raise tlc.MachineryError("binding canary: corrupted pendulum form not noticed")
    n = len(cases) + len(cases[::step])
    # the vectorised reward model on batches of every rank, and plan evaluation with it
    batches = pool.emitted("pendbatch")
    plans = pool.emitted("pendplan")
    # vacuity guards: a singleton axis in an interior / trailing position of a batch with another axis > 1, and plan evaluation
    # with ONE particle and >= 2 candidate plans whose torque costs differ (TLC's CostsDiffer)
    if not any(1 in c["batch"]["shape"][1:] and max(c["batch"]["shape"]) > 1 for c in batches):
        raise tlc.MachineryError("no pendulum batch with an interior singleton axis")
    if not any(c["plan"]["dims"][1] == 1 and c["plan"]["dims"][0] >= 2 and c["costs_differ"] for c in plans):
        raise tlc.MachineryError("no plan-evaluation vector with one particle and >= 2 plans whose torque costs differ")
    # one particle with several plans of different torque costs first: the first reported case of a key is the most telling one
    plans.sort(key=lambda c: not (c["plan"]["dims"][1] == 1 and c["plan"]["dims"][0] >= 2 and c["costs_differ"]))
    for case in batches:
        _report(rep, check_pend_batch(case), {"part": "pendbatch", "case": case})
    for case in plans:
        _report(rep, check_pend_plan(case), {"part": "pendplan", "case": case})
    # binding canaries: a result shape without its singleton axes / a plan value charged another plan's torque cost must be noticed
    bad = json.loads(json.dumps(next(c for c in batches if 1 in c["batch"]["shape"][1:] and max(c["batch"]["shape"]) > 1)))
    bad["out_shape"] = [d for d in bad["out_shape"] if d != 1]
    if not any(k == "pendulum_reward:batch_shape" for k, _ in check_pend_batch(bad).items):
        raise tlc.MachineryError("binding canary: corrupted batch shape of the pendulum reward not noticed")
    bad = json.loads(json.dumps(next(c for c in plans if c["plan"]["dims"][1] == 1 and c["plan"]["dims"][0] >= 2 and c["costs_differ"])))
    bad["exp"][0], bad["exp"][1] = bad["exp"][1], bad["exp"][0]
    costs = {json.dumps(f) for f in bad["exp"][:2]}
    if len(costs) > 1 and not any(k == "evaluate_plans:pendulum_value" for k, _ in check_pend_plan(bad).items):
        raise tlc.MachineryError("binding canary: exchanged plan values (Pendulum reward) not noticed")
    n += len(batches) + len(plans)
    rep.extra["pendulum_batch_shapes"] = sorted({json.dumps(c["batch"]["shape"]) for c in batches})
    rep.extra["pendulum_plan_dims"] = sorted({json.dumps(c["plan"]["dims"]) for c in plans})
    rep.traces += n
    rep.sample({"pendulum_reward": cases[len(cases) // 2]})
    pl = next(c for c in plans if c["plan"]["dims"][1] == 1 and c["plan"]["dims"][0] >= 2 and c["costs_differ"])
    rep.sample({"evaluate_plans_pendulum": {"dims": pl["plan"]["dims"], "acts": pl["plan"]["acts"]}, "exp": pl["exp"]})
    nd = differential_pendulum(rep)
    return n, nd


# ===================================================================== run
def run(rep):
    for m in ("Ensemble", "EnsembleBoot", "EnsembleBootTrace", "EnsembleNll", "EnsemblePlan", "EnsemblePend"):
        tlc.sany(m)
    import time

    t0 = time.time()
    timing = {}

    quick = rep.tier == "quick"
    _enable_xla_cache()
    pool = Pool()
    # generators first (the binding waits for them), then model checking and canaries
    plan_views(pool, quick)
    plan_isolation(pool, quick)
    plan_nll(pool, quick)
    plan_eval(pool, quick, rep.seed)
    plan_prop(pool, quick)
    plan_pend(pool, quick)
    plan_boot(pool, quick)
    pool.start()

    def timed(name, fn):
        t = time.time()
        res = fn(rep, pool)
        timing[name] = round(time.time() - t, 1)
        return res

    n_views, nontrivial = timed("views", part_views)
    n_boot = timed("bootstrap", part_boot)
    n_iso = timed("isolation", part_isolation)
    n_nll = timed("nll", part_nll)
    n_eval = timed("evaluate_plans", part_eval)
    n_prop = timed("ts_inf", part_prop)
    n_pend, n_diff = timed("pendulum", part_pend)
    t = time.time()
    pool.finish(rep)
    timing["tlc_tail"] = round(time.time() - t, 1)
    rep.extra["wall_s_by_part"] = timing
    if os.environ.get("VERIF_C17_TIMING"):
        print("timing", timing, "total", round(time.time() - t0, 1))
    rep.rule = (
        "TLC enumerates staged test vectors: (ensemble size 2-3) x (outputs 1-3) x parameter pattern x (vector | batch of 1-3 rows | per-member batch) x input pattern x member "
        "for the views/aggregate, plus the class of members that (nearly) agree far from zero (ensemble size 1-4, common output offset 50-200, zero / 2^-8 output weights or copies of one member, "
        "raw log-variance saturating low) where the aggregate variance is compared relative to its true value; all NLL vectors with <= 2 entries over 3 means x 3 targets x 5 log-variances j*LN2 plus patterned 4-8 entry vectors; all plan/trajectory tag assignments for 7 small (plans, particles, horizon) "
        "shapes plus seeded TLC simulation for 3-4 particles; TS-inf vectors over member assignments x parameter patterns; the 360-point Pendulum lattice, Pendulum batches of every rank 0-3 (and rank 4) with singleton axes in every position, and evaluate_plans with the Pendulum reward over (plans, particles, horizon) shapes including one particle with 2-4 plans of different torque cost; bootstrap traces are recorded from real train_ensemble runs "
        "(5-9 configurations x seeds) and validated by EnsembleBootTrace; isolation vectors are sampled (seeded) from TLC's (index tensor, perturbed rows) pairs. "
        "A views vector is non-trivial when outputs carry different raw log-variances or there is a single output (members always differ, checked by the MembersDiffer invariant)."
    )
    rep.evaluations = n_views + n_boot + n_iso + n_nll + n_eval + n_prop + n_pend
    rep.distinct = nontrivial + n_boot + n_iso + n_nll + n_eval + n_prop + n_pend
    rep.extra["vectors_by_part"] = dict(views=n_views, bootstrap_traces_accepted=n_boot, isolation=n_iso, nll=n_nll, evaluate_plans=n_eval, ts_inf=n_prop, pendulum_lattice=n_pend, pendulum_differential=n_diff)
    rep.exhaustive = False
    rep.assumptions += [
        "log-variance values are checked through order/bound predicates and the saturated points only (softplus is uninterpreted in the specification)",
        "member means are exact only for the dyadic one-hidden-layer ReLU networks of the lattice; member-vs-joint equality is bitwise on that lattice",
        "ts_inf noise is checked through an 8-sigma envelope around the mean trajectory and a +-20% band on the sample standard deviation of 1024 particles",
        "the comparison with Gymnasium's Pendulum reward is differential evidence on random states (angles within 0.05 rad of +-pi excluded as ill-conditioned in float32)",
        "trace validation covers data sets of <= 32 rows, bootstrap samples of <= 16 positions, train sizes 1/2, 3/4, 1 and 0.7 (where 0.7 * n is not within rounding of an integer)",
        "trusted: TLC, spec/Exact.tla, numeric LN2 and PI^2, this driver's parameter loading",
    ]


# ================================================================== replay
def replay(path, rep):
    _enable_xla_cache()
    d = json.load(open(path))
    pay = d["replay"]
    part = pay.get("part")
    if part == "views":
        out = check_view(pay["case"], pay["shared"])
    elif part == "isolation":
        out = check_isolation(pay["case"])
    elif part == "nll":
        out = check_nll(pay["case"])
    elif part == "eval":
        out = check_eval(pay["case"], use_jit=False)
    elif part == "prop":
        out = check_prop(pay["case"], pay["shared"], pay["seed"])
    elif part == "noise":
        out = check_noise(pay["pattern"]["nout"], pay["shared"], pay["pattern"], pay["seed"], False)
    elif part == "pend":
        out = check_pend(pay["cases"])
    elif part == "pendbatch":
        out = check_pend_batch(pay["case"])
    elif part == "pendplan":
        out = check_pend_plan(pay["case"])
    elif part == "boot":
        cfg = pay["cfg"]
        t = record_trace(cfg, pay["key_seed"], pay.get("call_through", False))
        out = Out()
        if "error" in t:
            out.add("train_ensemble:raises", t["error"])
        else:
            _, pos = validate_traces(cfg, [t], tag="c17replay")
            print("boot", t["boot"], "epochs", t["epochs"], "events consumed", pos[0], "of", 1 + len(t["epochs"]))
            if pos[0] != 1 + len(t["epochs"]):
                out.add("train_ensemble:epoch_indices", f"trace rejected at event {pos[0]}")
    elif part == "pendulum_diff":
        import jax.numpy as jnp

        from rl_blox.algorithm.pets_reward_models import pendulum_reward

        th, thd, u = pay["th"], pay["thd"], pay["u"]
        obs = np.asarray([math.cos(th), math.sin(th), thd], dtype=np.float32)
        got = float(pendulum_reward(jnp.asarray([u], dtype=jnp.float32), jnp.asarray(obs)))
        an = ((th + math.pi) % (2 * math.pi)) - math.pi
        want = -(an**2 + 0.1 * thd**2 + 0.001 * min(max(u, -2.0), 2.0) ** 2)
        print("pendulum_reward", got, "environment formula", want)
        out = Out()
        if abs(got - want) > 1e-3 * (1 + abs(want)):
            out.add(d["key"], f"{got} vs {want}")
    else:
        print("unknown replay payload", part)
        return 2
    if out:
        print("VIOLATION property=C17 replay=" + path)
        for key, what in out.items:
            print(f"   key={key} :: {what}"[:1500])
        return 1
    print("replayed case passes")
    return 0
