"""C06, clauses LAW and STORAGE - target networks follow the Polyak / hard-copy law.

spec/TargetNet.tla: networks are parameter trees (leaf class -> exact
rational) that hold REFERENCES into a heap of storage cells, so "the online
network is not changed", "shares no storage" and "an online update leaves the
target untouched" are decided by TLC instead of holding by construction.

Binding (spec -> code), everything expected comes from TLC's EMIT records:

* transition coverage (cover_multi: harness/graph.cover for several initial
  states) of the reachable state graph into pairs of REAL modules of every type targets are made of; a model tree is
  written into every element of every nnx.Variable of the module (each element
  is assigned to one of the K leaf classes by a layout), the real
  soft_/hard_target_net_update / nnx.clone / in-place online write is applied
  and ALL leaves of both networks are compared exactly (dyadic lattice, D2);
* the same for the non-dyadic step sizes 1/200 and 3/10 against TLC's exact
  rationals within the forward error bound of the three float32 roundings;
* storage: every train_* routine that creates its targets itself is called
  with target=None; TLC's path Create -> Online -> Hard -> Online ... is
  replayed on the modules the routine returns.

* supplement (not TLC's arithmetic): generic float32 parameters, tau 0.005 /
  0.3, against the harness' exact rational value within the same bound.

The coordinator's driver (c06.py) calls run_law(rep) and replay_law(d, rep);
for the cadence clause it can import zoo, leaves, snapshot, same_snapshot,
shared_variables, polyak_bound and relation(prev_target, online, new_target, tau).
VERIF_TLC_WORKERS caps the TLC workers (default 16).
"""
from __future__ import annotations

import concurrent.futures as cf
import functools
import os
import time
import traceback
from collections import deque
from fractions import Fraction

import numpy as np

from .. import exact, graph, tlc
from ..graph import Mismatch

K = 4  # leaf classes of the model
U = Fraction(1, 2**24)  # float32 unit roundoff
LAYOUTS = ("leaf", "elem")
STATE_INVS = ["TypeOK", "LawTauOneIsHard", "LawTauZeroIsNoop", "LawHardIsOnline", "LawEveryLeaf", "NoSharedStorage"]
HIST_INVS = STATE_INVS + ["TargetIsClosedForm", "WeightsConvex"]
PROPS = ["OnlineUntouched", "TargetUntouched", "UpdateLaw"]
# deviation -> (NEXT, invariants, properties, what must be reported as violated)
CANARIES = {
    "tau and 1-tau swapped": ("NextSwapped", ["TargetIsClosedForm"], [], "TargetIsClosedForm"),
    "one leaf class skipped by the soft update": ("NextSkipLeaf", ["TargetIsClosedForm"], [], "TargetIsClosedForm"),
    "one leaf class skipped by the hard update": ("NextHardSkip", [], ["UpdateLaw"], "UpdateLaw"),
    "hard update aliases instead of copying": ("NextHardAlias", ["NoSharedStorage"], [], "NoSharedStorage"),
    "aliased target follows the online network": ("NextHardAlias", [], ["TargetUntouched"], "TargetUntouched"),
    "target created as an alias": ("NextCreateAlias", ["NoSharedStorage"], ["TargetUntouched"], ""),
    "soft update modifies the online network": ("NextTouchOnline", [], ["OnlineUntouched"], "OnlineUntouched"),
}


def _workers():
    return max(1, min(16, int(os.environ.get("VERIF_TLC_WORKERS", "16"))))


# --------------------------------------------------------------------- zoo
def _space():
    import gymnasium as gym

    return gym.spaces.Box(low=np.array([-1.0, -2.0], np.float32), high=np.array([3.0, 2.0], np.float32))


def zoo():
    """name -> factory(seed) of a small real module for every module type targets are made of."""
    from flax import nnx

    from rl_blox.blox.double_qnet import ContinuousClippedDoubleQNet
    from rl_blox.blox.embedding.model_based_encoder import (
        ModelBasedEncoder,
        create_model_based_encoder_and_policy,
    )
    from rl_blox.blox.embedding.sale import SALE, ActorSALE, CriticSALE, DeterministicSALEPolicy
    from rl_blox.blox.function_approximator.gaussian_mlp import GaussianMLP
    from rl_blox.blox.function_approximator.layer_norm_mlp import LayerNormMLP
    from rl_blox.blox.function_approximator.mlp import MLP
    from rl_blox.blox.function_approximator.policy_head import DeterministicTanhPolicy, GaussianTanhPolicy

    sp = _space()

    class _Stat(nnx.Variable):  # a user-defined variable kind
        pass

    class StatsNet(nnx.Module):
        """not an rl_blox module: every nnx variable kind in one net (Param, BatchStat, Cache, plain, custom)"""

        def __init__(self, rngs):
            self.lin = nnx.Linear(3, 4, rngs=rngs)
            self.bn = nnx.BatchNorm(4, rngs=rngs)
            self.plain = nnx.Variable(np.zeros((2, 2), np.float32))
            self.cache = nnx.Cache(np.zeros((3,), np.float32))
            self.stat = _Stat(np.zeros((2,), np.float32))

    def sale(r):
        return SALE(MLP(3, 4, [4], "elu", r), MLP(6, 4, [4], "elu", r))

    def actor(r):
        return ActorSALE(DeterministicTanhPolicy(MLP(8, 2, [4], "relu", r), sp), 3, 4, r)

    def critic(r):
        return CriticSALE(MLP(12, 1, [4], "elu", r), 3, 2, 4, r)

    R = nnx.Rngs
    return {
        "MLP": lambda s: MLP(3, 2, [4], "relu", R(s)),
        "LayerNormMLP": lambda s: LayerNormMLP(3, 2, [4], "relu", R(s)),
        "GaussianMLP": lambda s: GaussianMLP(False, 3, 2, [4], "relu", R(s)),
        "GaussianMLP(shared_head)": lambda s: GaussianMLP(True, 3, 2, [4], "relu", R(s)),
        "DeterministicTanhPolicy": lambda s: DeterministicTanhPolicy(MLP(3, 2, [4], "relu", R(s)), sp),
        "GaussianTanhPolicy": lambda s: GaussianTanhPolicy(GaussianMLP(False, 3, 2, [4], "relu", R(s)), sp),
        "ContinuousClippedDoubleQNet(MLP)": lambda s: (lambda r: ContinuousClippedDoubleQNet(MLP(5, 1, [4], "relu", r), MLP(5, 1, [4], "relu", r)))(R(s)),
        "ContinuousClippedDoubleQNet(LayerNormMLP)": lambda s: (lambda r: ContinuousClippedDoubleQNet(LayerNormMLP(4, 1, [4], "elu", r), LayerNormMLP(4, 1, [4], "elu", r)))(R(s)),
        "ContinuousClippedDoubleQNet(CriticSALE)": lambda s: (lambda r: ContinuousClippedDoubleQNet(critic(r), critic(r)))(R(s)),
        "SALE": lambda s: sale(R(s)),
        "ActorSALE": lambda s: actor(R(s)),
        "CriticSALE": lambda s: critic(R(s)),
        "DeterministicSALEPolicy": lambda s: (lambda r: DeterministicSALEPolicy(sale(r), actor(r)))(R(s)),
        "ModelBasedEncoder": lambda s: ModelBasedEncoder(3, 2, 5, 4, 3, 4, [4], "elu", False, R(s)),
        "DeterministicPolicyWithEncoder": lambda s: create_model_based_encoder_and_policy(3, 2, sp, [4], "relu", 5, 4, 3, 4, [4], "elu", False, R(s)),
        "StatsNet(all variable kinds)": lambda s: StatsNet(R(s)),
    }


# ------------------------------------------------- projection of real modules
def leaves(module):
    """[(path, Variable)] - the module's own Variable objects, every kind, in a fixed order."""
    from flax import nnx

    out = [(p, v) for p, v in nnx.iter_graph(module) if isinstance(v, nnx.Variable)]
    out.sort(key=lambda pv: tuple(str(x) for x in pv[0]))
    return out


def path_str(p):
    return ".".join(str(x) for x in p)


def kind_of(v):
    from flax import nnx

    return "Param" if isinstance(v, nnx.Param) else type(v).__name__


@functools.lru_cache(maxsize=None)
def class_map(layout, i, shape):
    """class (0..K-1) of every element of leaf number i."""
    size = int(np.prod(shape)) if len(shape) else 1
    if layout == "leaf":
        return np.full(shape, i % K, np.int64)
    if layout == "elem":
        return ((np.arange(size) + i) % K).reshape(shape)
    raise AssertionError(layout)


def lut_of(tree):
    qs = [exact.q(x) for x in tree]
    for x in qs:
        if not exact.is_exact32(x):
            raise tlc.MachineryError(f"model value {x} is not a float32: outside the exact lattice")
    return np.array([float(x) for x in qs], np.float32)


def resolve(module, paths):
    """[(path, Variable)] by following the recorded attribute paths (cheap re-read of `leaves`)."""
    out = []
    for p in paths:
        o = module
        for x in p:
            o = o[x] if isinstance(x, int) or isinstance(o, dict) else getattr(o, x)
        out.append((p, o))
    return out


def write_tree(module, tree, layout, lv=None):
    """In-place write (var.value = ...) of the model tree into every element of every Variable."""
    import jax

    lut = lut_of(tree)
    lv = lv if lv is not None else leaves(module)
    arrs = jax.device_put([lut[class_map(layout, i, tuple(np.shape(v.value)))] for i, (_, v) in enumerate(lv)])
    for (_, v), a in zip(lv, arrs):
        v.value = a


def snapshot(module, lv=None):
    """{path: np.ndarray copy} of every Variable (device D5: the full parameter digest)."""
    return {path_str(p): np.array(v.value) for p, v in (lv if lv is not None else leaves(module))}


def same_snapshot(a, b):
    return a.keys() == b.keys() and all(a[k].dtype == b[k].dtype and a[k].shape == b[k].shape and np.array_equal(a[k], b[k]) for k in a)


def class_values(module, layout):
    """[ [n,d] per class ] if all elements of a class agree, else a marker that equals no model state."""
    vals = [None] * K
    for i, (p, v) in enumerate(leaves(module)):
        a = np.asarray(v.value)
        cm = class_map(layout, i, tuple(a.shape))
        for c in range(K):
            for x in np.unique(a[cm == c]):
                fx = Fraction(float(x)) if np.isfinite(x) else None
                w = ["nonfinite", path_str(p)] if fx is None else [fx.numerator, fx.denominator]
                if vals[c] is None:
                    vals[c] = w
                elif vals[c] != w:
                    vals[c] = ["nonuniform", path_str(p)]
    if any(x is None for x in vals):
        raise tlc.MachineryError("module has fewer elements than leaf classes")
    return vals


def shared_variables(a, b, la=None, lb=None):
    """Variable objects (storage cells) reachable from both modules."""
    ida = {id(v): p for p, v in (la if la is not None else leaves(a))}
    return [(path_str(ida[id(v)]), path_str(p)) for p, v in (lb if lb is not None else leaves(b)) if id(v) in ida]


def shared_nodes(a, b):
    """sub-Modules (graph nodes holding attributes) reachable from both."""
    from flax import nnx

    ida = {id(n) for _, n in nnx.iter_graph(a) if isinstance(n, nnx.Module)}
    return [path_str(p) for p, n in nnx.iter_graph(b) if isinstance(n, nnx.Module) and id(n) in ida]


def shared_mutable_buffers(a, b, la=None, lb=None):
    """leaf values that are the same object in both and are not immutable jax arrays"""
    import jax

    ida = {id(v.value): p for p, v in (la if la is not None else leaves(a))}
    return [path_str(p) for p, v in (lb if lb is not None else leaves(b)) if id(v.value) in ida and not isinstance(v.value, jax.Array)]


def which_leaves(bad_kinds, all_kinds):
    """stable wording for the set of deviating leaves: all, only the non-Param, only the Param leaves"""
    if not (set(all_kinds) - set(bad_kinds)) or len(set(all_kinds)) == 1:
        return "leaves"
    if "Param" not in bad_kinds:
        return "non-Param leaves"
    if set(bad_kinds) == {"Param"}:
        return "Param leaves"
    return "leaves"


def compare_tree(module, tree, layout, fn, role, lv=None):
    """Every element of every leaf equals the model value of its class - exactly."""
    lut = lut_of(tree)
    lv = lv if lv is not None else leaves(module)
    bad = []
    for i, (p, v) in enumerate(lv):
        a = np.asarray(v.value)
        want = lut[class_map(layout, i, tuple(a.shape))]
        if a.dtype != np.float32:
            raise Mismatch(f"{fn}: {role} leaf changes dtype | {kind_of(v)} {path_str(p)}: {a.dtype}, was float32")
        if not np.array_equal(a, want):
            j = int(np.flatnonzero(a.reshape(-1) != want.reshape(-1))[0])
            bad.append((kind_of(v), f"{path_str(p)}[{j}] = {float(a.reshape(-1)[j])!r}, model {float(want.reshape(-1)[j])!r}"))
    if bad:
        kinds = sorted({k for k, _ in bad})
        raise Mismatch(
            f"{fn}: {role} {which_leaves(kinds, [kind_of(v) for _, v in lv])} differ from the model | kinds {kinds}, {len(bad)} of {len(lv)} leaves, first: {bad[0][1]}",
            leaves=[b[1] for b in bad[:6]],
        )


# ------------------------------------------------------------- the real pair
def _pair_cls():
    from flax import nnx

    global _PAIR
    try:
        return _PAIR
    except NameError:
        pass

    class Pair(nnx.Module):  # one graph, so that nnx.clone preserves any sharing between the two
        def __init__(self, online, target):
            self.online = online
            self.target = target

    _PAIR = Pair
    return Pair


class NetPair:
    """(online, target) of one real module type under one layout."""

    def __init__(self, kind, layout, online, target=None, supply=None, create=None, lv_on=None, lv_tg=None):
        self.kind, self.layout = kind, layout
        self.online, self.target = online, target
        self.supply = supply  # () -> separately constructed module of the same type
        self.create = create  # online -> target   (default: nnx.clone, what the routines do)
        self.lv_on = lv_on if lv_on is not None else leaves(online)
        self.lv_tg = lv_tg if lv_tg is not None else (leaves(target) if target is not None else None)


def clone_pair(ad: NetPair):
    from flax import nnx

    p = nnx.clone(_pair_cls()(ad.online, ad.target))  # same structure: the leaves sit at the same paths
    lv_on = resolve(p.online, [q for q, _ in ad.lv_on])
    lv_tg = resolve(p.target, [q for q, _ in ad.lv_tg]) if ad.target is not None else None
    return NetPair(ad.kind, ad.layout, p.online, p.target, ad.supply, ad.create, lv_on, lv_tg)


FN = {"Soft": "soft_target_net_update", "Hard": "hard_target_net_update", "Create": "create_target", "Supply": "supply_target", "Online": "online_step"}


def pair_step(ad: NetPair, op, args, exp=None, pre=None, post=None):
    """Apply one operation of the model to the real pair and compare with the model's post-state."""
    from flax import nnx

    from rl_blox.blox.target_net import hard_target_net_update, soft_target_net_update

    if op == "Supply":
        ad.target = ad.supply()
        write_tree(ad.target, args["t"], ad.layout)
    elif op == "Create":
        ad.target = (ad.create or nnx.clone)(ad.online)
    elif op == "Online":
        write_tree(ad.online, args["on"], ad.layout, ad.lv_on)
    elif op == "Soft":
        soft_target_net_update(ad.online, ad.target, float(exact.q(args["tau"])))
    elif op == "Hard":
        hard_target_net_update(ad.online, ad.target)
    else:  # pragma: no cover
        raise AssertionError(op)
    # re-read the leaves: a full graph walk when the target is new, else along the known paths
    lv_on = resolve(ad.online, [p for p, _ in ad.lv_on])
    lv_tg = leaves(ad.target) if op in ("Supply", "Create") else resolve(ad.target, [p for p, _ in ad.lv_tg])
    old_on, old_tg = ad.lv_on, ad.lv_tg
    ad.lv_on, ad.lv_tg = lv_on, lv_tg
    if post is not None:
        check_post(ad, op, post, old_on, old_tg)


def check_post(ad: NetPair, op, post, old_on, old_tg):
    """The real pair after `op` against the model's post-state: storage relation and every leaf."""
    fn = FN[op]
    lv_on, lv_tg = ad.lv_on, ad.lv_tg
    # the networks keep their storage cells: updates are in place
    if [id(v) for _, v in lv_on] != [id(v) for _, v in old_on]:
        raise Mismatch(f"{fn}: online network's Variables are replaced | {ad.kind}")
    if old_tg is not None and op in ("Soft", "Hard", "Online") and [id(v) for _, v in lv_tg] != [id(v) for _, v in old_tg]:
        raise Mismatch(f"{fn}: target network's Variables are replaced (not an in-place update) | {ad.kind}")
    sh = shared_variables(None, None, lv_on, lv_tg) + shared_mutable_buffers(None, None, lv_on, lv_tg)
    if len(sh) != post["shared"]:
        raise Mismatch(f"{fn}: target shares storage with the online network | {ad.kind}: {sh[:3]}")
    compare_tree(ad.online, post["on"], ad.layout, fn, "online", lv_on)
    compare_tree(ad.target, post["tg"], ad.layout, fn, "target", lv_tg)


def pair_project(ad: NetPair):
    return {
        "on": class_values(ad.online, ad.layout),
        "tg": class_values(ad.target, ad.layout) if ad.target is not None else [],
        "shared": len(shared_variables(ad.online, ad.target)) if ad.target is not None else 0,
    }


def make_pair(kind, layout, factory, root_state, seed, create=None):
    on = factory(seed)
    if len(leaves(on)) < K:
        raise tlc.MachineryError(f"{kind}: fewer than {K} leaves")
    write_tree(on, root_state["on"], layout)
    return NetPair(kind, layout, on, None, supply=lambda: factory(seed + 1), create=create)


def vkey(what):
    return what.split(" | ")[0]


def cover_multi(G, make_root, step=pair_step, clone=clone_pair, project=pair_project):
    """graph.cover for a graph with several initial states: every edge of G is tested exactly once
    on a real object that reached the edge's pre-state along a real path from an initial state."""
    violations, tested = [], 0
    queue = deque()
    visited = set()
    for root in G.roots():
        obj = make_root(G.state[root])
        if graph.canon(project(obj)) != root:
            raise tlc.MachineryError("initial projection differs from the model's initial state")
        visited.add(root)
        queue.append((root, obj, [], G.state[root]))
    while queue:
        k, obj, path, root_state = queue.popleft()
        es = G.out.get(k, ())
        for n, (op, args, exp, k2) in enumerate(es):
            tested += 1
            o2 = clone(obj) if n + 1 < len(es) else obj  # the last edge may consume the object
            p = path + [{"op": op, "args": args, "post": G.state[k2]}]
            try:
                step(o2, op, args, exp, G.state[k], G.state[k2])
            except Mismatch as m:
                violations.append({"what": m.what, "detail": m.detail, "path": p, "root": root_state})
                continue
            except Exception as ex:  # noqa: BLE001 - the code under test raised where the model defines a result
                tb = traceback.extract_tb(ex.__traceback__)
                where = f"{tb[-1].filename.split('/')[-1]}:{tb[-1].name}" if tb else "?"
                violations.append({"what": f"{FN.get(op, op)}: raises {type(ex).__name__} | in {where}: {str(ex)[:160]}", "detail": {}, "path": p, "root": root_state})
                continue
            if k2 not in visited:
                visited.add(k2)
                queue.append((k2, o2, p, root_state))
    if not violations and len(visited) != len(G.state):
        raise tlc.MachineryError(f"replay reached {len(visited)} of {len(G.state)} model states")
    return {"edges_tested": tested, "violations": violations}


# -------------------------------------------------------- toleranced compare
def polyak_bound(tau, on, tg):
    """Forward error bound of float32(tau)*on + float32(1-tau)*tg evaluated in float32.

    a = fl(fl(tau)*on), b = fl(fl(1-tau)*tg), s = fl(a+b) (or one fused
    multiply-add): two roundings on each product (constant conversion +
    product), one on the sum, each relative error <= u = 2^-24:
    |s - exact| <= (2u+u^2)(1+u)(|tau*on| + |(1-tau)*tg|) + u|exact|; 2^-10 covers the
    higher-order terms, 2^-148 three subnormal roundings.  Returns (exact, bound).
    """
    A, B = tau * on, (1 - tau) * tg
    ex = A + B
    slack = 1 + Fraction(1, 1024)
    return ex, U * slack * (2 * (abs(A) + abs(B)) + abs(ex)) + Fraction(1, 2**148)


def check_soft_tol(kind, layout, online, target, pre_on, pre_tg, tau_q, want_tree=None):
    """After a real soft update: every target element within the bound of the exact value.

    pre_on/pre_tg: snapshots before the call.  want_tree: TLC's exact values per class
    (then the expected value is TLC's, and the snapshot operands are the lattice values)."""
    fn = FN["Soft"]
    n = 0
    bad = []
    lv = leaves(target)
    cache = {}
    for i, (p, v) in enumerate(lv):
        a = np.asarray(v.value)
        ps = path_str(p)
        o, t = pre_on[ps].reshape(-1), pre_tg[ps].reshape(-1)
        if a.dtype != np.float32 or a.shape != pre_tg[ps].shape:
            raise Mismatch(f"{fn}: target leaf changes dtype/shape | {kind} {kind_of(v)} {ps}")
        cm = class_map(layout, i, tuple(a.shape)).reshape(-1)
        for j, x in enumerate(a.reshape(-1)):
            key = (float(o[j]), float(t[j]))
            if key not in cache:
                cache[key] = polyak_bound(tau_q, Fraction(key[0]), Fraction(key[1]))
            ex, bound = cache[key]
            if want_tree is not None and exact.q(want_tree[cm[j]]) != ex:
                raise tlc.MachineryError(f"TLC's value {want_tree[cm[j]]} differs from the harness' operands ({ex})")
            n += 1
            if not np.isfinite(x) or abs(Fraction(float(x)) - ex) > bound:
                bad.append((kind_of(v), f"{ps}[{j}] = {float(x)!r}, exact {float(ex)!r}, bound {float(bound):.3e}"))
                break
    if bad:
        kinds = sorted({k for k, _ in bad})
        raise Mismatch(
            f"{fn}: target {which_leaves(kinds, [kind_of(v) for _, v in lv])} outside the rounding bound of tau*online+(1-tau)*target | {kind}, tau {float(tau_q)}, kinds {kinds}, first: {bad[0][1]}",
            leaves=[b[1] for b in bad[:6]],
            tau=str(tau_q),
        )
    if not same_snapshot(snapshot(online), pre_on):
        raise Mismatch(f"{fn}: online network changed | {kind}")
    return n


def relation(prev_target, online, new_target, tau):
    """For the cadence clause (used by the coordinator): how does new_target (snapshot) relate to
    prev_target / online (snapshots)?  -> "same" | "copy" | "polyak" | "other" (first that holds
    among same, copy, polyak; polyak judged by polyak_bound per element)."""
    if same_snapshot(prev_target, new_target):
        return "same"
    if same_snapshot(online, new_target):
        return "copy"
    if tau is None or prev_target.keys() != new_target.keys() or online.keys() != new_target.keys():
        return "other"
    tq = Fraction(tau)
    for k in new_target:
        o, t, x = online[k].reshape(-1), prev_target[k].reshape(-1), new_target[k].reshape(-1)
        if not (o.shape == t.shape == x.shape):
            return "other"
        for j in range(x.size):
            ex, b = polyak_bound(tq, Fraction(float(o[j])), Fraction(float(t[j])))
            if not np.isfinite(x[j]) or abs(Fraction(float(x[j])) - ex) > b:
                return "other"
    return "polyak"


# ------------------------------------------------------------------ TLC jobs
def _consts(shifts, maxops, hist, emit, taus="TausDyadic"):
    return dict(K=K, Vals=tlc.Subst("ValsDyadic"), Taus=tlc.Subst(taus), Shifts=set(shifts), MaxOps=maxops, TrackHist=hist, EMIT=emit)


P_LAWS = "laws on the state graph (6 trees)"
P_HIST = "histories: closed form, frame conditions"
P_TYP = "non-dyadic tau (1/200, 3/10)"


def _jobs(quick):
    W = _workers()
    six = range(6)
    jobs = {}

    def job(name, consts, workers=W, coverage=False, **kw):
        cfg = tlc.cfg_text(constants=consts, **kw)
        jobs[name] = lambda: tlc.run("TargetNet", cfg, workers=workers, coverage=coverage, timeout=2400, tag="tn" + "".join(c for c in name if c.isalnum())[:10])

    job(P_HIST, _consts([0, 3], 4 if quick else 6, True, False), invariants=HIST_INVS, properties=PROPS)
    job(P_LAWS, _consts(six, 3 if quick else 5, False, False), invariants=STATE_INVS)
    job(P_TYP, _consts([0, 2, 5], 1, True, False, "TausTypical"), invariants=HIST_INVS, properties=PROPS, coverage=True)
    for name, (nxt, invs, props, _) in CANARIES.items():
        job("canary: " + name, _consts([0, 3], 2, True, False), workers=1, next=nxt, invariants=invs, properties=props)
    job("gen sequences", _consts([0, 3], 4, False, True) if quick else _consts([0, 2, 5], 4, False, True), workers=1)
    job("gen lattice", _consts(six, 1 if quick else 2, False, True), workers=1)
    job("gen typical", _consts(six, 1, False, True, "TausTypical"), workers=1)
    if not quick:
        job("gen deep", _consts([0, 3], 6, False, True), workers=1)
    return jobs


class TlcJobs:
    """all TLC runs of this module, started in the background (generation first); results on demand"""

    def __init__(self, quick):
        jobs = _jobs(quick)
        order = sorted(jobs, key=lambda n: (not n.startswith("gen "), n.startswith("canary")))
        self.pool = cf.ThreadPoolExecutor(max_workers=3)
        self.futs = {n: self.pool.submit(jobs[n]) for n in order}

    def __getitem__(self, name):
        return self.futs[name].result()  # MachineryError propagates

    def names(self):
        return list(self.futs)

    def close(self):
        self.pool.shutdown(wait=True, cancel_futures=True)


# ------------------------------------------------------------- law: replay
def law_key(what, op=None):
    k = vkey(what)
    return k if ": " in k else f"{FN.get(op, '?')}: {k[:80]}"


def cover_graph(rep, G, gname, kind, layout, factory, seed):
    """transition coverage along real paths (clones of the real pair at every branching)"""
    res = cover_multi(G, lambda root_state: make_pair(kind, layout, factory, root_state, seed))
    for v in res["violations"]:
        rep.violation(
            law_key(v["what"], v["path"][-1]["op"]),
            f"{kind} (layout {layout}, graph {gname}, after {[s['op'] for s in v['path']]}): {v['what']}",
            {"part": "law", "kind": kind, "layout": layout, "root": v["root"], "path": v["path"], "detail": v["detail"]},
        )
    return res["edges_tested"]


def replay_lattice(rep, emits, kind, layout, factory, seed):
    """the depth-1 value lattice: Supply IS 'construct a second module and write the tree', so the
    pre-state of every edge is written into one persistent real pair (no clones)"""
    on = make_pair(kind, layout, factory, emits[0]["pre"], seed)
    tg = on.supply()
    lv_tg = leaves(tg)
    n = 0
    for e in emits:
        op = e["op"]
        if op in ("Online", "Supply"):
            continue  # Supply is exercised by preparing every Soft/Hard edge
        write_tree(on.online, e["pre"]["on"], layout, on.lv_on)
        if op == "Create":
            ad = NetPair(kind, layout, on.online, None, on.supply, lv_on=on.lv_on)
        else:
            write_tree(tg, e["pre"]["tg"], layout, lv_tg)
            ad = NetPair(kind, layout, on.online, tg, on.supply, lv_on=on.lv_on, lv_tg=lv_tg)
        n += 1
        try:
            try:
                pair_step(ad, op, e["args"], None, e["pre"], e["post"])
            except Mismatch:
                raise
            except tlc.MachineryError:
                raise
            except Exception as ex:  # noqa: BLE001
                raise Mismatch(f"{FN[op]}: raises {type(ex).__name__} | {kind}: {str(ex)[:160]}")
        except Mismatch as m:
            step0 = {"op": "Supply", "args": {"t": e["pre"]["tg"]}, "post": e["pre"]} if op != "Create" else None
            path = ([step0] if step0 else []) + [{"op": op, "args": e["args"], "post": e["post"]}]
            rep.violation(law_key(m.what, op), f"{kind} (layout {layout}, value lattice, {op} {e['args']}): {m.what}", {"part": "law", "kind": kind, "layout": layout, "root": {"on": e["pre"]["on"], "tg": [], "shared": 0}, "path": path, "detail": m.detail})
            # the pair may be damaged (aliased, replaced leaves): continue with a fresh one
            on = make_pair(kind, layout, factory, emits[0]["pre"], seed)
            tg = on.supply()
            lv_tg = leaves(tg)
    return n


def replay_typical(rep, edges, kind, layout, factory, seed):
    """non-dyadic tau: set the pre-state (lattice values), one real soft update, TLC's exact rational within the bound"""
    from rl_blox.blox.target_net import soft_target_net_update

    on, tg = factory(seed), factory(seed + 1)
    n = 0
    for e in edges:
        try:
            write_tree(on, e["pre"]["on"], layout)
            write_tree(tg, e["pre"]["tg"], layout)
            pre_on, pre_tg = snapshot(on), snapshot(tg)
            tau_q = exact.q(e["args"]["tau"])
            try:
                soft_target_net_update(on, tg, float(tau_q))
            except Exception as ex:  # noqa: BLE001 - the code under test raised where the model defines a result
                raise Mismatch(f"{FN['Soft']}: raises {type(ex).__name__} | {kind}: {str(ex)[:160]}")
            check_soft_tol(kind, layout, on, tg, pre_on, pre_tg, tau_q, want_tree=e["post"]["tg"])
            n += 1
        except Mismatch as m:
            rep.violation(law_key(m.what, "Soft"), f"{kind} (layout {layout}, non-dyadic tau): {m.what}", {"part": "law-typical", "kind": kind, "layout": layout, "edge": e})
    return n


def replay_float(rep, kind, factory, seed, taus, steps):
    """float supplement: generic float32 parameters (all 24 mantissa bits in play), successive soft
    updates, each judged against the exact rational value from its own real pre-state"""
    import jax.numpy as jnp

    from rl_blox.blox.target_net import hard_target_net_update, soft_target_net_update

    rng = np.random.default_rng([seed, sum(map(ord, kind))])
    n = 0
    for tau in taus:
        on, tg = factory(seed), factory(seed + 1)
        for m in (on, tg):
            for _, v in leaves(m):
                sh = np.shape(v.value)
                v.value = jnp.asarray((rng.standard_normal(sh) * np.exp2(rng.integers(-6, 4, sh))).astype(np.float32))
        try:
            try:
                for _ in range(steps):
                    pre_on, pre_tg = snapshot(on), snapshot(tg)
                    soft_target_net_update(on, tg, tau)
                    n += check_soft_tol(kind, "leaf", on, tg, pre_on, pre_tg, Fraction(tau))
                pre_on = snapshot(on)
                hard_target_net_update(on, tg)
            except Mismatch:
                raise
            except Exception as ex:  # noqa: BLE001
                raise Mismatch(f"target_net update: raises {type(ex).__name__} | {kind}: {str(ex)[:160]}")
            if not same_snapshot(snapshot(tg), pre_on):
                raise Mismatch(f"{FN['Hard']}: target differs from the online network (float parameters) | {kind}")
            if not same_snapshot(snapshot(on), pre_on):
                raise Mismatch(f"{FN['Hard']}: online network changed | {kind}")
        except Mismatch as mm:
            rep.violation(law_key(mm.what), f"{kind} (float parameters, tau={tau}): {mm.what}", {"part": "law-float", "kind": kind, "tau": tau, "seed": seed})
    return n


# ------------------------------------------------------------------ storage
def _tiny_envs():
    import gymnasium as gym

    return gym.make("CartPole-v1"), gym.make("Pendulum-v1")


LEARN_STEPS = 40


def routines(learn):
    """name -> go(prepare) -> [(role, online, target, optimizer, trained)] after calling the real
    train_* routine with target=None (`trained(online)` is the sub-module the optimizer updates).
    learn=False: the run ends before learning starts - the routine only creates its targets and
    collects a few transitions; learn=True: gradient steps happen but no target update point is
    reached / tau = 0, so every target must still hold the initial parameters of its online network."""
    import optax
    from flax import nnx

    from rl_blox.algorithm.ddpg import create_ddpg_state, train_ddpg
    from rl_blox.algorithm.ddqn import train_ddqn
    from rl_blox.algorithm.mrq import create_mrq_state, train_mrq
    from rl_blox.algorithm.nature_dqn import train_nature_dqn
    from rl_blox.algorithm.per import train_ddqn_per
    from rl_blox.algorithm.sac import create_sac_state, train_sac
    from rl_blox.algorithm.td3 import create_td3_state, train_td3
    from rl_blox.algorithm.td3_lap import train_td3_lap
    from rl_blox.algorithm.td7 import create_td7_state, train_td7
    from rl_blox.blox.function_approximator.mlp import MLP
    from rl_blox.blox.replay_buffer import PrioritizedReplayBuffer, ReplayBuffer

    steps = LEARN_STEPS if learn else 6
    ls = 8 if learn else 10**6
    NEVER = 10**6
    ident = lambda m: m  # noqa: E731

    def dqn(train, buf):
        def go(prepare):
            cart, _ = _tiny_envs()
            q = MLP(4, 2, [4], "relu", nnx.Rngs(0))
            opt = nnx.Optimizer(q, optax.adam(1e-2), wrt=nnx.Param)
            prepare([("q_net", q)])
            r = train(q, cart, buf(64, discrete_actions=True), opt, batch_size=4 if learn else 64, total_timesteps=steps, update_frequency=1, target_update_frequency=NEVER, seed=1, progress_bar=False)
            return [("q_net -> q_target_net", q, r.q_target_net, opt, ident)]

        return go

    def pg(create, train, has_policy_target=True, **kw):
        def go(prepare):
            _, pend = _tiny_envs()
            st = create(pend, policy_hidden_nodes=[4], q_hidden_nodes=[4], seed=0)
            prepare([("policy", st.policy), ("q", st.q)])
            r = train(pend, st.policy, st.policy_optimizer, st.q, st.q_optimizer, seed=1, total_timesteps=steps, buffer_size=64, tau=0.0, batch_size=4, learning_starts=ls, progress_bar=False, **kw)
            out = [("q -> q_target", st.q, r.q_target, st.q_optimizer, ident)]
            if has_policy_target:
                out.append(("policy -> policy_target", st.policy, r.policy_target, st.policy_optimizer, ident))
            return out

        return go

    def td7(use_checkpoints):
        def go(prepare):
            _, pend = _tiny_envs()
            st = create_td7_state(pend, n_embedding_dimensions=4, state_embedding_hidden_nodes=[4], state_action_embedding_hidden_nodes=[4], policy_sa_encoding_nodes=4, policy_hidden_nodes=[4], q_sa_encoding_nodes=4, q_hidden_nodes=[4], seed=0)
            prepare([("embedding", st.embedding), ("actor", st.actor), ("critic", st.critic)])
            r = train_td7(pend, st.embedding, st.embedding_optimizer, st.actor, st.actor_optimizer, st.critic, st.critic_optimizer, seed=1, total_timesteps=steps, buffer_size=64, target_delay=NEVER, policy_delay=1, use_checkpoints=use_checkpoints, batch_size=4, learning_starts=ls, progress_bar=False)
            tag = "fixed_embedding_checkpoint" if use_checkpoints else "fixed_embedding"
            out = [
                (f"embedding -> {tag}", st.embedding, r.fixed_embedding, st.embedding_optimizer, ident),
                ("embedding -> fixed_embedding_target", st.embedding, r.fixed_embedding_target, st.embedding_optimizer, ident),
                ("actor -> actor_target", st.actor, r.actor_target, st.actor_optimizer, ident),
                ("critic -> critic_target", st.critic, r.critic_target, st.critic_optimizer, ident),
                (f"{tag} -> fixed_embedding_target", r.fixed_embedding, r.fixed_embedding_target, None, ident),
            ]
            if use_checkpoints:
                out.append(("actor -> actor_checkpoint", st.actor, r.actor, st.actor_optimizer, ident))
                out.append(("actor_checkpoint -> actor_target", r.actor, r.actor_target, None, ident))
            return out

        return go

    def mrq(prepare):
        _, pend = _tiny_envs()
        st = create_mrq_state(pend, policy_hidden_nodes=[4], q_hidden_nodes=[4], encoder_n_bins=5, encoder_zs_dim=4, encoder_za_dim=3, encoder_zsa_dim=4, encoder_hidden_nodes=[4], seed=0)
        prepare([("policy_with_encoder", st.policy_with_encoder), ("q", st.q)])
        r = train_mrq(pend, st.policy_with_encoder, st.encoder_optimizer, st.policy_optimizer, st.q, st.q_optimizer, st.the_bins, seed=1, total_timesteps=steps, buffer_size=64, target_delay=NEVER, batch_size=4, learning_starts=ls, progress_bar=False)
        return [
            ("policy_with_encoder -> policy_with_encoder_target (encoder step)", st.policy_with_encoder, r.policy_with_encoder_target, st.encoder_optimizer, lambda m: m.encoder),
            ("policy_with_encoder -> policy_with_encoder_target (policy step)", st.policy_with_encoder, r.policy_with_encoder_target, st.policy_optimizer, lambda m: m.policy),
            ("q -> q_target", st.q, r.q_target, st.q_optimizer, ident),
        ]

    return {
        "train_nature_dqn": dqn(train_nature_dqn, ReplayBuffer),
        "train_ddqn": dqn(train_ddqn, ReplayBuffer),
        "train_ddqn_per": dqn(train_ddqn_per, PrioritizedReplayBuffer),
        "train_ddpg": pg(create_ddpg_state, train_ddpg),
        "train_td3": pg(create_td3_state, train_td3, policy_delay=1),
        "train_td3_lap": pg(create_td3_state, train_td3_lap, policy_delay=1),
        "train_sac": pg(create_sac_state, train_sac, has_policy_target=False, policy_delay=1, target_network_delay=1),
        "train_td7(use_checkpoints=False)": td7(False),
        "train_td7(use_checkpoints=True)": td7(True),
        "train_mrq": mrq,
    }


def storage_paths(G, n_paths):
    """TLC behaviours Create -> Online -> (Hard | Soft 1/2 | Soft 1/4) -> Online from the generated
    graph, with the model state after every step."""
    out = []
    for root in G.roots():
        for op, a, _, k1 in G.out[root]:
            if op != "Create":
                continue
            for op2, a2, _, k2 in G.out.get(k1, ()):
                if op2 != "Online":
                    continue
                for op3, a3, _, k3 in G.out.get(k2, ()):
                    if op3 == "Online" or (op3 == "Soft" and a3["tau"] not in ([1, 2], [1, 4])):
                        continue
                    for op4, a4, _, k4 in G.out.get(k3, ()):
                        if op4 == "Online":
                            out.append((G.state[root], [(op, a, G.state[k1]), (op2, a2, G.state[k2]), (op3, a3, G.state[k3]), (op4, a4, G.state[k4])]))
    out.sort(key=lambda p: graph.canon([p[0], [(s[0], s[1]) for s in p[1]]]))
    hard = [p for p in out if p[1][2][0] == "Hard"]
    soft = [p for p in out if p[1][2][0] == "Soft"]
    sel = []
    for i in range(n_paths):  # alternate hard / soft third steps, spread over the roots
        src = hard if i % 2 == 0 else soft
        if src:
            sel.append(src[(i // 2 * 7 + len(src) // 3) % len(src)])
    return sel


def check_created_pair(rep, rname, role, online, target, optimizer, trained, layout, root, path, init_on):
    """The routine performed the model's Create step; check its post-state on the returned modules,
    then replay the rest of TLC's path on a joint clone (nnx.clone of both as ONE graph keeps any
    sharing, and leaves the routine's modules untouched for the other pairs)."""
    import jax
    from flax import nnx

    def bad(what, detail=None):
        rep.violation(
            f"storage:{rname.split('(')[0]}:{what}",
            f"{rname}, {role}: {what}" + (f" ({detail})" if detail else ""),
            {"part": "storage", "routine": rname, "role": role, "layout": layout},
        )
        return 0

    if target is online:
        return bad("the target IS the online module")
    sv = shared_variables(online, target)
    if sv:
        return bad("target shares nnx.Variable objects with the online network", sv[:3])
    sn = shared_nodes(online, target)
    if sn:
        return bad("target shares sub-modules with the online network", sn[:3])
    sb = shared_mutable_buffers(online, target)
    if sb:
        return bad("target shares mutable (numpy) buffers with the online network", sb[:3])
    steps = 0
    created = False
    try:
        post = path[0][2]
        if init_on is not None and not same_snapshot(snapshot(online), init_on):
            return bad("online network changed although no learning step was due")
        if init_on is not None:
            compare_tree(online, post["on"], layout, "create_target", "online")
        compare_tree(target, post["tg"], layout, "create_target", "target")
        steps += 1
        created = True  # from here on a deviation is one of the update functions, not of the routine
        p = nnx.clone(_pair_cls()(online, target))
        ad = NetPair(rname, layout, p.online, p.target)
        if optimizer is not None:
            # a real online update: optimizer.update with unit gradients
            before_tg, before_on = snapshot(ad.target), snapshot(ad.online)
            sub = trained(ad.online)
            grads = jax.tree.map(lambda x: jax.numpy.ones_like(x), nnx.state(sub, optimizer.wrt))
            optimizer.update(sub, grads)
            if same_snapshot(snapshot(ad.online), before_on):
                raise tlc.MachineryError(f"{rname}: optimizer.update did not change the online network (vacuous)")
            if not same_snapshot(snapshot(ad.target), before_tg):
                return bad("an optimizer step on the online network changes the target")
            steps += 1
        for op, args, post in path[1:]:
            pair_step(ad, op, args, None, None, post)
            steps += 1
    except Mismatch as m:
        if created:
            rep.violation(law_key(m.what), f"{rname}, {role} (target created by the routine, layout {layout}): {m.what}", {"part": "storage", "routine": rname, "role": role, "layout": layout})
            return steps
        return bad(vkey(m.what).split(": ", 1)[-1], m.what)
    except tlc.MachineryError:
        raise
    except Exception as ex:  # noqa: BLE001
        return bad(f"raises {type(ex).__name__}", str(ex)[:200])
    return steps


def run_storage(rep, G, quick):
    """Every routine that creates targets: target=None, model tree written into the online
    networks before the call; replay TLC's Create-paths on what comes back."""
    n = 0
    paths = storage_paths(G, 2 if quick else 6)
    if len(paths) < 2:
        raise tlc.MachineryError("no Create -> Online -> update -> Online path in the generated graph")
    for ri, (rname, go) in enumerate(routines(learn=False).items()):
        for pi, (root, path) in enumerate(paths):
            if quick and pi != ri % len(paths):
                continue  # quick: one path per routine (hard / soft third step and the layouts alternate)
            layout = LAYOUTS[(ri // 2 + pi) % 2]
            inits = {}

            def prepare(mods, layout=layout, root=root, inits=inits):
                for _, m in mods:
                    write_tree(m, root["on"], layout)
                    inits[id(m)] = snapshot(m)

            try:
                pairs = go(prepare)
            except Exception as ex:  # noqa: BLE001
                tb = traceback.extract_tb(ex.__traceback__)
                rep.violation(f"storage:{rname.split('(')[0]}:raises {type(ex).__name__}", f"{rname} with target=None raises {type(ex).__name__} in {tb[-1].name}: {str(ex)[:200]}", {"part": "storage", "routine": rname})
                break
            for role, online, target, opt, trained in pairs:
                n += check_created_pair(rep, rname, role, online, target, opt, trained, layout, root, path, inits.get(id(online)))
    return n, len(paths)


def run_storage_learning(rep):
    """thorough: real gradient steps, no update point / tau = 0: at return every target still holds
    the initial online parameters bit for bit while the online network has moved."""
    n = 0
    notes = []
    for rname, go in routines(learn=True).items():
        if "use_checkpoints=True" in rname:
            continue  # with checkpoints TD7 trains only at episode ends (200 steps on Pendulum): nothing would move
        inits = {}

        def prepare(mods, inits=inits):
            for _, m in mods:
                inits[id(m)] = snapshot(m)

        try:
            pairs = go(prepare)
        except Exception as ex:  # noqa: BLE001 - failures of the learning step itself belong to other properties
            notes.append(f"{rname}: learning run aborted by {type(ex).__name__}: {str(ex)[:100]} (not judged here)")
            continue
        for role, online, target, _, _ in pairs:
            init = inits.get(id(online))
            if init is None:
                continue
            if not same_snapshot(snapshot(target), init):
                also = " and equals the trained online network" if same_snapshot(snapshot(target), snapshot(online)) else ""
                rep.violation(
                    f"storage:{rname.split('(')[0]}:target moved during training without an update point",
                    f"{rname}, {role}: target differs from the initial online parameters although tau=0 / no update point was reached{also}",
                    {"part": "storage-learning", "routine": rname, "role": role},
                )
            elif same_snapshot(snapshot(online), init):
                notes.append(f"{rname}, {role}: online network did not move in {LEARN_STEPS} steps (vacuous)")
            else:
                n += 1
    return n, notes


# ----------------------------------------------------------------- canaries
def binding_canaries(G, typ, factory, seed):
    """(b) a corrupted expected value / recorded field must be noticed by the comparison.  The code
    under test is not involved: the real pair is put into TLC's post-state by writing it."""
    import jax

    soft = None
    for k, es in G.out.items():
        for op, a, _, k2 in es:
            if op == "Soft" and a["tau"] == [1, 4] and G.state[k]["tg"] and G.state[k]["on"] != G.state[k]["tg"]:
                soft = G.state[k2]
                break
        if soft:
            break
    if soft is None:
        raise tlc.MachineryError("binding canary: no Soft(1/4) edge")
    post = soft
    ad = make_pair("MLP", "elem", factory, post, seed)
    ad.target = ad.supply()
    write_tree(ad.target, post["tg"], "elem")
    ad.lv_tg = leaves(ad.target)
    check_post(ad, "Soft", post, ad.lv_on, ad.lv_tg)  # the uncorrupted record passes
    bad = dict(post, tg=[list(x) for x in post["tg"]])
    bad["tg"][K - 1] = [bad["tg"][K - 1][0] + bad["tg"][K - 1][1], bad["tg"][K - 1][1]]  # + 1 in the last class
    for corrupt in (bad, dict(post, shared=1), dict(post, on=post["tg"])):
        try:
            check_post(ad, "Soft", corrupt, ad.lv_on, ad.lv_tg)
        except Mismatch:
            continue
        raise tlc.MachineryError("binding canary: corrupted expected state not noticed")
    # toleranced comparison: the correctly rounded exact value passes, 4 ulp beside it is rejected
    e = next(x for x in typ if x["pre"]["on"] != x["pre"]["tg"])
    on, tg = factory(seed), factory(seed + 1)
    write_tree(on, e["pre"]["on"], "leaf")
    write_tree(tg, e["pre"]["tg"], "leaf")
    pre_on, pre_tg = snapshot(on), snapshot(tg)
    tau_q = exact.q(e["args"]["tau"])
    lut = np.array([float(exact.q(x)) for x in e["post"]["tg"]], np.float32)  # nearest float32 of TLC's value
    lv = leaves(tg)
    for off in (0, 4):
        for i, (_, v) in enumerate(lv):
            a0 = lut[class_map("leaf", i, tuple(np.shape(v.value)))]
            v.value = jax.device_put((a0 + off * np.spacing(a0)).astype(np.float32))
        try:
            check_soft_tol("MLP", "leaf", on, tg, pre_on, pre_tg, tau_q, e["post"]["tg"])
            passed = True
        except Mismatch:
            passed = False
        if passed != (off == 0):
            raise tlc.MachineryError(f"binding canary: toleranced comparison {'rejects the correctly rounded value' if off == 0 else 'accepts a 4-ulp deviation'}")


# --------------------------------------------------------------------- main
QUICK_SKIP = ("GaussianMLP(shared_head)", "GaussianTanhPolicy")  # never targets in rl_blox; thorough only
BASE_TYPES = ("MLP", "LayerNormMLP", "DeterministicTanhPolicy", "StatsNet(all variable kinds)")


def run_law(rep):
    quick = rep.tier == "quick"
    t0 = time.time()
    tlc.sany("TargetNet")
    jobs = TlcJobs(quick)
    try:
        _run_law(rep, quick, jobs, t0)
    finally:
        jobs.close()


def _tlc_verdicts(rep, jobs):
    for name in jobs.names():
        if name.startswith("gen "):
            continue
        r = jobs[name]
        if name.startswith("canary: "):
            want = CANARIES[name[8:]][3]
            if not r.violated or want not in str(r.violated):
                raise tlc.MachineryError(f"deviation canary not refuted: {name} (violated={r.violated})")
            continue
        rep.add_tlc(r, "TargetNet " + name)
        if not r.ok:
            rep.violation(f"spec:TargetNet:{r.violated}", f"design-level violation of {r.violated} in TargetNet ({name})", r.error_trace)
    if jobs[P_TYP].ok:
        tlc.require_covered(jobs[P_TYP], ["SupplyTarget", "CreateTarget", "OnlineStep", "SoftUpdateBy", "HardUpdateBy"])
    rep.extra["canaries_refuted"] = sorted(CANARIES)


def _run_law(rep, quick, jobs, t0):
    Z = zoo()  # imports jax / flax / rl_blox while TLC runs
    if quick:
        Z = {k: v for k, v in Z.items() if k not in QUICK_SKIP}
    res = {n: jobs[n] for n in jobs.names() if n.startswith("gen ")}
    for n, r in res.items():
        rep.add_tlc(r, "TargetNet " + n)
    timing = {"generation_ready_s": round(time.time() - t0, 1)}

    # --- replay
    Gseq = graph.Graph(res["gen sequences"].emitted)
    lat = res["gen lattice"].emitted
    Glat = graph.Graph(lat) if not quick else None
    Gdeep = graph.Graph(res["gen deep"].emitted) if not quick else None
    typ = typical_edges(res["gen typical"].emitted)
    if not typ or not Gseq.n_edges or not lat:
        raise tlc.MachineryError("TLC emitted no transitions")
    binding_canaries(Gseq, typ, Z["MLP"], rep.seed)
    t1, c1 = time.time(), time.process_time()
    edges = 0
    per_kind = {}
    for i, (kind, factory) in enumerate(Z.items()):
        n = 0
        base = kind in BASE_TYPES
        if quick:
            # sequences along real paths for every type; the complete value lattice (other layout) and all
            # non-dyadic cases for the base types - the arithmetic is elementwise, what depends on the
            # module type is which leaves are visited
            n += cover_graph(rep, Gseq, "sequences", kind, LAYOUTS[i % 2], factory, rep.seed)
            if base:
                n += replay_lattice(rep, lat, kind, LAYOUTS[(i + 1) % 2], factory, rep.seed)
            n_t = replay_typical(rep, typ if base else typ[i % 6 :: 6], kind, LAYOUTS[(i + 1) % 2], factory, rep.seed)
        else:
            for li, layout in enumerate(LAYOUTS):
                n += cover_graph(rep, Gseq, "sequences", kind, layout, factory, rep.seed)
                if li == i % 2:
                    n += cover_graph(rep, Glat, "lattice", kind, layout, factory, rep.seed)
                else:
                    n += cover_graph(rep, Gdeep, "deep", kind, layout, factory, rep.seed)
            n_t = replay_typical(rep, typ, kind, LAYOUTS[i % 2], factory, rep.seed)
        n_f = replay_float(rep, kind, factory, rep.seed, (0.005, 0.3), 3 if quick else 10)
        per_kind[kind] = {"transitions": n, "non_dyadic": n_t, "float_elements": n_f}
        edges += n + n_t
    timing["law_replay_s"] = round(time.time() - t1, 1)
    timing["law_replay_cpu_s"] = round(time.process_time() - c1, 1)

    # --- storage
    t2 = time.time()
    n_st, n_paths = run_storage(rep, Gseq, quick)
    timing["storage_s"] = round(time.time() - t2, 1)
    if not quick:
        t3 = time.time()
        n_learn, notes = run_storage_learning(rep)
        rep.extra["storage_learning_pairs"] = n_learn
        if notes:
            rep.extra["storage_learning_notes"] = notes
        timing["storage_learning_s"] = round(time.time() - t3, 1)

    # --- TLC verdicts (the property runs went on in the background)
    t4 = time.time()
    _tlc_verdicts(rep, jobs)
    timing["waited_for_tlc_s"] = round(time.time() - t4, 1)

    # --- evidence
    def nontrivial(G):
        return sum(1 for k, es in G.out.items() for (op, a, e, k2) in es if op in ("Soft", "Hard") and G.state[k]["on"] != G.state[k]["tg"])

    rep.traces += edges + n_st
    rep.evaluations += edges + n_st
    rep.distinct += nontrivial(Gseq) + nontrivial(Glat or graph.Graph(lat)) + (nontrivial(Gdeep) if Gdeep else 0) + len(typ)
    rep.exhaustive = True
    rep.rule = (
        "TLC enumerates the reachable state graph of TargetNet over parameter trees (4 leaf classes, values {-2,-1,0,1/2,1,3} rotated over the classes, "
        "tau in {0,1/4,1/2,1}) and operation sequences (supply/create target, online step, soft, hard); every transition is replayed once along a real path "
        f"into each of {len(Z)} real module types with the tree written into every element of every nnx.Variable (layouts: per leaf / per element) and all leaves of both "
        "networks compared exactly; a case is non-trivial when it is a soft/hard update and online differs from target. "
        "Non-dyadic tau (1/200, 3/10) against TLC's exact rationals within the rounding bound; storage: TLC's Create-paths replayed on the targets each train_* routine creates itself"
    )
    seq = res["gen sequences"].emitted
    rep.sample({"sequence transition": next((e for e in seq[len(seq) // 2 :] if e["op"] == "Soft" and e["pre"]["on"] != e["pre"]["tg"]), seq[-1])})
    rep.sample({"non-dyadic": typ[len(typ) // 3]})
    rep.extra["law_per_module_type"] = per_kind
    rep.extra["storage_routines"] = ["train_nature_dqn", "train_ddqn", "train_ddqn_per", "train_ddpg", "train_td3", "train_td3_lap", "train_sac", "train_td7 (with and without checkpoints)", "train_mrq"]
    rep.extra["storage_steps_replayed"] = n_st
    rep.extra["c06_law_timing"] = timing
    rep.assumptions += [
        "law: float leaves with finite values; step sizes other than {0,1/4,1/2,1,1/200,3/10} and trees beyond 6 operations are covered by the float supplement / not at all",
        "float supplement (generic float32 parameters, tau 0.005 and 0.3): expected value is the exact rational tau*on+(1-tau)*tg computed by the harness, compared within the forward error bound of 3 float32 roundings + 2 constant conversions (u(2|tau*on|+2|(1-tau)*tg|+|exact|)); not TLC's arithmetic",
        "storage: nnx.clone shares the (immutable) jax arrays between clone and original; that is not shared storage as long as no buffer is donated - rl_blox uses no donate_argnums; shared nnx.Variable objects, shared sub-modules and shared numpy buffers are what is rejected",
        "storage: the routines are run with tiny networks on CartPole-v1 / Pendulum-v1 and stop before learning starts (quick); real gradient steps with tau=0 / unreachable update points only in the thorough tier",
        "trusted: write_tree/compare_tree projection in c06_law.py, TLC, numpy's float32 comparison",
    ]


def typical_edges(emits):
    return [e for e in emits if e["op"] == "Soft"]


class _Collect:
    """minimal stand-in for Report when one case is re-run"""

    def __init__(self):
        self.violations = []
        self.extra = {}

    def violation(self, key, what, replay=None):
        self.violations.append(what)


def replay_law(d, rep=None):
    """Re-run one failing case (the `replay` dict of a violation produced by this module);
    prints what happens, returns 1 if it still fails."""
    global routines
    if isinstance(d, str):
        print(d[:3000])  # a TLC error trace of a design-level violation
        return 1
    Z = zoo()
    part = d.get("part")
    seed = rep.seed if rep is not None else 0
    rr = _Collect()
    if part == "law":
        kind, layout = d["kind"], d["layout"]
        print(f"{kind}, layout {layout}, online tree {d['root']['on']}")
        ad = make_pair(kind, layout, Z[kind], d["root"], seed)
        try:
            for st in d["path"]:
                pair_step(ad, st["op"], st["args"], None, None, st["post"])
                print("  ", st["op"], st["args"], "->", pair_project(ad))
        except Mismatch as m:
            print("  ", st["op"], st["args"], ":", m.what)
            return 1
        except Exception as ex:  # noqa: BLE001
            print("  ", st["op"], st["args"], ": raises", type(ex).__name__, ex)
            return 1
        return 0
    if part == "law-typical":
        replay_typical(rr, [d["edge"]], d["kind"], d["layout"], Z[d["kind"]], seed)
    elif part == "law-float":
        replay_float(rr, d["kind"], Z[d["kind"]], d.get("seed", seed), (d["tau"],), 10)
    elif part in ("storage", "storage-learning"):
        allr = routines
        routines = lambda learn: {k: v for k, v in allr(learn).items() if k == d["routine"]}  # noqa: E731
        try:
            if part == "storage":
                r = tlc.run("TargetNet", tlc.cfg_text(constants=_consts([0, 3], 4, False, True)), workers=1, tag="tnrep")
                run_storage(rr, graph.Graph(r.emitted), True)
            else:
                run_storage_learning(rr)
        finally:
            routines = allr
    else:
        print("unknown replay part", part)
        return 0
    for w in rr.violations:
        print("  ", w)
    return 1 if rr.violations else 0
