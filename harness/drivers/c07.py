"""C07 - return and advantage estimates obey their recurrences and are causal.

spec/Returns.tla (exact rationals, spec/Exact.tla).  TLC proves on the lattice
that the recurrences (reward to go, n-step return with residual discount, GAE,
MR.Q critic target, encoder-loss mask) equal independently written closed
forms, and that every output is *causal*: changing any cell outside
Dep(output) leaves it unchanged (relational invariant), with Dep tight.

Binding (spec -> code): every vector TLC emits is fed to the real functions
(discounted_reward_to_go / EpisodeDataset, discounted_n_step_return,
compute_gae, a2c.collect_trajectories + prepare_a2c_batch,
ppo.collect_trajectories + update_ppo, mrq_loss, model_based_encoder_loss) with
table stubs for value functions / critics / encoders and compared exactly.
Beyond the lattice: random float inputs, perturbing exactly the cells TLC lists
as irrelevant (outputs must be bitwise equal) and relevant (outputs must move).
The representation of the reward sequence (Python floats / ints, numpy integer
scalars, integer / float arrays, mixed) is a TLC-chosen component of every
rtg / nstep / gae vector (Returns.tla section 3a): the estimate is a function of
the numbers, not of the type that carries them.

spec/ReturnsRollout.tla: PPO rollouts of a SAME_STEP vector environment whose
sub-environments follow TLC-chosen episode scripts (finish alone / together, by
termination / truncation, inside / at the end of a collection call).  TLC checks
that the next value kept for a step is the value of the observation THAT step of
THAT environment returned (the episode's own final observation when it was cut
there) and that an environment's rows equal those of its solo rollout - with or
without a logger / RecordEpisodeStatistics (ReturnsRollout.Setup); the real
train_ppo -> collect_trajectories -> update_ppo runs on harness.envs.ScriptEnv
with a stub critic that is injective on observation tags and is compared with
the emitted rows, next values (exact) and per-environment GAE forms.

spec/ReturnsA2CRollout.tla (binding in c07_signals.py): A2C rollouts judged against what the vector environment
EMITTED.  TLC chooses the (terminated, truncated) flags of every step of every sub-environment - all patterns on a
small T x N lattice -, collect_trajectories writes the rollout buffer, prepare_a2c_batch reads it; the advantages /
returns (also the ones the real train_a2c hands to train_policy_a2c / train_value_function) must equal the GAE
recurrence on the emitted reward / value / TERMINATION sequences: a merely truncated step cuts nothing.

spec/ReturnsMRQ.tla + ReturnsMRQTrace.tla (binding in c07_signals.py): the composition "train_mrq's buffer construction
+ its two sampling calls + discounted_n_step_return".  TLC checks on a transcription of the subtrajectory buffer that
for every (encoder_horizon, q_horizon) and every history of continued / terminated / truncated episodes each window
handed to the critic / encoder update is a run of one episode up to its first termination and the critic target is
the one of the environment's own log; the real train_mrq runs with its own buffer on harness.envs.ScriptEnv for
several horizon pairs (q_horizon > encoder_horizon + 1 included), every batch handed to update_critic_and_policy /
update_model_based_encoder is recorded and judged by the trace specification against the environment's log; TLC prints
the n-step return / residual discount / critic target of the window's own episode, compared exactly.

spec/ReturnsDataset.tla: ONE live EpisodeDataset as a state machine (StartEpisode,
AddSample, observers Prepare(gamma) / Length / AverageReturn).  Every transition
of the state graph - including Prepare(g2) right after Prepare(g1) - is replayed
once (graph.cover), and random histories of the graph run on one object
(graph.walks): an observer answers for ITS gamma whatever was asked before.
"""
from __future__ import annotations

import inspect
import json
import zlib
from collections import namedtuple
from fractions import Fraction

import numpy as np

from .. import exact, tlc
from . import c07_signals as sig

LEVEL = "model_checking"
MANIFEST = dict(
    category="model_checking",
    text="TLC checks on Returns.tla (exact rational arithmetic) that reward-to-go, n-step return with residual discount, GAE, the A2C / PPO batched advantage preparation, MR.Q's critic target and the encoder-loss mask satisfy their recurrences (= independently written closed forms) and are causal: changing any cell outside {own trajectory, index >= t, <= first termination} never changes output t (relational invariant over every termination pattern), and that this dependency set is tight. Every TLC-generated vector is replayed into the real functions with table stubs and compared exactly (dyadic lattice: float32 arithmetic is exact); the TLC-generated irrelevant / relevant cell sets drive bitwise perturbation tests on random float inputs. Arithmetic laws over all small inputs plus a non-interference relation are exactly what a model checker with exact arithmetic decides and example tests cannot. Rollout level (ReturnsRollout.tla): on TLC-chosen episode scripts of 2-3 sub-environments (finishing alone / together, terminated / truncated, inside / at the end of a collection call) the next value kept for a step is the value of the observation that step of that environment returned (its episode's final observation when cut there) and an environment's rows equal its solo rollout; train_ppo -> collect_trajectories -> update_ppo is run on such scripted vector environments and compared exactly. A2C rollout level (ReturnsA2CRollout.tla): for EVERY pattern of (terminated, truncated) flags a scripted vector environment emits on a small T x N lattice, the advantages / returns that collect_trajectories -> rollout buffer -> prepare_a2c_batch (and the real train_a2c) hand on equal the GAE recurrence of the EMITTED reward / value / termination sequences: a merely truncated step cuts neither bootstrap nor accumulation. MR.Q run level (ReturnsMRQ.tla, ReturnsMRQTrace.tla): TLC checks on a model of train_mrq's own buffer (horizon = max(encoder_horizon, q_horizon)) and its two sampling calls that for every horizon pair and every history of continued / terminated / truncated episodes each window is a run of one episode up to its first termination and the critic target equals the one of the environment's own log; every batch the real train_mrq hands to its critic and encoder update in runs with several horizon pairs (q_horizon > encoder_horizon + 1 included) and truncated episodes is judged row by row against the environment's log, n-step return / residual discount / critic target compared exactly with TLC's values. Object level (ReturnsDataset.tla): one live EpisodeDataset is a state machine whose observer Prepare(gamma) answers for its own gamma whatever was asked before; every transition of the graph (incl. Prepare(g2) after Prepare(g1)) and random histories run on one real object.",
    note="bounds: rows B<=2 (encoder 1,2,4), steps H<=3 quick / <=4 thorough, every termination pattern, gamma/lambda in {0,1/4,1/2,1}; data exhaustive for <=1-2 cells, otherwise seeded dense fills; update_ppo's fixed gamma=0.99, lambda=0.95 are compared through TLC's symbolic closed form within an operation-count bound of float32 ulps; truncation boundaries are not cuts; rollouts: 2 environments x two-episode scripts (lengths 1-2 quick / 1-3 thorough) and 3 environments x one-episode scripts (lengths 1-3), 4 (6) vector steps in 1-3 collection calls, each in the set-ups train_ppo with a logger / train_ppo without a logger / collect_trajectories + update_ppo with a logger on the bare vector environment (the step-class cover in all three, the seeded sample rotating); A2C rollouts: 2 x 2 (all 256 flag patterns, one collection call: every one replayed), 2 x 3 and 3 x 2 (thorough: + 2 x 4 truncation-only) as step-class cover + seeded sample, 2 (4) discount pairs; MR.Q: buffer model horizons 1-3 (1-4), buffer_size 5 (6), 7 (8) environment steps; real train_mrq runs of 34 (48) steps for 3 (9) horizon pairs with the updates replaced by recorders that run the real mrq_loss on the recorded batch with stub critics (thorough: two runs with the real updates, n-step return recorded inside the jitted loss), gamma 1/2; EpisodeDataset graphs up to 3 episodes / 4 (5) samples, rewards {-1, 2}; trusted: scripted vector environment, harness.envs.ScriptEnv under gymnasium SyncVectorEnv, table / linear stubs, interposed ppo.ppo_loss / ppo.compute_gae / ppo.collect_trajectories / ppo.update_ppo recorders, a2c.train_policy_a2c / a2c.train_value_function / a2c.collect_trajectories recorders, mrq.update_critic_and_policy / mrq.update_model_based_encoder / mrq.discounted_n_step_return recorders, TLC",
    technique="TLA+ spec + TLC (invariants incl. relational causality on staged vectors; deviation canaries); replay of TLC-generated vectors and dependency sets into compute_gae, discounted_n_step_return, discounted_reward_to_go, prepare_a2c_batch, ppo.collect_trajectories/update_ppo, mrq_loss, model_based_encoder_loss; TLC-generated rollouts into train_ppo on scripted vector environments; TLC-generated flag patterns into a2c.collect_trajectories + prepare_a2c_batch / train_a2c on a scripted vector environment; trace validation (ReturnsMRQTrace) of every critic / encoder batch recorded from real train_mrq runs against the environment log; transition coverage + random walks of the EpisodeDataset state graph on one live object",
)

ALL_KINDS = ["rtg", "nstep", "gae", "a2c", "ppo", "mrq", "enc"]
LAW_INVS = ["TypeOK", "ClosedForms", "LambdaLimits", "NStepIsCutRTG", "TerminatedIgnoresBootstrap"]
REL_INVS = ["Causal", "DepTight"]
ACTIONS = ["ChooseShape", "ChooseFlags", "ChooseData", "RewardToGo", "NStepReturn", "ComputeGAE",
           "PrepareA2CBatch", "PPOAdvantages", "MRQCriticTarget", "EncoderLossAction"]
LN2 = Fraction(float(np.log(2.0)))
BIG = 1.0e9  # logit outside the support
QK = 64.0  # constant prediction of the stub critics in mrq_loss (target = QK - |td|)
U32 = Fraction(1, 2**24)  # unit round-off of float32


def consts(kinds, shapes, K, exh, seed, quarter=False, emit=False, deps=False, exh_kinds=("rtg", "nstep", "gae"), reprs=()):
    return dict(EMIT=emit, DEPS=deps, Kinds=set(kinds), Shapes=set(shapes), K=K, ExhCells=exh, ExhKinds=set(exh_kinds),
                Seed=int(seed) % 32768, Quarter=quarter, Reprs=set(reprs) | {"float"})


# representations of the reward sequence (Returns.tla section 3a): TLC chooses the name, this is what the name means
REPRS_QUICK = ("int", "npint64", "int64array", "int32array", "float32array", "mixed", "int32")
REPRS_ALL = REPRS_QUICK + ("float64array", "npfloat64")
_NP_DTYPE = {"int64array": np.int64, "int32array": np.int32, "float32array": np.float32, "float64array": np.float64}


REPR_TEXT = {"int": "a list of Python ints", "npint64": "numpy int64 values", "int64array": "a numpy int64 array", "int32array": "a numpy int32 array",
             "float32array": "a numpy float32 array", "float64array": "a numpy float64 array", "mixed": "a list of Python ints and floats",
             "int32": "a jax int32 array", "npfloat64": "a numpy float64 array"}


def rtg_rewards(ep, repr_, asint):
    """one episode's rewards (floats from the lattice) in the representation TLC chose; asint: TLC's TypedInt row"""
    if repr_ in _NP_DTYPE:
        return np.asarray(ep, dtype=_NP_DTYPE[repr_])
    if repr_ == "npint64":
        return [np.int64(x) for x in ep]
    return [int(x) if i else float(x) for x, i in zip(ep, asint)]  # "float", "int", "mixed"


def arr_rewards(R, repr_):
    """a reward matrix / vector for discounted_n_step_return / compute_gae in the representation TLC chose"""
    import jax.numpy as jnp

    if repr_ == "int32":
        return jnp.asarray(np.asarray(R), dtype=jnp.int32)
    if repr_ == "npint64":
        return np.asarray(R).astype(np.int64)
    if repr_ == "npfloat64":
        return np.asarray(R).astype(np.float64)
    return jnp.asarray(R, dtype=jnp.float32)


# ----------------------------------------------------------------- conversions
def qf(x):
    return float(exact.q(x))


def fmat(M):
    return np.array([[qf(c) for c in row] for row in M], dtype=np.float32)


def imat(M):
    return np.array(M, dtype=np.int32)


def frac(v):
    return Fraction(float(v))


class Problems(list):
    def add(self, key, what):
        self.append({"key": key, "what": what})


def _exc(e):
    return f"{type(e).__name__}: {str(e)[:160]}"


def expect_exact(probs, key, label, got, want, ravel=False):
    """got: array-like of floats, want: list of [n,d]; exact comparison (D2)."""
    got = np.asarray(got)
    if ravel:
        got = got.reshape(-1)
    if got.shape != (len(want),):
        probs.add(key, f"{label}: shape {got.shape}, specification has {len(want)} entries")
        return False
    for i, (g, w) in enumerate(zip(got.tolist(), want)):
        if not exact.eq(g, w):
            probs.add(key, f"{label}[{i}] = {g!r}, specification {exact.q(w)} (all: {got.tolist()} vs {[str(exact.q(x)) for x in want]})")
            return False
    return True


# ------------------------------------------------------------ scripted pieces
class ScriptedVecEnv:
    """Duck-typed vector environment.  Observation of environment n at time t is
    the tag [t*N + n]; rewards / terminations / truncations follow the script (time-major).
    `log` is the environment's own record of what it emitted."""

    def __init__(self, rew_tn, term_tn, term_dtype=bool, trunc_tn=None):
        import gymnasium as gym

        self.rew = np.asarray(rew_tn, dtype=np.float64)
        self.term = np.asarray(term_tn)
        self.trunc = np.zeros(self.term.shape, dtype=bool) if trunc_tn is None else np.asarray(trunc_tn).astype(bool)
        self.T, self.num_envs = self.rew.shape
        self.term_dtype = term_dtype
        self.single_action_space = gym.spaces.Discrete(2)
        self.t = 0
        self.log = []

    def _obs(self, t):
        return np.array([[t * self.num_envs + n] for n in range(self.num_envs)], dtype=np.float32)

    def reset(self, **kw):
        self.t = 0
        return self._obs(0), {}

    def step(self, action):
        t = self.t
        self.t += 1
        self.log.append({"rew": self.rew[t].tolist(), "term": self.term[t].astype(int).tolist(), "trunc": self.trunc[t].astype(int).tolist()})
        return (self._obs(t + 1), self.rew[t].copy(), self.term[t].astype(self.term_dtype),
                self.trunc[t].copy(), {})


class ZeroPolicy:
    def __init__(self, n, as_numpy):
        self.n, self.as_numpy = n, as_numpy

    def sample(self, obs, key):
        import jax.numpy as jnp

        return np.zeros(self.n, dtype=np.int64) if self.as_numpy else jnp.zeros((self.n,), dtype=jnp.int32)


def table_fn(table):
    """stub value function: observation tag -> table entry, shape (B, 1) like an MLP head"""
    import jax.numpy as jnp

    tab = jnp.asarray(table, dtype=jnp.float32)
    return lambda obs: tab[jnp.asarray(obs)[:, 0].astype(jnp.int32)][:, None]


# ------------------------------------------------------------------- evaluators
# each evaluator feeds numpy inputs to the real code and returns its raw outputs
def eval_rtg(par, data):
    import gymnasium as gym
    from rl_blox.algorithm.reinforce import EpisodeDataset, discounted_reward_to_go

    g = par["g"]
    repr_ = par.get("repr", "float")
    asint = data.get("asint") or [[False] * len(ep) for ep in data["R"]]
    eps = [rtg_rewards(ep, repr_, ai) for ep, ai in zip(data["R"], asint)]
    per_ep = [np.asarray(discounted_reward_to_go(ep, g)) for ep in eps]
    ds = EpisodeDataset()
    tag = 0
    for ep in eps:
        ds.start_episode()
        for r in ep:  # the elements as the container holds them (Python int / float, numpy scalar)
            ds.add_sample(np.array([float(tag)]), 1, np.array([tag + 0.5]), r)
            tag += 1
    obs, act, nobs, ret, disc = ds.prepare_policy_gradient_dataset(gym.spaces.Discrete(2, start=1), g)
    return {"per_ep": per_ep, "obs": np.asarray(obs)[:, 0], "ret": np.asarray(ret), "disc": np.asarray(disc)}


def eval_nstep(par, data):
    import jax.numpy as jnp
    from rl_blox.blox.return_estimates import discounted_n_step_return

    ret, disc = discounted_n_step_return(arr_rewards(data["R"], par.get("repr", "float")), jnp.asarray(data["D"]), par["g"])
    return {"ret": np.asarray(ret), "disc": np.asarray(disc)}


def eval_gae(par, data):
    import jax.numpy as jnp
    from rl_blox.blox.gae import compute_gae

    out = compute_gae(arr_rewards(data["R"][0], par.get("repr", "float")), jnp.asarray(data["V"][0], dtype=jnp.float32),
                      jnp.asarray(data["W"][0], dtype=jnp.float32), jnp.asarray(data["D"][0]), par["g"], par["l"])
    return {"adv": np.asarray(out.advantages), "ret": np.asarray(out.returns)}


def eval_a2c(par, data):
    """scripted rollout through a2c.collect_trajectories, then prepare_a2c_batch with a table value function"""
    import gymnasium as gym
    import jax
    from rl_blox.algorithm import a2c

    R, D, V, X = data["R"], data["D"], data["V"], data["X"]
    N, T = R.shape
    env = ScriptedVecEnv(R.T, D.T)
    buf, last, _, _ = a2c.collect_trajectories(env, ZeroPolicy(N, True), jax.random.key(0), env.reset()[0], T)
    table = np.concatenate([V.T.reshape(-1), X])  # tag t*N+n -> V[n][t]; bootstrap tags T*N+n -> X[n]
    obs, act, adv, ret = a2c.prepare_a2c_batch(buf, table_fn(table), last, gym.spaces.Discrete(2), par["g"], par["l"])
    return {"obs": np.asarray(obs)[:, 0], "adv": np.asarray(adv), "ret": np.asarray(ret)}


_PPO = {"sink": [], "gae_args": None, "installed": False, "actor": {}, "critic": {}}


def _install_ppo_recorders():
    """interpose on the names update_ppo looks up: record (advantages, returns) handed to ppo_loss"""
    if _PPO["installed"]:
        return
    import jax
    from rl_blox.algorithm import ppo

    real_gae, real_loss = ppo.compute_gae, ppo.ppo_loss
    sig = inspect.signature(real_gae)

    def gae_recorder(*a, **k):
        ba = sig.bind(*a, **k)
        ba.apply_defaults()
        _PPO["gae_args"] = (ba.arguments["gamma"], ba.arguments["lmbda"])
        return real_gae(*a, **k)

    def loss_recorder(actor, critic, old_logps, observations, actions, advantages, returns, *a, **k):
        jax.debug.callback(lambda adv, ret: _PPO["sink"].append((np.array(adv), np.array(ret))), advantages, returns)
        return real_loss(actor, critic, old_logps, observations, actions, advantages, returns, *a, **k)

    ppo.compute_gae, ppo.ppo_loss = gae_recorder, loss_recorder
    _PPO["installed"] = True


def _ppo_modules(n_entries):
    import jax.numpy as jnp
    import optax
    from flax import nnx
    from rl_blox.blox.function_approximator.mlp import MLP
    from rl_blox.blox.function_approximator.policy_head import SoftmaxPolicy

    if "actor" not in _PPO["actor"]:
        actor = SoftmaxPolicy(MLP(1, 2, [4], "relu", nnx.Rngs(0)))
        _PPO["actor"]["actor"] = (actor, nnx.Optimizer(actor, optax.sgd(0.0), wrt=nnx.Param))
    if n_entries not in _PPO["critic"]:

        class TableCritic(nnx.Module):
            def __init__(self, n):
                self.table = nnx.Param(jnp.zeros((n,), dtype=jnp.float32))

            def __call__(self, obs):
                return self.table.value[jnp.asarray(obs)[:, 0].astype(jnp.int32)][:, None]

        c = TableCritic(n_entries)
        _PPO["critic"][n_entries] = (c, nnx.Optimizer(c, optax.sgd(0.0), wrt=nnx.Param))
    return _PPO["actor"]["actor"] + _PPO["critic"][n_entries]


def ppo_constants():
    """(G, C) as exact rationals of the float32 constants update_ppo's GAE uses"""
    g, l = _PPO["gae_args"]
    if not isinstance(g, (int, float)) or not isinstance(l, (int, float)):
        raise tlc.MachineryError("update_ppo passes traced gamma / lambda to compute_gae; recorder cannot name the constants")
    g32, l32 = np.float32(g), np.float32(l)
    return Fraction(float(g32)), Fraction(float(np.float32(g32 * l32))), float(g), float(l)


def eval_ppo_collect(data):
    import jax
    from rl_blox.algorithm import ppo

    R, D, W = data["R"], data["D"], data["W"]
    N, T = R.shape
    env = ScriptedVecEnv(R.T, D.T)
    actor, _, _, _ = _ppo_modules((T + 1) * N)
    # next value of step t in env n = critic(observation tag (t+1)*N+n) := W[n][t]
    wtab = np.concatenate([np.zeros(N, dtype=np.float32), W.T.reshape(-1)])
    return ppo.collect_trajectories(env, actor, table_fn(wtab), jax.random.key(1), batch_size=T, last_observation=None)


def eval_ppo(par, data):
    """scripted rollout through ppo.collect_trajectories, then update_ppo with a table critic; the
    advantages / returns are the ones update_ppo hands to ppo_loss"""
    import jax
    import jax.numpy as jnp
    from rl_blox.algorithm import ppo

    _install_ppo_recorders()
    V = data["V"]
    N, T = V.shape
    tr = eval_ppo_collect(data)
    out = {"obs": np.asarray(tr.observation), "rew": np.asarray(tr.reward), "term": np.asarray(tr.terminated),
           "nv": np.asarray(tr.next_value)}
    actor, opt_a, critic, opt_c = _ppo_modules((T + 1) * N)
    vtab = np.concatenate([V.T.reshape(-1), np.zeros(N, dtype=np.float32)])
    critic.table.value = jnp.asarray(vtab, dtype=jnp.float32)
    _PPO["sink"].clear()
    try:
        # a repaired update_ppo needs the number of environments to cut the scan: pass it if such a parameter exists
        extra = {k: N for k in inspect.signature(ppo.update_ppo).parameters if k in ("num_envs", "n_envs", "num_environments", "n_environments")}
        loss = ppo.update_ppo(actor, critic, opt_a, opt_c, tr.observation, tr.action, tr.reward, tr.terminated, tr.next_value, epochs=1, **extra)
        jax.block_until_ready(loss)
        jax.effects_barrier()
    except Exception as e:  # noqa: BLE001 - raised by the code under test
        out["update_error"] = _exc(e)
        return out
    if not _PPO["sink"]:
        raise tlc.MachineryError("recorder on ppo.ppo_loss saw no call from update_ppo")
    out["adv"] = np.concatenate([np.ravel(a) for a, _ in _PPO["sink"][:1]])
    out["ret"] = np.concatenate([np.ravel(r) for _, r in _PPO["sink"][:1]])
    return out


Batch = namedtuple("Batch", ["observation", "action", "reward", "next_observation", "terminated", "truncated"])


def eval_mrq(par, data):
    import jax.numpy as jnp
    from rl_blox.algorithm.mrq import mrq_loss

    R, D, X = data["R"], data["D"], data["X"]
    B, H = R.shape

    class Enc:
        def encode_zs(self, obs):
            return obs

        def encode_zsa(self, zs, action):
            return zs

    class Q:
        def q1(self, zsa):
            return jnp.full((zsa.shape[0], 1), QK, dtype=jnp.float32)

        q2 = q1

    ids = jnp.arange(B, dtype=jnp.float32)[:, None]
    batch = Batch(ids, jnp.zeros((B, 1)), jnp.asarray(R, dtype=jnp.float32), ids, jnp.asarray(D), jnp.zeros((B, H), dtype=jnp.int32))
    loss, (zs, q_mean, td) = mrq_loss(Q(), table_fn(X), Enc(), Enc(), jnp.zeros((B, 1)), batch, par["g"], par["rs"], par["trs"])
    td = np.atleast_1d(np.asarray(td))
    return {"target": (np.float32(QK) - td).astype(np.float32), "td": td}


def _enc_stubs():
    if "cls" in _PPO:
        return _PPO["cls"]
    import jax.numpy as jnp
    from flax import nnx

    class StubEncoder(nnx.Module):
        """table predictor: the action of cell (row, step) carries the cell id"""

        def __init__(self, pd, pz, logits):
            self.pd, self.pz, self.logits = nnx.Variable(pd), nnx.Variable(pz), nnx.Variable(logits)

        def encode_zs(self, obs):
            return jnp.zeros((obs.shape[0], self.pz.value.shape[1]), dtype=jnp.float32)

        def model_head(self, zs, action):
            i = action[:, 0].astype(jnp.int32)
            return self.pd.value[i], self.pz.value[i], self.logits.value[i]

    class StubTarget(nnx.Module):
        def __init__(self, tz):
            self.tz = nnx.Variable(tz)

        def encode_zs(self, obs):
            return self.tz.value[obs[:, 0].astype(jnp.int32)]

        def zs(self, obs):
            return self.tz.value[obs[:, 0].astype(jnp.int32)]

    _PPO["cls"] = (StubEncoder, StubTarget)
    return _PPO["cls"]


def eval_enc(par, data):
    """data: R (N,H) reward targets, D (N,H), pd (N,H), pz/tz (N,H,Z), logits (N,H,nb)"""
    import jax.numpy as jnp
    from rl_blox.blox.embedding.model_based_encoder import model_based_encoder_loss

    StubEncoder, StubTarget = _enc_stubs()
    R, D = data["R"], data["D"]
    N, H = R.shape
    f = lambda a: jnp.asarray(np.asarray(a).reshape((N * H,) + np.asarray(a).shape[2:]), dtype=jnp.float32)  # noqa: E731
    enc = StubEncoder(f(data["pd"]), f(data["pz"]), f(data["logits"]))
    tgt = StubTarget(f(data["tz"]))
    ids = jnp.arange(N * H, dtype=jnp.float32).reshape(N, H, 1)
    batch = Batch(ids, ids, jnp.asarray(R, dtype=jnp.float32), ids, jnp.asarray(D), jnp.zeros((N, H), dtype=jnp.int32))
    if "encjit" not in _PPO:
        # traced as update_model_based_encoder traces it (horizon / target normalisation static)
        from flax import nnx

        _PPO["encjit"] = nnx.jit(model_based_encoder_loss, static_argnums=(4, 9))
    total, (dyn, rew, done, rmse) = _PPO["encjit"](
        enc, tgt, jnp.asarray(par["bins"], dtype=jnp.float32), batch, H, par["wd"], par["wr"], par["wdn"], par["et"], par.get("norm", True)
    )
    return {k: np.float32(v) for k, v in dict(total=total, dyn=dyn, rew=rew, done=done, rmse=rmse).items()}


EVAL = {"rtg": eval_rtg, "nstep": eval_nstep, "gae": eval_gae, "a2c": eval_a2c, "ppo": eval_ppo, "mrq": eval_mrq, "enc": eval_enc}
SITE = {"rtg": "discounted_reward_to_go", "nstep": "discounted_n_step_return", "gae": "compute_gae", "a2c": "prepare_a2c_batch",
        "ppo": "update_ppo", "mrq": "mrq_loss", "enc": "model_based_encoder_loss"}


# --------------------------------------------------- vector checks (lattice)
def vec_inputs(rec):
    kind = rec["kind"]
    par = {k: qf(rec[k]) for k in ("g", "l", "rs", "trs", "wd", "wr", "wdn") if k in rec}
    data = {}
    if "repr" in rec:
        par["repr"] = rec["repr"]
    if kind == "rtg":
        data["R"] = [[qf(x) for x in ep] for ep in rec["R"]]
        if "asint" in rec:
            data["asint"] = rec["asint"]
    elif kind == "gae":
        data = {"R": fmat([rec["R"]]), "V": fmat([rec["V"]]), "W": fmat([rec["W"]]), "D": imat([rec["D"]])}
    else:
        for f in ("R", "V", "W"):
            if f in rec:
                data[f] = fmat(rec[f])
        data["D"] = imat(rec["D"])
        if "X" in rec:
            data["X"] = np.array([qf(x) for x in rec["X"]], dtype=np.float32)
    if kind == "enc":
        par["et"] = bool(rec["et"])
        par["norm"] = bool(sum(map(sum, rec["D"])) % 2)  # both target-normalisation branches
        par["bins"] = [qf(b) for b in rec["bins"]]
        nb = len(par["bins"])
        cells = rec["cells"]
        data["pd"] = np.array([[qf(c["pd"]) for c in row] for row in cells], dtype=np.float32)
        data["pz"] = np.array([[[qf(z) for z in c["pz"]] for c in row] for row in cells], dtype=np.float32)
        data["tz"] = np.array([[[qf(z) for z in c["tz"]] for c in row] for row in cells], dtype=np.float32)
        data["logits"] = np.array([[[0.0 if (i + 1) in c["S"] else -BIG for i in range(nb)] for c in row] for row in cells], dtype=np.float32)
    return par, data


def form_value(form, G, C):
    """SUM_j C^j (a_j + G b_j) exactly, and the magnitude SUM_j C^j (|a_j| + G |b_j|)"""
    val = mag = Fraction(0)
    for j, term in enumerate(form):
        a, b = exact.q(term["a"]), exact.q(term["b"])
        val += C**j * (a + G * b)
        mag += C**j * (abs(a) + G * abs(b))
    return val, mag


def form_close(got, form, G, C, extra_mag=Fraction(0)):
    """float32 evaluation of the form: <= 6 roundings per scan step (delta: 3, carry: 3), one for ret"""
    val, mag = form_value(form, G, C)
    tol = (6 * len(form) + 2) * U32 * (mag + extra_mag)
    return abs(frac(got) - val) <= tol, val, tol


def check_vector(rec, corrupt=False):
    """-> Problems for one TLC-emitted vector.  corrupt=True perturbs one expected value (binding canary)."""
    kind = rec["kind"]
    probs = Problems()
    par, data = vec_inputs(rec)
    site = SITE[kind]
    if corrupt:
        rec = json.loads(json.dumps(rec))
    try:
        out = EVAL[kind](par, data)
    except Exception as e:  # noqa: BLE001 - raised by the code under test where the specification defines a result
        if kind == "a2c" and data["R"].shape[0] == 1:
            probs.add("prepare_a2c_batch:single_env_raises", f"one parallel environment (T={data['R'].shape[1]}): {_exc(e)}")
        elif kind == "ppo" and data["R"].size == 1:
            probs.add("ppo.collect_trajectories:single_transition_squeezed", f"rollout of one step of one environment: {_exc(e)}")
        else:
            probs.add(f"{site}:raises:{type(e).__name__}", _exc(e))
        return probs

    def bump(x):
        return [x[0] * 2 + 3 * x[1], x[1] * 2]  # (2n + 3d) / 2d = x + 3/2

    if kind == "rtg":
        want = rec["rtg"]
        if corrupt:
            want[-1] = bump(want[-1])
        pos = 0
        for e, ep in enumerate(out["per_ep"]):
            expect_exact(probs, "discounted_reward_to_go:value", f"episode {e} reward to go", ep, want[pos : pos + len(ep)])
            pos += len(ep)
        expect_exact(probs, "prepare_policy_gradient_dataset:returns", "stacked returns", out["ret"], want)
        expect_exact(probs, "prepare_policy_gradient_dataset:gamma_discount", "gamma^t", out["disc"], rec["disc"])
        if out["obs"].tolist() != list(range(len(want))):
            probs.add("prepare_policy_gradient_dataset:layout", f"observations out of order: {out['obs'].tolist()}")
    elif kind == "nstep":
        want = rec["ret"]
        if corrupt:
            want[-1] = bump(want[-1])
        expect_exact(probs, "discounted_n_step_return:return", "n-step return", out["ret"], want)
        expect_exact(probs, "discounted_n_step_return:discount", "residual discount", out["disc"], rec["disc"])
    elif kind == "gae":
        o = rec["out"]
        if corrupt:
            o[0]["adv"] = bump(o[0]["adv"])
        expect_exact(probs, "compute_gae:advantages", "advantages", out["adv"], [x["adv"] for x in o])
        expect_exact(probs, "compute_gae:returns", "returns", out["ret"], [x["ret"] for x in o])
    elif kind == "a2c":
        fl = rec["flat"]
        if corrupt:
            fl[0]["adv"] = bump(fl[0]["adv"])
        if out["obs"].tolist() != list(range(len(fl))):
            probs.add("prepare_a2c_batch:layout", f"flat observations {out['obs'].tolist()} are not time-major")
        expect_exact(probs, "prepare_a2c_batch:advantages", "advantages (time-major flat)", out["adv"], [x["adv"] for x in fl])
        expect_exact(probs, "prepare_a2c_batch:returns", "returns (time-major flat)", out["ret"], [x["ret"] for x in fl])
    elif kind == "ppo":
        check_ppo(rec, out, probs, corrupt)
    elif kind == "mrq":
        want = rec["target"]
        if corrupt:
            want[0] = bump(want[0])
        expect_exact(probs, "mrq_loss:critic_target", f"critic target (= {QK} - |td error|)", out["target"], want)
    elif kind == "enc":
        check_enc(rec, out, probs, corrupt)
    if probs and not corrupt and rec.get("repr", "float") != "float":
        # is it the representation of the rewards?  the same numbers handed over as floats
        base = check_vector(dict(rec, repr="float", asint=[[False] * len(r) for r in rec["R"]] if kind == "rtg" else None))
        if not base:
            first = probs[0]
            probs = Problems()
            probs.add(f"{site}:estimate_depends_on_reward_type",
                      f"rewards handed over as {REPR_TEXT.get(rec['repr'], rec['repr'])}: {first['what']}; the same numbers handed over as "
                      f"{'Python floats' if kind == 'rtg' else 'a float32 array'} give the specified values (first deviating check: {first['key']})")
    return probs


def check_ppo(rec, out, probs, corrupt):
    fl = rec["flat"]
    n = len(fl)
    single = n == 1
    lkey = "ppo.collect_trajectories:layout"
    # the order of the transitions is what matters (an (N, T) array ravels to the same environment-major order)
    if np.asarray(out["obs"]).reshape(-1).tolist() != [x["obs"] for x in fl]:
        probs.add(lkey, f"observations {np.asarray(out['obs']).reshape(-1).tolist()} are not environment-major {[x['obs'] for x in fl]}")
    expect_exact(probs, lkey, "rewards (environment-major flat)", out["rew"], [x["rew"] for x in fl], ravel=True)
    expect_exact(probs, lkey, "next values (environment-major flat)", out["nv"], [x["nv"] for x in fl], ravel=True)
    if np.asarray(out["term"]).reshape(-1).astype(int).tolist() != [x["term"] for x in fl]:
        probs.add(lkey, f"terminated flags {np.asarray(out['term']).tolist()} vs {[x['term'] for x in fl]}")
    if "update_error" in out:
        if single:
            shapes = {k: np.asarray(out[k]).shape for k in ("rew", "term", "nv")}
            probs.add("ppo.collect_trajectories:single_transition_squeezed",
                      f"rollout of one step of one environment is squeezed to 0-d arrays {shapes}; update_ppo on it: {out['update_error']}")
        else:
            probs.add("update_ppo:raises", f"update_ppo on the collected rollout: {out['update_error']}")
        return
    G, C, g, l = ppo_constants()
    adv, ret = out["adv"], out["ret"]
    if adv.shape != (n,) or ret.shape != (n,):
        probs.add("update_ppo:advantage_shape", f"advantages {adv.shape} / returns {ret.shape} for {n} transitions")
        return
    if corrupt:
        fl[0]["form"][0]["a"] = [fl[0]["form"][0]["a"][0] * 2 + 3 * fl[0]["form"][0]["a"][1], fl[0]["form"][0]["a"][1] * 2]
    for i, x in enumerate(fl):
        v = exact.q(x["v"])
        for name, got, off in (("advantage", adv[i], Fraction(0)), ("return", ret[i], v)):
            ok, val, tol = form_close(got, x["form"], G, C, abs(off))
            ok = abs(frac(got) - (val + off)) <= tol
            if ok:
                continue
            dval, dmag = form_value(x["dev"], G, C)
            is_dev = abs(frac(got) - (dval + off)) <= (6 * len(x["dev"]) + 2) * U32 * (dmag + abs(off))
            what = (f"{name} of environment {x['env']} step {x['t']} (flat {i}) = {float(got)!r}; per-environment GAE "
                    f"(gamma={g}, lambda={l}) = {float(val + off)!r} +- {float(tol):.2e}")
            if is_dev:
                probs.add("update_ppo:gae_crosses_env_boundary", what + f"; equals ONE scan over the concatenated environments ({float(dval + off)!r}): the advantage of the next environment's first step leaks in")
            else:
                probs.add("update_ppo:advantage_value", what)
            break


def check_enc(rec, out, probs, corrupt):
    e = {k: exact.q(v) for k, v in rec["exp"].items()}
    if corrupt:
        e["dyn"] += Fraction(3, 2)
    N, H = len(rec["R"]), len(rec["R"][0])
    site = "model_based_encoder_loss"
    if frac(out["dyn"]) != e["dyn"]:
        probs.add(f"{site}:dynamics_loss", f"dynamics loss {out['dyn']!r}, specification {e['dyn']}")
    ulps = N + H + 2  # log-sum-exp, N-term mean, H-term sum
    if abs(frac(out["rew"]) - e["rew"] * LN2) > ulps * U32 * e["rew"] * LN2:
        probs.add(f"{site}:reward_loss", f"reward loss {out['rew']!r}, specification {e['rew']} * ln 2 = {float(e['rew'] * LN2)!r}")
    done_bad = frac(out["done"]) != e["done"]
    if done_bad:
        dev = exact.q(rec["devdone"])
        if frac(out["done"]) == dev:
            probs.add(f"{site}:done_loss_not_masked", f"done loss {out['done']!r}, specification {e['done']} (mask per row, rows after their first terminated step excluded); equals mean(error) * mean(mask) = {dev}: the (N,) error is broadcast against the (N,1) mask")
        else:
            probs.add(f"{site}:done_loss", f"done loss {out['done']!r}, specification {e['done']}")
    if frac(out["rmse"]) != e["rmse"]:
        dev = exact.q(rec["devrmse"])
        if frac(out["rmse"]) == dev:
            probs.add(f"{site}:reward_mse_not_masked", f"reward mse {out['rmse']!r}, specification {e['rmse']}; equals mean(error) * mean(mask) = {dev}: the (N,) error is broadcast against the (N,1) mask")
        else:
            probs.add(f"{site}:reward_mse", f"reward mse {out['rmse']!r}, specification {e['rmse']}")
    # total = wd*dyn + wr*rew + wdn*done; when the done component already deviates and carries weight the
    # total deviates as a consequence (same defect) - it is then checked against the implementation's own done term
    wdn = exact.q(rec["wdn"])
    totc = e["totc"] if not done_bad else e["totc"] - wdn * e["done"] + wdn * frac(out["done"])
    mag = abs(totc) + e["totln2"] * LN2
    if abs(frac(out["total"]) - (totc + e["totln2"] * LN2)) > (ulps + 3) * U32 * mag:
        probs.add(f"{site}:total", f"total loss {out['total']!r}, specification {float(totc + e['totln2'] * LN2)!r}")


# ------------------------------------------ rollouts of a vector environment (ReturnsRollout.tla)
ROLL_INVS = ["TypeOK", "BootIsOwnSuccessor", "EnvsIndependent", "ValueSeparates", "TruncatedBootstrapsFromFinal"]
ROLL_ACTIONS = ["ChooseScripts", "VecStep", "Finish"]
# (variant, set-up, invariant that must refute it)
ROLL_DEVS = (("last_finished_only", "logger_stats", "BootIsOwnSuccessor"), ("last_finished_only", "logger_stats", "EnvsIndependent"),
             ("reset_observation", "logger_stats", "BootIsOwnSuccessor"), ("restored_only_with_logger", "no_logger", "BootIsOwnSuccessor"),
             ("restored_only_with_logger", "logger_no_stats", "TruncatedBootstrapsFromFinal"))
# the set-ups every specified rollout is expected in (ReturnsRollout.Setup): the specification does not depend on them
SETUPS = ("logger_stats", "no_logger", "logger_no_stats")


def roll_consts(n, t, lens, neps, bss, emit, variant="spec", setup="logger_stats"):
    return dict(EMIT=emit, N=n, T=t, Lens=set(lens), NEps=neps, BlockSizes=set(bss), Variant=variant, Setup=setup)


def _roll_modules(vw):
    """cached actor / stub critic V(obs) = obs . vw / optimisers that change nothing (sgd, learning rate 0)"""
    import jax.numpy as jnp
    import optax
    from flax import nnx
    from rl_blox.blox.function_approximator.mlp import MLP
    from rl_blox.blox.function_approximator.policy_head import SoftmaxPolicy

    key = ("roll",) + tuple(vw)
    if key not in _PPO["critic"]:

        class LinearCritic(nnx.Module):
            def __init__(self, w):
                self.w = nnx.Param(jnp.asarray(np.asarray(w, dtype=np.float32).reshape(-1, 1)))

            def __call__(self, obs):
                return jnp.asarray(obs, dtype=jnp.float32) @ self.w.value

        actor = SoftmaxPolicy(MLP(3, 2, [4], "relu", nnx.Rngs(0)))
        critic = LinearCritic(vw)
        _PPO["critic"][key] = (actor, nnx.Optimizer(actor, optax.sgd(0.0), wrt=nnx.Param), critic, nnx.Optimizer(critic, optax.sgd(0.0), wrt=nnx.Param))
    return _PPO["critic"][key]


def eval_rollout(rec, setup="logger_stats"):
    """The rollout on a SAME_STEP vector environment of scripted sub-environments, in one of the set-ups
      logger_stats     train_ppo(iterations = number of blocks, batch_size = block size, logger = MemoryLogger);
                       train_ppo wraps the environment in RecordEpisodeStatistics itself
      no_logger        the same with logger = None
      logger_no_stats  collect_trajectories / update_ppo called block by block as train_ppo calls them (continuation
                       through last_observation / global_step), on the BARE vector environment, with a logger
    Returns what every collect_trajectories call returned and the advantages / returns update_ppo handed to ppo_loss."""
    import gymnasium as gym
    import jax
    from rl_blox.algorithm import ppo
    from rl_blox.logging.logger import MemoryLogger

    from ..envs import Recorder, ScriptEnv

    _install_ppo_recorders()
    actor, opt_a, critic, opt_c = _roll_modules([qf(w) for w in rec["vw"]])
    events = Recorder()
    events.enabled = False
    subs = [ScriptEnv(events, [(int(l), str(e)) for l, e in sc], discrete_actions=2, env_id=i) for i, sc in enumerate(rec["scripts"])]
    envs = gym.vector.SyncVectorEnv([(lambda e=e: e) for e in subs], autoreset_mode=gym.vector.AutoresetMode.SAME_STEP)
    blocks = []
    real_collect, real_update = ppo.collect_trajectories, ppo.update_ppo
    iterations, bs = len(rec["blocking"]), int(rec["blocking"][0])

    def collect(*a, **k):
        tr = real_collect(*a, **k)
        blocks.append({"obs": np.asarray(tr.observation), "rew": np.asarray(tr.reward), "term": np.asarray(tr.terminated),
                       "nv": np.asarray(tr.next_value), "last": np.asarray(tr.last_observation)})
        return tr

    def update(*a, **k):
        _PPO["sink"].clear()
        loss = real_update(*a, **k)
        jax.block_until_ready(loss)
        jax.effects_barrier()
        if _PPO["sink"] and blocks:
            blocks[-1]["adv"], blocks[-1]["ret"] = (np.ravel(x) for x in _PPO["sink"][0])
        return loss

    out = {"blocks": blocks}
    ppo.collect_trajectories, ppo.update_ppo = collect, update
    try:
        if setup == "logger_no_stats":
            logger = MemoryLogger()
            key = jax.random.key(1)
            last, _ = envs.reset(seed=1)
            logger.start_new_episode()
            gstep = 0
            for _ in range(iterations):
                key, sub = jax.random.split(key)
                tr = collect(envs, actor, critic, sub, bs, logger, last, gstep)
                last, gstep = tr.last_observation, tr.global_step
                update(actor, critic, opt_a, opt_c, tr.observation, tr.action, tr.reward, tr.terminated, tr.next_value, 1, envs.num_envs)
        else:
            ppo.train_ppo(envs, actor, critic, opt_a, opt_c, iterations=iterations, epochs=1, batch_size=bs,
                          seed=1, logger=MemoryLogger() if setup == "logger_stats" else None, progress_bar=False)
    except Exception as e:  # noqa: BLE001 - raised by the code under test
        out["error"] = _exc(e)
    finally:
        ppo.collect_trajectories, ppo.update_ppo = real_collect, real_update
        envs.close()
    return out


SETUP_TEXT = {"logger_stats": "train_ppo with a logger", "no_logger": "train_ppo with logger=None",
              "logger_no_stats": "collect_trajectories / update_ppo with a logger on the bare vector environment (no RecordEpisodeStatistics)"}


def _tags(a):
    return [[int(round(float(x))) for x in row] for row in np.asarray(a).reshape(-1, 3)]


def check_rollout(rec, corrupt=False, setup="logger_stats"):
    """-> Problems for one TLC-emitted rollout (ReturnsRollout.Finish) run in one set-up (the specification is the
    same for all of them).  corrupt=True perturbs one expected next value."""
    probs = Problems()
    if corrupt:
        rec = json.loads(json.dumps(rec))
        x = next(x for b in rec["blocks"] for x in b["flat"] if not x["term"])
        x["nv"] = [x["nv"][0] * 2 + 3 * x["nv"][1], x["nv"][1] * 2]
    out = eval_rollout(rec, setup)
    n = rec["n"]
    ctx = f"{SETUP_TEXT[setup]}, {n} environments, scripts {rec['scripts']}, blocks {rec['blocking']}"
    if "error" in out:
        probs.add("train_ppo:raises", f"{ctx}: {out['error']}")
        return probs
    if len(out["blocks"]) != len(rec["blocks"]):
        probs.add("train_ppo:collection_calls", f"{ctx}: {len(out['blocks'])} collect_trajectories calls, specification {len(rec['blocks'])}")
        return probs
    site = "ppo.collect_trajectories"
    for bi, (sb, gb) in enumerate(zip(rec["blocks"], out["blocks"])):
        fl = sb["flat"]
        where = f"{ctx}, collection call {bi + 1}"
        if _tags(gb["obs"]) != [x["obs"] for x in fl]:
            probs.add(f"{site}:layout", f"{where}: observations {_tags(gb['obs'])} are not the environment-major rollout {[x['obs'] for x in fl]}")
            continue
        ok = expect_exact(probs, f"{site}:layout", f"{where}: rewards", gb["rew"], [x["rew"] for x in fl], ravel=True)
        if np.asarray(gb["term"]).reshape(-1).astype(int).tolist() != [x["term"] for x in fl]:
            probs.add(f"{site}:layout", f"{where}: terminated flags {np.asarray(gb['term']).reshape(-1).astype(int).tolist()} vs {[x['term'] for x in fl]}")
            ok = False
        if _tags(gb["last"]) != sb["last"]:
            probs.add(f"{site}:last_observation", f"{where}: returned last observation {_tags(gb['last'])}, specification {sb['last']}")
        nv = np.asarray(gb["nv"]).reshape(-1)
        if nv.shape != (len(fl),):
            probs.add(f"{site}:layout", f"{where}: next values of shape {np.asarray(gb['nv']).shape} for {len(fl)} transitions")
            continue
        # the next value of a step that did not terminate is V(the observation this step of this environment returned)
        bs = sb["bs"]
        for i, x in enumerate(fl):
            if x["term"] or exact.eq(nv[i], x["nv"]):
                continue
            ok = False
            together = sum(1 for y in fl if y["t"] == x["t"] and (y["term"] or y["trunc"]))
            what = (f"{where}: next value kept for environment {x['env']} step {x['t']} (observation {x['obs']}, "
                    f"{'episode truncated there, ' + str(together) + ' environment(s) finish at this step' if x['trunc'] else 'episode goes on'}) = {float(nv[i])!r}; "
                    f"value of the observation this step returned {'(the final observation of its episode) ' if x['trunc'] else ''}= {float(exact.q(x['nv']))!r}")
            if x["trunc"] and exact.eq(nv[i], x["devnv"]):
                probs.add(f"{site}:truncated_step_bootstraps_from_next_episode",
                          what + f"; it equals the value of the reset observation of the NEXT episode ({float(exact.q(x['devnv']))!r}): the estimates of this episode depend on another episode")
            else:
                probs.add(f"{site}:next_value", what)
            break
        if not ok or "adv" not in gb:
            if ok:
                probs.add("update_ppo:advantage_shape", f"{where}: the recorder on ppo.ppo_loss saw no advantages for this block")
            continue  # the estimates computed from a deviating rollout deviate as a consequence
        G, C, g, l = ppo_constants()
        adv, ret = gb["adv"], gb["ret"]
        if adv.shape != (len(fl),) or ret.shape != (len(fl),):
            probs.add("update_ppo:advantage_shape", f"{where}: advantages {adv.shape} / returns {ret.shape} for {len(fl)} transitions")
            continue
        for i, x in enumerate(fl):
            v = exact.q(x["v"])
            bad = None
            for name, got, off in (("advantage", adv[i], Fraction(0)), ("return", ret[i], v)):
                val, mag = form_value(x["form"], G, C)
                tol = (6 * len(x["form"]) + 2) * U32 * (mag + abs(off))
                if abs(frac(got) - (val + off)) > tol:
                    bad = (f"{where}: {name} of environment {x['env']} step {x['t']} = {float(got)!r}; GAE over this environment's rows of the block "
                           f"(gamma={g}, lambda={l}) = {float(val + off)!r} +- {float(tol):.2e}")
                    break
            if bad:
                probs.add("update_ppo:rollout_advantage_value", bad)
                break
    return probs


def select_rollouts(recs, seed, budget):
    """every class of vector step TLC lists (who goes on / terminates / is truncated, at a block end or not) at least
    once per number of environments (greedy cover, deterministic), then a seeded sample up to the budget"""
    recs = sorted(recs, key=lambda r: json.dumps([r["n"], r["scripts"], r["blocking"]]))
    want = {(r["n"], json.dumps(c)) for r in recs for c in r["classes"]}
    chosen, left = [], list(range(len(recs)))
    while want:
        best = max(left, key=lambda i: len(want & {(recs[i]["n"], json.dumps(c)) for c in recs[i]["classes"]}))
        want -= {(recs[best]["n"], json.dumps(c)) for c in recs[best]["classes"]}
        chosen.append(best)
        left.remove(best)
    n_cover = len(chosen)
    rng = np.random.default_rng([int(seed), 707])
    extra = max(0, min(len(left), budget - len(SETUPS) * n_cover))  # the cover runs in every set-up
    chosen += [left[i] for i in sorted(rng.choice(len(left), size=extra, replace=False))] if extra else []
    return [recs[i] for i in chosen], n_cover


# ------------------------------------------ one live EpisodeDataset object (ReturnsDataset.tla)
DS_INVS = ["TypeOK", "PrepareAnswersItsGamma", "ReturnsObeyRecurrence", "EpisodesIndependent"]
DS_ACTIONS = ["StartEpisode", "AddSample", "Prepare", "Length", "AverageReturn"]
DS_SITE = {"Prepare": "prepare_policy_gradient_dataset", "Length": "__len__", "AverageReturn": "average_return",
           "AddSample": "add_sample", "StartEpisode": "start_episode"}


def ds_consts(max_eps, max_samples, nrew, quarter, emit):
    return dict(EMIT=emit, MaxEps=max_eps, MaxSamples=max_samples, NRew=nrew, Quarter=quarter)


class DatasetAdapter:
    """ONE real EpisodeDataset; `last` mirrors the model's history variable (discount factor of the most recent
    prepare since the last mutation).  Sample i carries the observation tag [i], action 1 + i % 2, successor [i + 1/2]."""

    def __init__(self):
        from rl_blox.algorithm.reinforce import EpisodeDataset

        self.ds = EpisodeDataset()
        self.last = []
        self.n = 0

    def add(self, r4):
        self.ds.add_sample(np.array([float(self.n)]), 1 + self.n % 2, np.array([self.n + 0.5]), r4 / 4.0)
        self.n += 1

    def fresh(self):
        """a newly built data set with the same content"""
        other = DatasetAdapter()
        for ep in self.ds.episodes:
            other.ds.start_episode()
            for _, _, _, r in ep:
                other.add(int(round(float(r) * 4)))
        return other

    def prepare(self, g):
        import gymnasium as gym

        obs, act, nobs, ret, disc = self.ds.prepare_policy_gradient_dataset(gym.spaces.Discrete(2, start=1), float(exact.q(g)))
        return {"obs": np.asarray(obs).reshape(-1).tolist(), "act": np.asarray(act).reshape(-1).tolist(),
                "nobs": np.asarray(nobs).reshape(-1).tolist(), "ret": np.asarray(ret).reshape(-1), "disc": np.asarray(disc).reshape(-1)}


def ds_project(ad):
    return {"eps": [[int(round(float(r) * 4)) for _, _, _, r in ep] for ep in ad.ds.episodes], "last": ad.last}


def _vec_eq(got, want):
    got = np.asarray(got)
    return got.shape == (len(want),) and all(exact.eq(g, w) for g, w in zip(got.tolist(), want))


def ds_step(ad, op, args, exp, pre, post):
    from ..graph import Mismatch

    if op == "StartEpisode":
        ad.ds.start_episode()
        ad.last = []
    elif op == "AddSample":
        ad.add(int(args[0]))
        ad.last = []
    elif op == "Length":
        if len(ad.ds) != exp[0]:
            raise Mismatch(f"len() = {len(ad.ds)}, specification {exp[0]}", code="value")
    elif op == "AverageReturn":
        got, want = ad.ds.average_return(), exact.q(exp[0])
        if abs(frac(got) - want) > abs(want) * Fraction(1, 2**52):  # exact sum of dyadic rewards, one float64 division
            raise Mismatch(f"average_return() = {got!r}, specification {want}", code="value")
    elif op == "Prepare":
        g = args[0]
        ad.last = list(g)
        got = ad.prepare(g)
        content = [[str(Fraction(r4, 4)) for r4 in ep] for ep in ds_project(ad)["eps"]]
        for field, label in (("ret", "returns"), ("disc", "gamma_discount")):
            if _vec_eq(got[field], exp[field]):
                continue
            what = (f"{label} for gamma={exact.q(g)} on rewards {content}: {np.asarray(got[field]).tolist()}, specification "
                    f"{[str(exact.q(x)) for x in exp[field]]}")
            # is it the history of this object?  a newly built data set with identical content, asked once
            if _vec_eq(ad.fresh().prepare(g)[field], exp[field]):
                raise Mismatch(what + "; a newly built data set with the same content returns the specified values: the estimates depend on what this object was asked before",
                               code=f"{label}_depend_on_earlier_calls")
            raise Mismatch(what, code=label)
        n = len(exp["order"])
        if got["obs"] != [float(i) for i in exp["order"]] or got["nobs"] != [i + 0.5 for i in exp["order"]] or got["act"] != [i % 2 for i in range(n)]:
            raise Mismatch(f"samples out of order: observations {got['obs']}, actions {got['act']}, successors {got['nobs']}", code="layout")
    else:  # pragma: no cover
        raise AssertionError(op)


def ds_violation(rep, v, how):
    op = v["path"][-1]["op"]
    rep.violation(f"EpisodeDataset.{DS_SITE.get(op, op)}:{v['code']}", f"EpisodeDataset ({how}, {len(v['path'])} calls on one object: "
                  f"{' '.join(p['op'] + (str(p['args']) if p['args'] else '') for p in v['path'][-8:])}): {v['what']}",
                  {"mode": "dataset", "path": v["path"]})


# ------------------------------------- perturbation tests on floats (beyond the lattice)
def float_case(dep, seed):
    """dep: one TLC 'deps' record (termination pattern + irrelevant / relevant cells per output).
    Random float data; every irrelevant cell perturbed -> output bitwise equal, every relevant one -> output moves."""
    kind = dep["of"]
    rng = np.random.default_rng([int(seed), zlib.crc32(json.dumps(dep["D"]).encode()), len(kind)])
    B, Hs = dep["B"], dep["Hs"]
    H = max(Hs)
    site = SITE[kind]
    probs = Problems()
    par = {"g": float(rng.uniform(0.4, 0.95)), "l": float(rng.uniform(0.4, 0.95)), "rs": 2.0, "trs": 1.5,
           "wd": 1.0, "wr": 0.5, "wdn": 0.25, "et": True, "bins": [-2.0, -1.0, 0.0, 1.0, 2.0], "norm": bool(rng.integers(2))}

    def rnd(shape):
        return rng.uniform(-1.5, 1.5, size=shape).astype(np.float32)

    if kind == "rtg":
        data = {"R": [rnd(h).astype(np.float64).tolist() for h in Hs]}
    else:
        data = {"R": rnd((B, H)), "V": rnd((B, H)), "W": rnd((B, H)), "X": rnd(B), "D": imat(dep["D"])}
    if kind == "enc":
        data.update(pd=rnd((B, H)), pz=rnd((B, H, 2)), tz=rnd((B, H, 2)), logits=rnd((B, H, 5)))

    def outputs(d):
        o = EVAL[kind](par, d)
        if kind == "rtg":
            res, pos = {}, 0
            for b, h in enumerate(Hs):
                for t in range(h):
                    res[(b + 1, t + 1)] = (np.float64(o["per_ep"][b][t]).tobytes(), np.float32(o["ret"][pos + t]).tobytes())
                pos += h
            return res
        if kind == "nstep":
            return {**{(b + 1, 1): (o["ret"][b].tobytes(),) for b in range(B)}, **{(b + 1, 2): (o["disc"][b].tobytes(),) for b in range(B)}}
        if kind == "gae":
            return {(1, t + 1): (o["adv"][t].tobytes(), o["ret"][t].tobytes()) for t in range(H)}
        if kind == "a2c":
            return {(b + 1, t + 1): (o["adv"][t * B + b].tobytes(), o["ret"][t * B + b].tobytes()) for b in range(B) for t in range(H)}
        if kind == "ppo":
            if "update_error" in o:
                raise RuntimeError(o["update_error"])
            return {(b + 1, t + 1): (o["adv"][b * H + t].tobytes(), o["ret"][b * H + t].tobytes()) for b in range(B) for t in range(H)}
        if kind == "mrq":
            return {(b + 1, 0): (o["td"][b].tobytes(),) for b in range(B)}
        return {(0, 0): tuple((k, o[k].tobytes()) for k in ("dyn", "rew", "done", "rmse", "total"))}

    def moved(x):
        """another value of the same magnitude class, at least 0.5 away, still inside (-1.5, 1.5)"""
        u = rng.uniform(0.5, 1.5, size=np.shape(x))
        return (np.asarray(x) - np.where(np.asarray(x) >= 0, 1.0, -1.0) * u).astype(np.asarray(x).dtype)

    def perturbed(cell):
        f, b, h = cell
        d = {k: (np.array(v, copy=True) if isinstance(v, np.ndarray) else [list(x) for x in v]) for k, v in data.items()}
        if f == "X":
            d["X"][b - 1] = moved(d["X"][b - 1])
        elif f == "D":
            d["D"][b - 1, h - 1] = 1 - d["D"][b - 1, h - 1]
        elif kind == "enc" and f == "V":
            for k in ("pd", "pz", "tz", "logits"):
                d[k][b - 1, h - 1] = moved(d[k][b - 1, h - 1])
        elif kind == "rtg":
            d["R"][b - 1][h - 1] = float(moved(np.float64(d["R"][b - 1][h - 1])))
        else:
            d[f][b - 1, h - 1] = moved(d[f][b - 1, h - 1])
        return d

    try:
        base = outputs(data)
    except Exception as e:  # noqa: BLE001
        if kind == "a2c" and B == 1:
            probs.add("prepare_a2c_batch:single_env_raises", f"one parallel environment (T={H}): {_exc(e)}")
        elif kind == "ppo" and B * H == 1:
            probs.add("ppo.collect_trajectories:single_transition_squeezed", f"rollout of one step of one environment: {_exc(e)}")
        else:
            probs.add(f"{site}:raises:{type(e).__name__}", _exc(e))
        return probs, 0
    cells = {tuple(c) for d in dep["deps"] for c in d["irr"] + d["rel"]}
    n = 0
    for cell in sorted(cells):
        got = outputs(perturbed(cell))
        n += 1
        for d in dep["deps"]:
            o = tuple(d["o"])
            if list(cell) in d["irr"] and got[o] != base[o]:
                if kind == "ppo" and cell[1] != o[0]:
                    key = "update_ppo:gae_crosses_env_boundary"
                    what = f"advantage of environment {o[0]} step {o[1]} changes when {cell[0]}[env {cell[1]}][step {cell[2]}] of ANOTHER environment changes"
                elif kind == "enc":
                    comp = [k for (k, x), (_, y) in zip(got[o], base[o]) if x != y]
                    first = "done" if "done" in comp else "rmse" if "rmse" in comp else comp[0]
                    key = {"done": f"{site}:done_loss_not_masked", "rmse": f"{site}:reward_mse_not_masked"}.get(first, f"{site}:noncausal:{first}")
                    what = f"loss components {comp} change when {cell[0]}[row {cell[1]}][step {cell[2]}], a cell after that row's first terminated step, changes"
                    if first == "done" and [c for c in comp if c not in ("done", "total", "rmse")]:
                        probs.add(f"{site}:noncausal:{[c for c in comp if c not in ('done', 'total', 'rmse')][0]}", what)
                    if "rmse" in comp and first != "rmse":
                        probs.add(f"{site}:reward_mse_not_masked", what)
                else:
                    key = f"{site}:noncausal"
                    what = f"output {o} changes when {cell[0]}[row {cell[1]}][step {cell[2]}] outside its dependency set changes"
                probs.add(key, what + f" (terminated flags {dep['D']})")
            if list(cell) in d["rel"] and got[o] == base[o]:
                probs.add(f"{site}:ignores_relevant_input", f"output {o} does not react to {cell[0]}[row {cell[1]}][step {cell[2]}] inside its dependency set (terminated flags {dep['D']})")
    return probs, n


# ------------------------------------------------------------------------ run
def nontrivial(rec):
    k = rec["kind"]
    if k == "rtg":
        return sum(len(e) for e in rec["R"]) >= 2
    d = rec["D"] if k != "gae" else [rec["D"]]
    return len(d) * len(d[0]) >= 2 and any(any(r) for r in d)


def run(rep):
    import time

    quick = rep.tier == "quick"
    t0 = time.time()
    timing = rep.extra.setdefault("timing_s", {})

    def lap(name):
        nonlocal t0
        timing[name] = round(timing.get(name, 0) + time.time() - t0, 1)
        t0 = time.time()

    tlc.sany("Returns")
    import os
    from concurrent.futures import ThreadPoolExecutor

    workers = max(2, int(os.environ.get("VERIF_TLC_WORKERS", "16")))
    if quick:
        law = dict(shapes=[11, 12, 13, 21, 22, 23, 41], K=2, exh=2, exh_kinds=("rtg", "nstep"))
        rel = dict(shapes=[11, 12, 13, 21, 22], K=2, exh=1)
        gen = dict(shapes=[11, 12, 13, 21, 22, 23, 41], K=1, exh=1, exh_kinds=("rtg", "nstep", "gae"))
        float_cap = 16
        # rollouts: (N, T, episode lengths, episodes per script, block sizes); data set graphs: (episodes, samples, rewards, 1/4 in the lattice)
        roll_cfgs = [(2, 4, [1, 2], 2, [4, 2]), (3, 4, [1, 2, 3], 1, [4])]
        roll_budget = 140
        ds_cover, ds_walk, ds_walks = (2, 3, 2, False), (3, 4, 2, False), (60, 14)
        # A2C rollouts: (N, T, block sizes, flag codes terminated + 2 truncated); discount pairs; budget of non-exhaustive runs
        a2c_cfgs, a2c_ngl, a2c_budget = [(2, 2, [2, 1], [0, 1, 2, 3]), (2, 3, [3], [0, 2]), (3, 2, [2], [0, 2])], 2, 90
        # MR.Q buffer model: (encoder horizons, q horizons, buffer_size, environment steps)
        mrq_model = ([1, 2, 3], [1, 2, 3], 5, 6)
    else:
        law = dict(shapes=[11, 12, 13, 14, 21, 22, 23, 24, 41, 42], K=3, exh=2, exh_kinds=("rtg", "nstep", "gae"))
        rel = dict(shapes=[11, 12, 13, 14, 21, 22, 23, 41], K=2, exh=1)
        gen = dict(shapes=[11, 12, 13, 14, 21, 22, 23, 24, 41, 42], K=3, exh=2, exh_kinds=("rtg", "nstep", "gae"))
        float_cap = 150
        roll_cfgs = [(2, 6, [1, 2, 3], 2, [6, 3, 2]), (3, 6, [1, 2, 3], 1, [6, 3]), (3, 4, [1, 2], 2, [4])]
        roll_budget = 1500
        ds_cover, ds_walk, ds_walks = (3, 4, 2, True), (3, 5, 2, True), (600, 20)
        a2c_cfgs, a2c_ngl, a2c_budget = [(2, 2, [2, 1], [0, 1, 2, 3]), (2, 3, [3, 1], [0, 1, 2, 3]), (3, 2, [2, 1], [0, 1, 2, 3]), (2, 4, [4, 2], [0, 2])], 4, 1500
        mrq_model = ([1, 2, 3, 4], [1, 2, 3, 4], 6, 8)
    rep.rule = (
        "TLC stages a vector per operation (rtg, nstep, gae, a2c, ppo, mrq, enc): shape B x H in %s (coded 10B+H; B=4 encoder only), every "
        "gamma/lambda in {0,1/2,1} (+1/4 in the thorough tier), EVERY termination pattern, data exhaustive over the 3-value lattices for "
        "B*H <= %d cells (%s; other operations 1 cell) and K=%d seeded dense fills otherwise; each completed vector is emitted once with the "
        "exact expected result and replayed into the real function; a vector is non-trivial when it has >= 2 cells and at least one "
        "terminated step (rtg: >= 2 rewards); the REPRESENTATION of the reward sequence is a component of the vector chosen by TLC (rtg: list of Python "
        "floats / ints / numpy int64 scalars / mixed ints and floats, numpy int64 / int32 / float32 (/ float64) arrays, also as the elements given to "
        "EpisodeDataset.add_sample; nstep, gae: jax float32 / int32, numpy int64 (/ float64) arrays) - every rtg / nstep / gae vector in every "
        "admissible representation, same expected values" % (gen["shapes"], gen["exh"], ",".join(gen["exh_kinds"]), gen["K"])
        + "; rollouts: TLC chooses per sub-environment a cyclic episode script and the split into collection calls %s (N, T, lengths, "
        "episodes per script, block sizes), every class of vector step (per environment goes on / terminated / truncated, at a block end or "
        "not) is replayed at least once in EVERY set-up (train_ppo with / without a logger, collect_trajectories + update_ppo on the bare vector environment with a logger) plus a seeded sample rotating through the set-ups, %d runs in all; EpisodeDataset: every transition of the state graph "
        "%s (episodes, samples, rewards, 1/4) once, %d random histories of <= %d calls on the graph %s" % (roll_cfgs, roll_budget, ds_cover, ds_walks[0], ds_walks[1], ds_walk)
        + "; A2C rollouts: TLC chooses the (terminated, truncated) flags of every step of every sub-environment %s (N, T, block sizes, flag codes "
        "terminated + 2 truncated), ALL patterns; every rollout of the smallest lattice in one collection call is replayed for %d discount pairs, "
        "of the others a cover of the vector-step classes in both set-ups (collect_trajectories + prepare_a2c_batch / train_a2c) + a seeded sample "
        "(budget %d); non-trivial: a step truncated but not terminated; MR.Q: the buffer model over horizons x all episode histories %s "
        "(encoder horizons, q horizons, buffer_size, steps), and real train_mrq runs (own buffer, seeded episode scripts with truncated episodes "
        "longer than the horizons) for the horizon pairs %s whose every recorded critic / encoder batch row is judged by TLC"
        % (a2c_cfgs, a2c_ngl, a2c_budget, mrq_model, [(x["eh"], x["qh"], x["mode"]) for x in sig.mrq_scenarios(rep.tier, rep.seed)])
    )

    # all TLC runs are independent processes: start them together, bind while the property runs finish
    DEVS = (
        (["ppo"], [21, 22], "DevFlatScanIsPerEnv"),
        (["gae"], [12], "DevNoCutIsGAE"),
        (["enc"], [22], "DevDoneBroadcastIsMasked"),
        (["ppoflat"], [21, 22], "Causal"),
        (["rtg"], [12], "DevStoredAsRewardTypeIsRTG"),
    )
    pool = ThreadPoolExecutor(max_workers=20)
    # 1. laws (recurrence = closed form, lambda limits, cut reward-to-go, bootstrap ignored) on the larger lattice
    f_law = pool.submit(
        tlc.run, "Returns",
        tlc.cfg_text(constants=consts(ALL_KINDS, law["shapes"], law["K"], law["exh"], rep.seed, quarter=not quick, exh_kinds=law["exh_kinds"]), invariants=LAW_INVS),
        workers=max(1, workers // 2 - 1), tag="c07law", timeout=1500)
    # 2. causality (relational) + tightness of the dependency sets on the smaller lattice
    f_rel = pool.submit(
        tlc.run, "Returns",
        tlc.cfg_text(constants=consts(ALL_KINDS, rel["shapes"], rel["K"], rel["exh"], rep.seed), invariants=REL_INVS),
        workers=max(1, workers // 2 - 1), coverage=True, tag="c07rel", timeout=1500)
    # 4. generation: vectors + dependency structures
    f_gen = pool.submit(
        tlc.run, "Returns",
        tlc.cfg_text(constants=consts(ALL_KINDS, gen["shapes"], gen["K"], gen["exh"], rep.seed, quarter=not quick, emit=True, deps=True, exh_kinds=gen["exh_kinds"],
                            reprs=REPRS_QUICK if quick else REPRS_ALL)),
        workers=1, tag="c07gen", timeout=1500)
    # 3. canaries on the model: every named deviation must be refuted
    # (the representation deviation needs every reward pair of a two-step episode: ExhCells = 2)
    f_dev = [pool.submit(tlc.run, "Returns", tlc.cfg_text(constants=consts(kinds, shapes, 2, 2 if kinds == ["rtg"] else 1, rep.seed, reprs=("int",), exh_kinds=("rtg",)), invariants=[inv]), workers=1, tag="c07dev")
             for kinds, shapes, inv in DEVS]
    # 3b. rollouts of a vector environment (invariants + generation in one single-worker run: small models) and
    #     the deviations "only the last finished environment keeps its final observation" / "none does"
    tlc.sany("ReturnsRollout")
    tlc.sany("ReturnsDataset")
    f_roll = [pool.submit(tlc.run, "ReturnsRollout", tlc.cfg_text(constants=roll_consts(n, t, lens, neps, bss, True), invariants=ROLL_INVS),
                          workers=1, coverage=True, tag="c07roll", timeout=1500) for n, t, lens, neps, bss in roll_cfgs]
    f_rolldev = [pool.submit(tlc.run, "ReturnsRollout", tlc.cfg_text(constants=roll_consts(2, 2, [1, 2], 1, [2], False, variant, setup), invariants=[inv]),
                             workers=1, tag="c07rolldev") for variant, setup, inv in ROLL_DEVS]
    # 3c. one live EpisodeDataset: state graphs (transition coverage on the smaller, histories on the larger one)
    f_dscover = pool.submit(tlc.run, "ReturnsDataset", tlc.cfg_text(constants=ds_consts(*ds_cover, True)), workers=1, tag="c07dscover", timeout=1500)
    f_dswalk = pool.submit(tlc.run, "ReturnsDataset", tlc.cfg_text(constants=ds_consts(*ds_walk, True), invariants=DS_INVS), workers=1, coverage=True,
                           tag="c07dswalk", timeout=1500)
    f_dsdev = pool.submit(tlc.run, "ReturnsDataset", tlc.cfg_text(next="NextMemo", constants=ds_consts(2, 2, 2, False, False), invariants=["PrepareAnswersItsGamma"]),
                          workers=1, tag="c07dsdev")
    import jax  # noqa: F401 - warm the import while TLC runs
    import rl_blox.algorithm.ppo  # noqa: F401
    import rl_blox.algorithm.mrq  # noqa: F401

    def finish_properties():
        r = f_law.result()
        rep.add_tlc(r, "Returns laws: " + ",".join(LAW_INVS))
        if not r.ok:
            rep.violation(f"spec:Returns:{r.violated}", f"design-level violation of {r.violated}", r.error_trace)
        r = f_rel.result()
        rep.add_tlc(r, "Returns causality: Causal, DepTight")
        rep.extra["relational_vectors"] = r.distinct
        if not r.ok:
            rep.violation(f"spec:Returns:{r.violated}", f"design-level violation of {r.violated}", r.error_trace)
        else:
            tlc.require_covered(r, ACTIONS)
        for (kinds, shapes, inv), f in zip(DEVS, f_dev):
            if f.result().violated != inv:
                raise tlc.MachineryError(f"canary: deviation {inv} ({kinds}) not refuted by TLC")
        for (variant, setup, inv), f in zip(ROLL_DEVS, f_rolldev):
            if f.result().violated != inv:
                raise tlc.MachineryError(f"canary: rollout deviation {variant} (set-up {setup}) not refuted by {inv}")
        if f_dsdev.result().violated != "PrepareAnswersItsGamma":
            raise tlc.MachineryError("canary: reward to go memoised per episode position (PrepareMemo) not refuted by PrepareAnswersItsGamma")
        for (variant, inv), f in zip(sig.A2C_DEVS, f_a2cdev):
            if f.result().violated != inv:
                raise tlc.MachineryError(f"canary: A2C rollout deviation {variant} not refuted by {inv}")
        r = f_mrq.result()
        rep.add_tlc(r, "ReturnsMRQ horizons %s x %s, buffer_size %d, %d steps: " % mrq_model + ",".join(sig.MRQ_INVS))
        if not r.ok:
            rep.violation(f"spec:ReturnsMRQ:{r.violated}", f"design-level violation of {r.violated}", r.error_trace)
        for (variant, inv), f in zip(sig.MRQ_DEVS, f_mrqdev):
            if f.result().violated != inv:
                raise tlc.MachineryError(f"canary: MR.Q buffer-horizon deviation {variant} not refuted by {inv}")

    lap("imports")
    # 0. MR.Q: the real train_mrq with its own buffer for several horizon pairs; the recorded batches go to TLC in
    #    the background (ReturnsMRQTrace) and the verdicts are collected in step 8c
    mrq_runs = [sig.run_mrq_scenario(sc) for sc in sig.mrq_scenarios(rep.tier, rep.seed)]
    f_mrqtrace = pool.submit(sig.judge_mrq_runs, mrq_runs)
    # (the TLC runs below are started only now: the burst of JVMs at the start competes with the imports, and
    #  their results are needed in steps 8b / 8c and at the end)
    # 3d. A2C rollouts judged against what the environment emitted (invariants + generation in one run per lattice) and
    #     the deviations "terminated OR truncated stored as / read as the termination"
    f_a2c = [pool.submit(tlc.run, "ReturnsA2CRollout", tlc.cfg_text(constants=sig.a2c_consts(n, t, bss, codes, a2c_ngl, rep.seed, True), invariants=sig.A2C_INVS),
                         workers=1, coverage=(i == 0), tag="c07a2c", timeout=1500) for i, (n, t, bss, codes) in enumerate(a2c_cfgs)]
    f_a2cdev = [pool.submit(tlc.run, "ReturnsA2CRollout", tlc.cfg_text(constants=sig.a2c_consts(2, 2, [2], [0, 1, 2, 3], 1, rep.seed, False, variant), invariants=[inv]),
                            workers=1, tag="c07a2cdev", env=sig.FAST_JVM) for variant, inv in sig.A2C_DEVS]
    # 3e. MR.Q: train_mrq's buffer construction + sampling horizons on a model of the subtrajectory buffer, and the
    #     deviations "buffer horizon = encoder_horizon" / "= q_horizon"; non-vacuity: admissible starts exist
    f_mrq = pool.submit(tlc.run, "ReturnsMRQ", tlc.cfg_text(constants=sig.mrq_consts(*mrq_model), invariants=sig.MRQ_INVS),
                        workers=max(1, workers // 4), tag="c07mrq", timeout=1500)
    f_mrqdev = [pool.submit(tlc.run, "ReturnsMRQ", tlc.cfg_text(constants=sig.mrq_consts([1, 3], [1, 3], 6, 6, variant), invariants=[inv]),
                            workers=1, tag="c07mrqdev", env=sig.FAST_JVM) for variant, inv in sig.MRQ_DEVS]
    pool.shutdown(wait=False)
    lap("mrq_runs")
    g = f_gen.result()
    rep.add_tlc(g, "Returns generation")
    vectors = [e for e in g.emitted if e["kind"] != "deps"]
    deps = [e for e in g.emitted if e["kind"] == "deps"]
    by_kind = {k: [v for v in vectors if v["kind"] == k] for k in ALL_KINDS}
    if any(not v for v in by_kind.values()) or {d["of"] for d in deps} != set(ALL_KINDS):
        raise tlc.MachineryError(f"generation is missing an operation: { {k: len(v) for k, v in by_kind.items()} }")

    lap("tlc_generation")
    # 5. binding canary: a corrupted expected value must be noticed for every operation (on a vector the
    #    implementation handles, so that the corruption is the only difference)
    for k in ALL_KINDS:
        prefer = [v for v in by_kind[k] if (k == "a2c" and len(v["R"]) == 2) or (k == "ppo" and len(v["R"]) == 1 and len(v["R"][0]) >= 2)
                  or (k == "enc" and len(v["R"]) >= 2) or k not in ("a2c", "ppo", "enc")]
        noticed = None
        for v in (prefer or by_kind[k])[1::7][:6]:
            base = {(p["key"], p["what"]) for p in check_vector(v)}
            if any(":raises" in key for key, _ in base):
                continue  # the implementation rejects this vector outright (reported below); try another one
            noticed = any((p["key"], p["what"]) not in base for p in check_vector(v, corrupt=True))
            if noticed:
                break
        if noticed is False:
            raise tlc.MachineryError(f"binding canary: corrupted expected value of a {k} vector went unnoticed")

    lap("binding_canary")
    # 6. replay every vector into the real code
    checked = 0
    for k in ALL_KINDS:
        for v in by_kind[k]:
            checked += 1
            for pr in check_vector(v):
                rep.violation(pr["key"], pr["what"], {"mode": "vector", "record": v})
        lap("replay_" + k)
        if by_kind[k]:
            rep.sample({"operation": k, "vector": by_kind[k][len(by_kind[k]) * 2 // 3]})
    rep.traces = checked
    rep.extra["vectors_per_operation"] = {k: len(v) for k, v in by_kind.items()}
    rep.extra["vectors_per_reward_representation"] = {k: {r: sum(1 for v in by_kind[k] if v.get("repr") == r) for r in sorted({v.get("repr") for v in by_kind[k]})}
                                                      for k in ("rtg", "nstep", "gae")}

    # 7. perturbation tests on random floats with TLC's dependency sets
    rng = np.random.default_rng(rep.seed)
    evals = 0
    fcases = 0
    for k in ALL_KINDS:
        ds = [d for d in deps if d["of"] == k]
        if len(ds) > float_cap:
            # always keep the largest shapes' patterns in play: sample without replacement, seeded
            ds = [ds[i] for i in sorted(rng.choice(len(ds), size=float_cap, replace=False))]
        for d in ds:
            probs, n = float_case(d, rep.seed)
            evals += n
            fcases += 1
            for pr in probs:
                rep.violation(pr["key"], pr["what"], {"mode": "float", "dep": d, "seed": rep.seed})
    lap("float_perturbation")

    # 8. rollouts: train_ppo on scripted vector environments whose sub-environments finish alone / together,
    #    by termination / by truncation, in the middle / at the end of a collection call
    rolls = []
    for (n, t, lens, neps, bss), f in zip(roll_cfgs, f_roll):
        r = f.result()
        rep.add_tlc(r, f"ReturnsRollout N={n} T={t} lengths {lens} x{neps} blocks {bss}: " + ",".join(ROLL_INVS))
        if not r.ok:
            rep.violation(f"spec:ReturnsRollout:{r.violated}", f"design-level violation of {r.violated}", r.error_trace)
            continue
        tlc.require_covered(r, ROLL_ACTIONS)
        rolls += r.emitted
    lap("tlc_rollouts_wait")
    if rolls:
        sel, n_cover = select_rollouts(rolls, rep.seed, roll_budget)
        # binding canary on a rollout the implementation handles as specified (so that the corruption is the only
        # difference); if none of the first few is, the deviations are reported below and the canary has nothing to add
        for i, v in enumerate(sel[:6]):
            if check_rollout(v, setup=SETUPS[i % 3]):
                continue
            if not check_rollout(v, corrupt=True, setup=SETUPS[i % 3]):
                raise tlc.MachineryError("binding canary: corrupted expected next value of a rollout went unnoticed")
            break
        # the rollouts that cover the step classes run in ALL set-ups, the seeded sample rotates through them
        plan = [(v, su) for v in sel[:n_cover] for su in SETUPS] + [(v, SETUPS[i % 3]) for i, v in enumerate(sel[n_cover:])]
        for v, su in plan:
            for pr in check_rollout(v, setup=su):
                rep.violation(pr["key"], pr["what"], {"mode": "rollout", "record": v, "setup": su})
        rep.traces += len(plan)
        checked += len(plan)
        together = [v for v in sel if any(sum(1 for o in c[0] if o) >= 2 and 2 in c[0] for c in v["classes"])]
        rep.extra["rollouts"] = {"specified": len(rolls), "replayed": len(sel), "runs": len(plan), "cover": n_cover,
                                 "runs_per_setup": {su: sum(1 for _, x in plan if x == su) for su in SETUPS}, "step_classes": len({(v["n"], json.dumps(c)) for v in rolls for c in v["classes"]}),
                                 "replayed_with_simultaneous_ends_incl_truncation": len(together),
                                 "collection_calls": sum(len(v["blocks"]) for v, _ in plan)}
        if together:
            v = together[len(together) // 2]
            rep.sample({"operation": "rollout", "scripts": v["scripts"], "blocking": v["blocking"], "first_block": v["blocks"][0]["flat"][: 2 * v["blocks"][0]["bs"]]})
    lap("replay_rollouts")

    # 8b. A2C rollouts: every (terminated, truncated) pattern the scripted vector environment emits -> rollout buffer ->
    #     prepare_a2c_batch, judged against the recurrence on the EMITTED sequences
    a2c_recs = []
    for (n, t, bss, codes), f in zip(a2c_cfgs, f_a2c):
        r = f.result()
        rep.add_tlc(r, f"ReturnsA2CRollout N={n} T={t} blocks {bss} flag codes {codes}: " + ",".join(sig.A2C_INVS))
        if not r.ok:
            rep.violation(f"spec:ReturnsA2CRollout:{r.violated}", f"design-level violation of {r.violated}", r.error_trace)
            continue
        if r.coverage:
            tlc.require_covered(r, sig.A2C_ACTIONS)
        a2c_recs += r.emitted
    lap("tlc_a2c_rollouts_wait")
    if a2c_recs:
        n_runs = sig.run_a2c_rollouts(rep, a2c_recs, a2c_budget)
        rep.traces += n_runs
        checked += n_runs
    lap("replay_a2c_rollouts")

    # 8c. MR.Q: TLC's verdicts on every batch row train_mrq handed to its critic / encoder update
    res, has_canary = f_mrqtrace.result()
    rep.add_tlc(res, "ReturnsMRQTrace: recorded critic / encoder batch rows of %d train_mrq runs" % len(mrq_runs))
    lap("tlc_mrq_trace_wait")
    mrq_probs, mrq_stats = sig.mrq_verdicts(mrq_runs, res, has_canary)
    if mrq_stats["values_compared"] and not any(pr["key"] == "train_mrq:critic_n_step_return" and pr not in base
                                                for probs, base in zip(sig.mrq_verdicts(mrq_runs, res, has_canary, corrupt=True)[0], mrq_probs) for pr in probs):
        raise tlc.MachineryError("binding canary: corrupted expected n-step return of the recorded critic rows went unnoticed")
    for run, probs in zip(mrq_runs, mrq_probs):
        for pr in probs:
            rep.violation(pr["key"], pr["what"], {"mode": "mrq_run", "scenario": run["scenario"]})
    rep.traces += len(mrq_runs)
    checked += mrq_stats["rows_judged"]
    rep.extra["mrq_runs"] = dict(mrq_stats, runs=[{"encoder_horizon": r["eh"], "q_horizon": r["qh"], "mode": r["scenario"]["mode"], "episodes": r["eps"],
                                                  "critic_batches": r["calls"]["critic"], "encoder_batches": r["calls"]["encoder"], "distinct_rows": len(r["rows"])} for r in mrq_runs])
    ex = next(({"operation": "train_mrq critic row", "encoder_horizon": r["eh"], "q_horizon": r["qh"], "episodes": r["eps"], "row": row}
               for r in mrq_runs for row in r["rows"] if row["kind"] == "critic" and r["eps"][row["obs"][0]][1] == "trunc"), None)
    if ex:
        rep.sample(ex)
    lap("mrq_verdicts")

    # 9. one live EpisodeDataset: every transition of the smaller state graph once (cover), then histories of
    #    mutators and observers on ONE object drawn from the larger graph (walks)
    from .. import graph

    r = f_dscover.result()
    rep.add_tlc(r, "ReturnsDataset graph %s (transition coverage)" % (ds_cover,))
    w = f_dswalk.result()
    rep.add_tlc(w, "ReturnsDataset graph %s (histories): " % (ds_walk,) + ",".join(DS_INVS))
    if not w.ok:
        rep.violation(f"spec:ReturnsDataset:{w.violated}", f"design-level violation of {w.violated}", w.error_trace)
    else:
        tlc.require_covered(w, DS_ACTIONS)
    lap("tlc_dataset_wait")
    if r.emitted:
        G = graph.Graph(r.emitted)
        root = G.roots()[0]
        # binding canary: a corrupted expected reward to go must be noticed
        e = next(e for e in r.emitted if e["op"] == "Prepare" and len(e["exp"]["ret"]) >= 2)
        bad = json.loads(json.dumps(e["exp"]))
        bad["ret"][0] = [bad["ret"][0][0] * 2 + 3 * bad["ret"][0][1], bad["ret"][0][1] * 2]
        ad = DatasetAdapter()
        try:
            for ep in e["pre"]["eps"]:
                ad.ds.start_episode()
                for r4 in ep:
                    ad.add(r4)
        except Exception:  # noqa: BLE001 - reported by the transition coverage below
            pass
        try:
            ds_step(ad, "Prepare", e["args"], bad, None, None)
            noticed = False
        except graph.Mismatch:
            noticed = True
        except Exception:  # noqa: BLE001 - raised by the code under test: reported by the transition coverage below
            noticed = True
        if not noticed:
            raise tlc.MachineryError("binding canary: corrupted expected reward to go of a Prepare went unnoticed")
        res = graph.cover(G, root, DatasetAdapter, ds_step, ds_project)
        for v in res["violations"]:
            ds_violation(rep, v, "transition coverage")
        rep.traces += res["edges_tested"]
        checked += res["edges_tested"]
        rep.extra["dataset_graph"] = {"states": len(G.state), "edges_tested": res["edges_tested"],
                                      "prepare_after_prepare_with_other_gamma": sum(1 for x in r.emitted if x["op"] == "Prepare" and x["pre"]["last"] and x["pre"]["last"] != x["args"][0])}
        ex = [x for x in r.emitted if x["op"] == "Prepare" and x["pre"]["last"] and x["pre"]["last"] != x["args"][0] and len(x["pre"]["eps"]) == 2 and len(x["pre"]["eps"][0]) == 2]
        if ex:
            rep.sample({"operation": "EpisodeDataset", "transition": ex[len(ex) // 2]})
    lap("dataset_cover")
    if w.emitted:
        G2 = graph.Graph(w.emitted)
        wres = graph.walks(G2, G2.roots()[0], DatasetAdapter, ds_step, ds_project, n=ds_walks[0], max_len=ds_walks[1], seed=rep.seed + 7)
        for v in wres["violations"]:
            ds_violation(rep, v, "history")
        rep.traces += wres["walks"]
        checked += wres["steps"]
        rep.extra["dataset_walks"] = {"walks": wres["walks"], "steps": wres["steps"], "graph_states": len(G2.state), "graph_edges": G2.n_edges}
    lap("dataset_walks")
    finish_properties()
    lap("tlc_properties_wait")
    rep.extra["float_perturbation_cases"] = fcases
    rep.extra["float_perturbation_evaluations"] = evals
    rep.traces += fcases
    rep.evaluations = checked + evals
    rep.distinct = len({json.dumps(v, sort_keys=True) for v in vectors if nontrivial(v)})
    rep.exhaustive = False  # complete over shapes x discount lattice x termination patterns; data beyond ExhCells cells is sampled
    rep.extra["enumerated_completely"] = "operations x shapes x gamma/lambda lattice x all termination patterns; data lattice for <= %d cells (rtg, nstep, gae) / 1 cell" % gen["exh"]
    rep.assumptions += [
        "exhaustive over termination patterns, shapes and the gamma/lambda lattice within the bounds; data beyond %d cells is a seeded dense sample of the 3-value lattices, not exhaustive" % gen["exh"],
        "update_ppo fixes gamma=0.99, lambda=0.95: compared with TLC's symbolic closed form in (G, C) within (6*steps+2) float32 round-offs of the term magnitudes",
        "reward cross-entropy of the encoder compared as a multiple of ln 2 within N+H+2 ulp; everything else exact",
        "truncation boundaries inside a rollout are not treated as cuts of the accumulated advantage (the statement speaks of termination); the next value of a truncated step must be the value of the episode's own final observation",
        "A2C rollouts: the scripted vector environment has no auto-reset; the next value of a step is the value of the observation that step returned; truncation is no cut (as for PPO)",
        "MR.Q runs: windows are judged under the prefix reading (rows behind the first terminated step are ignored); the recorded critic batch is evaluated by the real mrq_loss with stub critics and reward scales 1 (exact), the routine's own reward scales are not dyadic; quick tier: the updates themselves are replaced by recorders",
        "EpisodeDataset: Prepare on a data set without samples has no specified result (the repository raises IndexError)",
        "reward representations: integer-typed representations carry the integer-valued lattice rewards {-1, 0, 2} (Returns!ReprFits); bool rewards and the value / next-value arrays of GAE are not varied; the A2C / PPO / MR.Q paths receive the rewards their own collection code stores",
        "trusted: scripted vector environment, table stubs, recorders interposed on ppo.ppo_loss / ppo.compute_gae, TLC",
    ]


def replay(path, rep):
    d = json.load(open(path))["replay"]
    if d["mode"] == "vector":
        probs = check_vector(d["record"])
        print("vector:", json.dumps(d["record"])[:600])
    elif d["mode"] == "rollout":
        probs = check_rollout(d["record"], setup=d.get("setup", "logger_stats"))
        print("rollout:", d.get("setup", "logger_stats"), json.dumps({k: d["record"][k] for k in ("n", "scripts", "blocking")}))
    elif d["mode"] == "a2c_rollout":
        probs = sig.check_a2c_rollout(d["record"], d.get("setup", "direct"), d.get("gl", [0]))
        print("A2C rollout:", d.get("setup", "direct"), json.dumps({k: d["record"][k] for k in ("n", "steps", "blocking", "script")})[:900])
    elif d["mode"] == "mrq_run":
        run = sig.run_mrq_scenario(d["scenario"])
        res, has_canary = sig.judge_mrq_runs([run])
        probs = sig.mrq_verdicts([run], res, has_canary)[0][0]
        print("train_mrq run:", json.dumps(d["scenario"]), "episodes", run["eps"])
    elif d["mode"] == "dataset":
        from .. import graph

        probs = Problems()
        ad = DatasetAdapter()
        print("history on one EpisodeDataset:", " ".join(p["op"] + (str(p["args"]) if p["args"] else "") for p in d["path"]))
        for st in d["path"]:
            try:
                ds_step(ad, st["op"], st["args"], st.get("exp"), None, None)
            except graph.Mismatch as m:
                probs.add(f"EpisodeDataset.{DS_SITE.get(st['op'], st['op'])}:{m.code}", m.what)
                break
            except Exception as e:  # noqa: BLE001 - raised by the code under test
                probs.add(f"EpisodeDataset.{DS_SITE.get(st['op'], st['op'])}:raises", _exc(e))
                break
    else:
        probs, _ = float_case(d["dep"], d["seed"])
        print("dependency structure:", json.dumps(d["dep"])[:600])
    for pr in probs:
        print("  ", pr["key"], "::", pr["what"])
    if probs:
        print("VIOLATION property=C07 replay=" + path)
        return 1
    print("no deviation")
    return 0
