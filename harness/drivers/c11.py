"""C11 - step budget, episode discipline and step accounting are exact."""
from .. import sweep, tlc

LEVEL = "model_checking"
MANIFEST = dict(
    category="model_checking",
    text="Loop.tla: TLC checks BudgetRespected, EpisodeLimitRespected, NoStepAfterEnd, NoLearnBeforeWarmup and ReturnedCount over every environment behaviour within the bound and refutes the named deviations (break before count, return plus one, learning before warm-up, stepping an ended episode). Every training routine and the rollout helper run on scripted environments with budgets ending mid-episode and at an episode end, start counts > 0, episode limits and warm-up thresholds; LoopTrace.tla judges every event with the same clause operators; the returned counter is an event. Scheduler.tla covers selectors, discounted UCB and the per-task accounting of the multi-task schedulers (spec -> code replay and validated call traces).",
    note="bounded runs; documented warm-up per routine as configured in harness/algos*.py; D-UCB padding for zeta>0 only by order on an independent evaluation; trusted: scripted environment, recording wrappers, TLC",
    technique="TLA+ design model checked with TLC + trace validation of recorded executions; scheduler state machines replayed into the real selectors",
)


def run(rep):
    quick = rep.tier == "quick"
    for m in ("LoopClauses", "Loop", "LoopTrace"):
        tlc.sany(m)
    sweep.design_model(rep, "C11", quick)
    traces, out = sweep.report_property(rep, "C11")
    sweep.binding_canary(traces, "n", "ret", "ReturnedCount")
    steps = sum(out[t["id"]]["executed"] for t in traces)
    rep.evaluations = steps + len(traces)
    rep.distinct = steps
    rep.rule = "one case = one environment step of a recorded run (budget / episode-limit / step-after-end / warm-up clauses) plus one returned counter per run; non-trivial = steps"
    rep.sample({"trace": traces[0]["id"], "cfg": {k: v for k, v in traces[0]["cfg"].items() if k in ("budget", "start", "eplimit", "warmlearn")}, "verdict": out[traces[0]["id"]]})
    import os

    c11_sched = None
    if "c11_sched" in open(os.path.join(os.path.dirname(__file__), "..", "..", "tools", "parts_enabled.txt")).read().split():
        from . import c11_sched
    if c11_sched is not None:
        c11_sched.run_sched(rep)
    else:
        rep.assumptions.append("scheduler clauses: part not present in this build")
    rep.assumptions += ["bounded run lengths; three (quick) / five (thorough) scenarios per routine"]


def replay(path, rep):
    import json

    d = json.load(open(path))["replay"]
    if isinstance(d, dict) and d.get("kind") == "sweep":
        rc = sweep.replay_one(d, "C11")
    else:
        from . import c11_sched

        rc = c11_sched.replay_sched(d, rep)
    if rc:
        print(f"VIOLATION property=C11 replay={path}")
    return rc
