"""C11, scheduler clauses - task selectors, discounted UCB, and the step
accounting of train_uts / train_smt / train_active_mt.

spec/SchedulerOps.tla   operators (selectors, D-UCB index on exact rationals,
                        the train_st learner contract, bookkeeping of the three
                        schedulers, SMT pools)
spec/Scheduler.tla      state machines + properties + deviation canaries (TLC)
spec/SchedulerTrace.tla validation of call traces recorded from the real code

spec -> code: every transition of the TLC state graphs of the selector machine
is replayed into TaskSelector, RoundRobinSelector, DUCBGeneralized and
mapb.DUCB (transition coverage, state compared after every step).
code -> spec: the real train_uts / train_active_mt / train_smt drive a
scripted single-task learner over counting environments; every call is
recorded and the trace is followed by SchedulerTrace.tla.

The coordinator's c11.py calls run_sched(rep) / replay_sched(obj, rep).
"""
from __future__ import annotations

import copy
import json
import math
import os
import sys
import warnings
from concurrent.futures import ThreadPoolExecutor
from fractions import Fraction

import numpy as np

from .. import graph, tlc
from ..graph import Mismatch

S = tlc.Subst
WATCHDOG_S = 45
_PATIENCE = {}
WORKERS = int(os.environ.get("VERIF_TLC_WORKERS", "6"))  # concurrent single-worker TLC runs

BASE = dict(
    MODE="sel", EMIT=False, KIND="rr", NT=2, GAMMA=S("QHalf"), WIN=250, BASELINE="none", OP="none", HG=S("QHalf"),
    TIE="any", REWARDS=S("RewA"), MAXROUNDS=6, MAXREJ=4, T=5, B2=2, EPI=1, MAXLEN=2, LMODE="exact", EXPL=0, KK=2, KAPPA=S("QHalf"),
    NAV=2, RETS=S("RetsSmt"), SOLVEDT=S("PlusOne"), UNSOLVT=S("MinusOne"),
)
SEL_INV = ["SelValid", "Alternates", "RRFair", "Aligned", "InitialRoundsCoverAll", "ChoiceMaximises", "FirstRefines"]
ACC_INV = ["SelValid", "Alternates", "LoopCanSelect", "RRFair", "Aligned", "BudgetRespected", "UtsExact", "PerTaskExact",
           "CounterExact", "Partition", "Stage2Pool", "PoolSizes", "NoUpdateBeforeWarmup"]
GAMMAS = {"QHalf": Fraction(1, 2), "QOne": Fraction(1)}
CLASS_OF = {"base": "TaskSelector", "rr": "RoundRobinSelector", "gen": "DUCBGeneralized", "ducb": "DUCB"}


def _cfg(**kw):
    c = dict(BASE)
    c.update(kw)
    return c


def qj(x):
    """float / Fraction -> JSON rational [n, d] (exact)."""
    f = x if isinstance(x, Fraction) else Fraction(float(x))
    return [f.numerator, f.denominator]


def fq(x):
    return float(Fraction(int(x[0]), int(x[1])))


# ------------------------------------------------------------------ selectors
class SelAdapter:
    """A real selector plus what the model's View needs that the object does not keep."""

    def __init__(self, p, zeta=0.0, upper_bound=1.0):
        from rl_blox.blox.mapb import DUCB
        from rl_blox.blox.multitask import DUCBGeneralized, RoundRobinSelector, TaskSelector

        self.p = dict(p)
        kind, nt = p["kind"], p["nt"]
        tasks = np.arange(nt)
        none = lambda s: None if s == "none" else s
        if kind == "base":
            self.obj = TaskSelector(tasks)
        elif kind == "rr":
            self.obj = RoundRobinSelector(tasks)
        elif kind == "gen":
            self.obj = DUCBGeneralized(
                tasks, upper_bound=upper_bound, ducb_gamma=float(p["gamma"]), zeta=zeta, baseline=none(p["baseline"]),
                op=none(p["op"]), heuristic_gamma=float(p["hg"]),
            )
        else:
            self.obj = DUCB(n_arms=nt, upper_bound=upper_bound, gamma=float(p["gamma"]), zeta=zeta)
        self.arm = -1

    @property
    def ducb(self):
        return self.obj.ducb if self.p["kind"] == "gen" else self.obj if self.p["kind"] == "ducb" else None

    def select(self):
        with warnings.catch_warnings(), np.errstate(all="ignore"):
            warnings.simplefilter("ignore")
            if self.p["kind"] == "ducb":
                a = int(self.obj.choose_arm())
                self.arm = a
                return a
            return int(self.obj.select())

    def feedback(self, r):
        with warnings.catch_warnings(), np.errstate(all="ignore"):
            warnings.simplefilter("ignore")
            if self.p["kind"] == "ducb":
                self.obj.reward(r)
            else:
                self.obj.feedback(r)


def sel_project(ad: SelAdapter):
    k, nt, o = ad.p["kind"], ad.p["nt"], ad.obj
    d = ad.ducb
    v = {"kind": k, "i": int(getattr(o, "i", 0)), "chosen": [], "rewards": [], "last": [[] for _ in range(nt)],
         "arm": -1, "freq": [[0, 1]] * nt}
    if d is not None:
        v["chosen"] = [int(a) for a in d.chosen_arms]
        v["rewards"] = [qj(r) for r in d.rewards]
        v["freq"] = [qj(x) for x in d.discounted_frequencies]
    if k == "gen":
        v["last"] = [[qj(r) for r in lr] for lr in o.last_rewards]
        v["arm"] = int(o.chosen_arm)
        v["waiting"] = bool(o.waiting_for_reward)
    elif k == "ducb":
        v["arm"] = ad.arm
        v["waiting"] = len(d.chosen_arms) > len(d.rewards)
    else:
        v["waiting"] = bool(o.waiting_for_reward)
    return v


def sel_step(ad: SelAdapter, op, args, exp, pre, post):
    if op == "Select":
        try:
            got = ad.select()
        except AssertionError as e:
            raise Mismatch(f"select() raised AssertionError ({e}) where the model selects", code="select_raised")
        nt = ad.p["nt"]
        if not 0 <= got < nt:
            raise Mismatch(f"select() returned {got}, not a task id of 0..{nt - 1}", code="invalid_id")
        if got != exp["id"]:
            adm = sorted(exp["adm"])
            if adm and got not in adm:
                raise Mismatch(f"select() chose arm {got}; arms with maximal index {adm}", code="not_a_maximiser")
            raise Mismatch(f"select() returned {got}, model {exp['id']} (admissible {adm})", code="other_id")
    elif op == "Feedback":
        try:
            ad.feedback(fq(args))
        except AssertionError as e:
            raise Mismatch(f"feedback() raised AssertionError ({e}) after a select", code="feedback_raised")
    elif op in ("SelectRejected", "FeedbackRejected"):
        try:
            if op == "SelectRejected":
                ad.select()
            else:
                ad.feedback(fq(args))
        except AssertionError:
            return
        raise Mismatch(f"{op[:-8].lower()}() out of turn was accepted silently", code="accepted_out_of_turn")
    else:  # pragma: no cover
        raise AssertionError(op)


def _diff_fields(v):
    got, want = v["detail"].get("got"), v["detail"].get("want")
    if isinstance(got, dict) and isinstance(want, dict):
        return sorted(k for k in want if got.get(k) != want[k])
    return []


def _sel_key(cls, v):
    op = v["path"][-1]["op"]
    f = _diff_fields(v)
    if f and op.endswith("Rejected"):
        return f"{cls}:{op}:state_changed"
    if f:
        return f"{cls}:{op}:state[{'+'.join(f)}]"
    return f"{cls}:{op}:{v['code']}"


def p_of(c):
    g = GAMMAS[c["GAMMA"].name]
    return {"kind": c["KIND"], "nt": c["NT"], "gamma": g, "W": c["WIN"], "baseline": c["BASELINE"], "op": c["OP"],
            "hg": GAMMAS[c["HG"].name], "tie": c["TIE"]}


def sel_configs(quick):
    """(name, constants) of the selector machines whose graphs are replayed."""
    out = [("rr3", _cfg(KIND="rr", NT=3, MAXROUNDS=7, REWARDS=S("RewTwo"))),
           ("base", _cfg(KIND="base", NT=2, MAXROUNDS=3, REWARDS=S("RewTwo"))),
           ("ducb2-half", _cfg(KIND="ducb", NT=2, MAXROUNDS=7 if quick else 8)),
           ("ducb2-one", _cfg(KIND="ducb", NT=2, GAMMA=S("QOne"), REWARDS=S("RewTwo") if quick else S("RewA"), MAXROUNDS=9 if quick else 8)),
           ("ducb3-two", _cfg(KIND="ducb", NT=3, REWARDS=S("RewTwo"), MAXROUNDS=9 if quick else 10))]
    named = [("last", "none"), ("max", "max-with-0"), ("none", "neg"), ("avg", "abs")]  # quick: the heuristics train_active_mt offers + avg/abs
    allc = [(b, o) for b in ("none", "last", "max", "avg", "davg") for o in ("none", "abs", "max-with-0", "neg")]
    for n, (b, o) in enumerate(named if quick else allc):
        rew = "RewAvg" if b == "avg" else "RewSigned"
        gam = "QHalf" if n % 2 == 0 else "QOne"
        out.append((f"gen2-{b}-{o}", _cfg(KIND="gen", NT=2, BASELINE=b, OP=o, REWARDS=S(rew), GAMMA=S(gam), MAXROUNDS=7 if quick else 8, MAXREJ=5)))
    out.append(("gen3-max-max0", _cfg(KIND="gen", NT=3, BASELINE="max", OP="max-with-0", REWARDS=S("RewTwo"), GAMMA=S("QOne"),
                                      MAXROUNDS=10 if quick else 11)))
    if not quick:
        out.append(("gen3-last-half", _cfg(KIND="gen", NT=3, BASELINE="last", REWARDS=S("RewTwo"), MAXROUNDS=11)))
    return out


def _gen_graph(name, c):
    """One TLC run: invariants on the refinement that breaks ties like numpy + one EMIT record per transition."""
    c = dict(c, EMIT=True, TIE="first")
    return name, c, tlc.run("Scheduler", tlc.cfg_text(constants=c, invariants=SEL_INV), workers=1, tag="sched-" + name)


def run_selectors(rep, quick, results):
    edges = nontrivial = 0
    graphs = {}
    for name, c, r in results:
        rep.add_tlc(r, f"Scheduler sel {name} (invariants + graph)")
        if not r.ok:
            rep.violation(f"spec:Scheduler:{r.violated}", f"design-level violation of {r.violated} in {name}", r.error_trace[:3000])
            continue
        if not r.emitted:
            raise tlc.MachineryError(f"no transitions emitted for {name}")
        G = graph.Graph(r.emitted)
        graphs[name] = (c, G)
        p = p_of(c)
        cls = CLASS_OF[p["kind"]]
        res = graph.cover(G, G.roots()[0], lambda: SelAdapter(p), sel_step, sel_project)
        edges += res["edges_tested"]
        rep.traces += res["edges_tested"]
        nontrivial += sum(1 for k, es in G.out.items() for e in es if e[0] == "Select" and len(G.state[k]["rewards"]) >= 2 * p["nt"]
                          or e[0].endswith("Rejected") or (e[0] == "Select" and p["kind"] in ("rr", "base")))
        for v in res["violations"]:
            rep.violation(
                _sel_key(cls, v), f"{cls} ({name}): {v['what']}; differing fields {_diff_fields(v)}",
                {"kind": "sched:sel", "p": {**p, "gamma": qj(p["gamma"]), "hg": qj(p["hg"])}, "path": v["path"],
                 "want": v["detail"].get("want"), "got": v["detail"].get("got")},
            )
        if name in ("gen2-max-max-with-0", "ducb2-half"):
            arg = [e for e in r.emitted if e["op"] == "Select" and len(e["pre"]["rewards"]) >= 2 * p["nt"]]
            if arg:
                rep.sample({"selector": name, "transition": arg[len(arg) // 2]})
    return graphs, edges, nontrivial


# ------------------------------------------------------- learner stub + traces
class _Abort(Exception):
    """raised by the stub learner when a scheduler keeps calling without making progress"""


def make_env(nt, lens, rets):
    """Counting multi-task environment: task k produces episodes of lengths lens[k] (cyclic) whose whole return
    rets[k] (cyclic) is paid on the last step.  Counts every step per task; a step on an ended episode raises."""
    import gymnasium as gym

    class CountingEnv(gym.Env):
        def __init__(self):
            self.observation_space = gym.spaces.Box(low=np.float32(-1.0), high=np.float32(1.0), shape=(1,), dtype=np.float32)
            self.action_space = gym.spaces.Discrete(2)
            self.task = 0
            self.steps = [0] * nt  # environment steps per task (the ghost `exec`)
            self.resets = [0] * nt
            self.t = 0
            self.live = False

        def set_task(self, k):
            self.task = int(k)
            self.live = False

        def plan(self, ahead=0):
            """(length, return) of the episode `ahead` resets from the running one"""
            k = self.task
            n = self.resets[k] - 1 + ahead
            return lens[k][n % len(lens[k])], rets[k][n % len(rets[k])]

        def reset(self, *, seed=None, options=None):
            self.resets[self.task] += 1
            self.t = 0
            self.live = True
            return np.zeros(1, dtype=np.float32), {}

        def step(self, action):
            if not self.live:
                raise RuntimeError("step on an episode that has ended or was never reset")
            self.t += 1
            self.steps[self.task] += 1
            ln, ret = self.plan()
            end = self.t >= ln
            if end:
                self.live = False
            return np.zeros(1, dtype=np.float32), (float(ret) if end else 0.0), bool(end), False, {}

    return CountingEnv()


class StubResult:
    def __init__(self, global_step):
        self.global_step = global_step
        self.steps_trained = global_step


_S1 = ("training_pool", "updated_training_pool", "main_pool", "solved_pool", "unsolvable_pool", "task_budgets",
       "avg_training_performances", "training_steps", "global_step")


def _perf(v):
    v = float(v)
    if math.isnan(v):
        return {"m": "none", "v": [0, 1]}
    if v == -np.finfo(float).max:
        return {"m": "unmeasured", "v": [0, 1]}
    return {"m": "val", "v": qj(v)}


def _ints(xs):
    return sorted(int(x) for x in xs)


def probe(frame):
    """Project the scheduler's local variables at call entry to the model's observation."""
    loc, fn = frame.f_locals, frame.f_code.co_name
    try:
        if fn == "train_uts":
            return {"stage": "uts", "gs": int(loc["global_step"])}
        if fn == "train_active_mt":
            return {"stage": "amt", "gs": int(loc["global_step"]), "ts": [int(x) for x in loc["training_steps"]]}
        if fn == "smt_stage1":
            return {"stage": "s1", "gs": int(loc["global_step"]), "ts": [int(x) for x in loc["training_steps"]],
                    "round": _ints(loc["training_pool"]), "upd": _ints(loc["updated_training_pool"]),
                    "main": _ints(loc["main_pool"]), "solved": _ints(loc["solved_pool"]), "unsolv": _ints(loc["unsolvable_pool"]),
                    "budgets": [qj(b) for b in loc["task_budgets"]], "avg": [_perf(v) for v in loc["avg_training_performances"]]}
        if fn == "smt_stage2":
            return {"stage": "s2", "gs": int(loc["global_step"]), "ts": [int(x) for x in loc["training_steps"]],
                    "s2": _ints(loc["unsolvable_pool"])}
    except KeyError as e:
        raise tlc.MachineryError(f"probe: scheduler variable {e} not found in {fn}")
    raise tlc.MachineryError(f"probe: train_st called from unexpected function {fn}")


class StubLearner:
    """Obeys the train_st calling convention of the three schedulers.  mode "exact": reports start + executed;
    "short": leaves on the episode limit before advancing its counter, so the count is one short of start + executed
    (the defect train_td3 / train_sac / train_td7 / train_mrq / the DQN family had before the repo's `fix:` commits)."""

    def __init__(self, events, mode="exact", max_calls=200, rb=None, mix=None):
        self.events, self.mode, self.max_calls, self.rb, self.mix = events, mode, max_calls, rb, mix
        self.calls = 0
        self.rearm = lambda: None

    def __call__(self, env=None, *, total_timesteps, total_episodes, global_step, learning_starts=None, seed=None,
                 progress_bar=None, logger=None, replay_buffer=None, bar=None):
        obs = probe(sys._getframe(1))
        self.rearm()
        self.calls += 1
        if self.calls > self.max_calls:
            raise _Abort(f"more than {self.max_calls} train_st calls")
        base = env.unwrapped
        g, T, E = int(global_step), int(total_timesteps), total_episodes
        before = list(base.steps)
        env.reset(seed=None if seed is None else int(seed))
        lens, rets = [base.plan()[0]], [base.plan()[1]]
        step, ep = g, 0
        while step < T:
            _, _, term, trunc, _ = env.step(0)
            if term or trunc:
                ep += 1
                if E is not None and ep >= E:
                    if self.mode == "exact":
                        step += 1
                    break
                env.reset()
                lens.append(base.plan()[0])
                rets.append(base.plan()[1])
            step += 1
        k = 1
        while len(lens) < (E or 1):  # episodes the budget did not allow to start
            ln, rt = base.plan(k)
            lens.append(ln)
            rets.append(rt)
            k += 1
        delta = [a - b for a, b in zip(base.steps, before)]
        self.events.append({
            "k": "call", "task": int(base.task), "g": g, "T": T, "E": int(E) if E is not None else 0,
            "lens": [int(x) for x in lens], "rets": [qj(r) for r in rets], "done": ep, "executed": int(sum(delta)),
            "elsewhere": int(sum(delta) - delta[base.task]), "reported": int(step), "obs": obs,
            "ls": int(learning_starts) if learning_starts is not None else -1,
            "rb": int(self.rb.task) if self.rb is not None else int(base.task),
            "mix": int(self.mix.task_id) if self.mix is not None else int(base.task),
        })
        return StubResult(step)


class StubBuffer:
    """stands in for MultiTaskReplayBuffer: only select_task is used by the schedulers"""

    def __init__(self):
        self.task = -1

    def select_task(self, k):
        self.task = int(k)


def recording(cls, events):
    class Rec(cls):
        def select(self):
            try:
                r = super().select()
            except AssertionError:
                events.append({"k": "rejected", "op": "select"})
                raise
            events.append({"k": "select", "id": int(r)})
            return r

        def feedback(self, reward):
            with warnings.catch_warnings(), np.errstate(all="ignore"):
                warnings.simplefilter("ignore")
                try:
                    super().feedback(reward)
                except AssertionError:
                    events.append({"k": "rejected", "op": "feedback"})
                    raise
            events.append({"k": "feedback", "r": qj(reward)})

    Rec.__name__ = cls.__name__
    return Rec


# documented meaning of the named heuristics of train_active_mt (its docstring): baseline / operator
HEURISTICS = {
    "Round Robin": ("rr", "none", "none"),
    "1-step Progress": ("gen", "last", "none"),
    "Monotonic Progress": ("gen", "max", "max-with-0"),
    "Best Reward": ("gen", "none", "none"),
    "Diversity": ("gen", "none", "neg"),
}


def run_scheduler(sc):
    """Run one real scheduler on a scenario; returns the trace (dict) for SchedulerTrace.tla."""
    from rl_blox.blox.multitask import DiscreteTaskSet, TaskSelectionMixin

    kind, nt = sc["kind"], sc["nt"]
    env = make_env(nt, sc["lens"], sc["rets"])
    with warnings.catch_warnings():
        warnings.simplefilter("ignore")
        ts = DiscreteTaskSet(env, lambda e, ctx: e.unwrapped.set_task(int(ctx[0])), np.arange(nt, dtype=np.float32)[:, None], context_aware=False)
    events = []
    rb, mix = StubBuffer(), TaskSelectionMixin()
    learner = StubLearner(events, sc.get("mode", "exact"), rb=None if kind == "uts" else rb, mix=None if kind == "uts" else mix)
    trace = {"id": sc["id"], "kind": kind, "events": events, "aborted": False, "exception": "", "mode": sc.get("mode", "exact")}
    import signal
    import threading

    def _alarm(signum, frame):
        _PATIENCE[kind] = 3
        raise _Abort("the scheduler neither returned nor called train_st for a long time")

    import rl_blox.algorithm.active_mt  # noqa: F401  (imports - JAX - stay outside the timed region)
    import rl_blox.algorithm.smt  # noqa: F401
    import rl_blox.algorithm.uniform_task_sampling  # noqa: F401

    # a scheduler that spins without calling train_st must not hang the check: WATCHDOG_S seconds without a train_st
    # call (the stub re-arms the timer) end the run; after one such abort further runs of that scheduler get 3 s
    watchdog = threading.current_thread() is threading.main_thread()
    learner.rearm = (lambda: signal.setitimer(signal.ITIMER_REAL, _PATIENCE.get(kind, WATCHDOG_S))) if watchdog else (lambda: None)
    if watchdog:
        old_handler = signal.signal(signal.SIGALRM, _alarm)
        learner.rearm()
    try:
        _run_scheduler_body(sc, trace, ts, learner, rb, mix, events)
    finally:
        if watchdog:
            signal.setitimer(signal.ITIMER_REAL, 0)
            signal.signal(signal.SIGALRM, old_handler)
    trace["env_steps"] = [int(x) for x in env.steps]
    return trace


def _run_scheduler_body(sc, trace, ts, learner, rb, mix, events):
    import contextlib
    import io

    kind, nt = sc["kind"], sc["nt"]
    with warnings.catch_warnings(), np.errstate(all="ignore"), contextlib.redirect_stdout(io.StringIO()):
        warnings.simplefilter("ignore")
        try:
            if kind == "uts":
                from rl_blox.algorithm.uniform_task_sampling import train_uts

                trace["cfg"] = {"nt": nt, "T": sc["T"], "E": sc["E"], "expl": sc.get("expl", 0)}
                res = train_uts(ts, learner, total_timesteps=sc["T"], episodes_per_task=sc["E"], seed=sc["seed"],
                                exploring_starts=sc.get("expl", 0), progress_bar=False, logger=None)
                events.append({"k": "end", "obs": {"stage": "end", "gs": int(res.global_step)}})
            elif kind == "amt":
                from rl_blox.algorithm import active_mt

                k, bl, op = HEURISTICS[sc["selector"]]
                g = Fraction(sc["gamma"][0], sc["gamma"][1])
                trace["cfg"] = {"nt": nt, "T": sc["T"], "E": sc["E"], "ls": sc.get("ls", 0),
                                "sel": {"kind": k, "nt": nt, "gamma": qj(g), "W": 250, "baseline": bl, "op": op, "hg": [1, 2], "tie": "first"}}
                saved = dict(active_mt.TASK_SELECTORS)
                try:
                    for name, (cls, kw) in saved.items():
                        active_mt.TASK_SELECTORS[name] = (recording(cls, events), kw)
                    res = active_mt.train_active_mt(ts, learner, rb, r_max=1.0, ducb_gamma=float(g), xi=0.0, task_selector=sc["selector"],
                                                    total_timesteps=sc["T"], scheduling_interval=sc["E"], learning_starts=sc.get("ls", 0),
                                                    seed=sc["seed"], task_selectables=[mix], logger=None, progress_bar=False)
                finally:
                    active_mt.TASK_SELECTORS.clear()
                    active_mt.TASK_SELECTORS.update(saved)
                events.append({"k": "end", "obs": {"stage": "end", "ts": [int(x) for x in res[1]]}})
            else:
                from rl_blox.algorithm.smt import train_smt

                trace["cfg"] = {"nt": nt, "b1": sc["b1"], "b2": sc["b2"], "K": sc["K"], "kappa": sc["kappa"], "E": sc["E"],
                                "nav": sc["nav"], "solvedT": [1, 1], "unsolvT": [-1, 1], "ls": sc.get("ls", 0)}
                res = train_smt(ts, learner, rb, b1=sc["b1"], b2=sc["b2"], solved_threshold=1.0, unsolvable_threshold=-1.0,
                                scheduling_interval=sc["E"], kappa=fq(sc["kappa"]), K=sc["K"], n_average=sc["nav"], learning_starts=sc.get("ls", 0),
                                seed=sc["seed"], task_selectables=[mix], logger=None, progress_bar=False)
                events.append({"k": "end", "obs": {"stage": "end", "ts": [int(x) for x in res[1]], "avg": [_perf(v) for v in res[2]]}})
        except _Abort as e:
            trace["aborted"] = True
            trace["exception"] = str(e)
        except tlc.MachineryError:
            raise
        except Exception as e:  # the scheduler (or the protocol assertion of a selector) failed
            import traceback

            tb = traceback.extract_tb(e.__traceback__)
            trace["exception"] = f"{type(e).__name__} at {tb[-1].filename.split('/')[-1]}:{tb[-1].name}: {str(e)[:160]}"


# ------------------------------------------------------------ trace validation
LEN_SCRIPTS = [[1], [2], [3], [1, 2], [2, 3, 1], [3, 1], [2, 2, 1], [4]]
RET_AMT = [[1.0], [0.5], [0.0, 1.0], [0.25, 0.5, 1.0], [-0.5, 0.5], [1.0, 0.0]]
LEN_HALF = [[2], [3], [4], [2, 3], [3, 2, 2]]  # scripts for gamma = 1/2 (few calls, coarse rewards)
RET_HALF = [[1.0], [0.5], [0.0, 1.0], [-0.5, 0.5], [1.0, 0.0]]
RET_SMT = [[6.0], [-6.0], [0.0], [-6.0, 6.0], [0.0, 6.0, 6.0], [6.0, -6.0], [-6.0, -6.0, 0.0], [1.0], [-1.0]]  # +-1 = the thresholds


def scenarios(seed, quick):
    """Scenario = configuration of one scheduler run + the scripts of the counting environment."""
    rng = np.random.default_rng(seed + 1711)
    pick = lambda pool, n: [pool[int(i)] for i in rng.integers(0, len(pool), size=n)]
    out = []
    n = 0
    # train_uts: systematic budgets x episode limits, scripts drawn
    for T in (1, 2, 3, 5, 6, 7, 9) if quick else range(1, 13):
        for E in (1, 2):
            for rpt in range(2 if quick else 4):
                nt = 2 + (n % 2)
                sc = dict(kind="uts", nt=nt, T=T, E=E, seed=int(rng.integers(0, 1000)), lens=pick(LEN_SCRIPTS, nt), rets=pick(RET_AMT, nt))
                out.append(dict(sc, id=f"uts{n}", mode="exact"))
                if rpt == 0:
                    out.append(dict(sc, id=f"uts{n}s", mode="short"))
                n += 1
    # train_uts with a warm-up (exploring_starts) that spans several scheduling rounds: 1-3 step episodes
    for expl in (3, 5, 8):
        for E in (1, 2):
            for T in (expl + 2, 2 * expl + 1):
                for rpt in range(1 if quick else 3):
                    nt = 2 + (n % 2)
                    out.append(dict(kind="uts", id=f"uts{n}w", nt=nt, T=T, E=E, expl=expl, seed=int(rng.integers(0, 1000)),
                                    lens=pick([[1], [2], [1, 2]] if expl == 3 else LEN_SCRIPTS[:6], nt), rets=pick(RET_AMT, nt), mode="exact"))
                    n += 1
    # train_active_mt: every named heuristic x discount x budgets
    for name in HEURISTICS:
        for gam in ([1, 2], [1, 1]):
            for T, E in ((4, 1), (9, 1), (14, 2), (23, 1)) if quick else ((3, 1), (4, 2), (9, 1), (14, 2), (17, 4), (23, 1), (31, 2), (40, 1)):  # episode counts 1, 2, 4: dyadic mean returns
                nt = 2 + (n % 2)
                half = gam == [1, 2]
                if half and T > 23:
                    continue  # gamma = 1/2: at most 12 calls, so that 2^-t stays inside TLC's 32-bit rationals
                out.append(dict(kind="amt", id=f"amt{n}", nt=nt, T=T, E=E, seed=int(rng.integers(0, 1000)), selector=name, gamma=gam,
                                lens=pick(LEN_HALF if half else LEN_SCRIPTS[:6], nt), rets=pick(RET_HALF if half else RET_AMT, nt),
                                mode="short" if n % 5 == 0 else "exact", ls=(0, 3, 7)[n % 3]))
                n += 1
    # train_smt
    for rpt in range(70 if quick else 400):
        nt = int(rng.integers(2, 5))
        sc = dict(kind="smt", id=f"smt{n}", nt=nt, K=int(rng.integers(1, nt + 1)), b1=int(rng.choice([2, 3, 5, 8, 12, 17])),
                  b2=int(rng.choice([1, 2, 4, 7])), kappa=[[1, 4], [1, 2], [3, 4], [1, 8]][int(rng.integers(0, 4))], E=int(rng.integers(1, 3)),
                  nav=int(rng.integers(1, 4)), seed=int(rng.integers(0, 1000)), lens=pick(LEN_SCRIPTS, nt), rets=pick(RET_SMT, nt),
                  mode="short" if rpt % 6 == 0 else "exact", ls=(0, 2, 9)[rpt % 3])
        out.append(sc)
        n += 1
    return out


def _check_ints(x, where):
    if isinstance(x, bool):
        return
    if isinstance(x, int):
        if abs(x) >= 2**31 - 1:
            raise tlc.MachineryError(f"trace value {x} does not fit TLC's integers ({where}); a non-dyadic float was recorded")
    elif isinstance(x, dict):
        for k, v in x.items():
            _check_ints(v, where + "." + k)
    elif isinstance(x, (list, tuple)):
        for v in x:
            _check_ints(v, where)


def validate(traces, tag="schedtrace"):
    """SchedulerTrace.tla follows every trace; returns (TlcResult, {trace index (1-based): [records]})."""
    for t in traces:
        _check_ints(t["events"], t["id"])
    d = os.path.join(tlc.OUT, "tmp")
    os.makedirs(d, exist_ok=True)
    path = os.path.join(d, f"{tag}-{os.getpid()}.json")
    with open(path, "w") as f:
        json.dump({"traces": [{"id": t["id"], "kind": t["kind"], "cfg": t["cfg"], "events": t["events"]} for t in traces]}, f)
    try:
        r = tlc.run("SchedulerTrace", tlc.cfg_text(), workers=1, env={"TRACE_FILE": path}, tag=tag, timeout=900)
    finally:
        os.remove(path)
    by = {}
    for rec in r.emitted:
        by.setdefault(rec["tr"], []).append(rec)
    return r, by


UTS_SENSITIVE = {"exact", "budget", "finished", "returned"}


def _stuck_fields(ev, cands):
    """which observed fields no candidate of the model agrees on"""
    obs = ev.get("obs", {})
    if ev["k"] == "select":
        return ["selected_id"]
    best = None
    for c in cands:
        bad = []
        for f, v in obs.items():
            if f not in c:
                continue
            w = c[f]
            if isinstance(v, list) and f in ("round", "upd", "main", "solved", "unsolv", "s2"):
                w = sorted(w)
            if w != v:
                bad.append(f)
        if best is None or len(bad) < len(best):
            best = bad
    order = ["ts", "gs", "budgets", "avg", "solved", "unsolv", "main", "upd", "round", "s2", "stage"]
    return sorted(best, key=lambda f: order.index(f) if f in order else 99)[:1] if best else ["no_successor"]


def judge(traces, by):
    """-> (violations [(key, what, replay)], sensitivity summary).  A violation is a scheduler clause that fails."""
    viol, sens = [], {"traces": 0, "over_budget": 0, "max_overshoot": 0, "no_progress": 0, "example": None}
    for n, t in enumerate(traces, start=1):
        n_before = len(viol)
        kind, evs = t["kind"], t["events"]
        name = {"uts": "train_uts", "amt": "train_active_mt", "smt": "train_smt"}[kind]
        recs = by.get(n, [])
        verdicts = {r["i"]: r for r in recs if r["k"] != "expect"}
        expects = {r["i"]: r for r in recs if r["k"] == "expect"}
        short_uts = kind == "uts" and t["mode"] == "short"
        replay = {"kind": "sched:trace", "scenario": t.get("scenario")}
        if short_uts:
            sens["traces"] += 1
        for i, r in sorted(verdicts.items()):
            if r.get("learner") is False:
                raise tlc.MachineryError(f"stub learner disobeyed the scripted environment in {t['id']} event {i}")
            if t["mode"] == "exact" and r.get("contract") is False:
                raise tlc.MachineryError(f"stub learner in exact mode reported a wrong count in {t['id']} event {i}")
            for c, okc in sorted(r["cl"].items()):
                if okc:
                    continue
                if short_uts and c in UTS_SENSITIVE:
                    continue
                viol.append((f"{name}:{r['k']}:{c}", f"{name} ({t['id']}, event {i} {r['k']}): clause `{c}` fails; event {json.dumps(evs[i - 1])[:400]}; model {json.dumps(r.get('exp'))[:400]}", replay))
        end = verdicts.get(len(evs))
        if end and end["k"] == "end" and kind in ("amt", "smt") and end["exp"]["exec"] != t["env_steps"]:
            raise tlc.MachineryError(f"recorder inconsistent in {t['id']}: environment counted {t['env_steps']}, events sum to {end['exp']['exec']}")
        if t["aborted"]:
            if short_uts:
                sens["no_progress"] += 1
            else:
                viol.append((f"{name}:no_progress", f"{name} ({t['id']}) made no progress towards its budget: {t['exception']}", replay))
        elif t["exception"]:
            viol.append((f"{name}:exception:{t['exception'].split(' ')[0]}", f"{name} ({t['id']}) raised {t['exception']}", replay))
        accepted = max(verdicts) if verdicts else 0
        if accepted < len(evs):
            ev = evs[accepted]
            ex = expects.get(accepted + 1, {})
            cands = ex.get("cands") or ([ex["pre"]] if "pre" in ex else [])
            fields = _stuck_fields(ev, cands)
            viol.append((f"{name}:{ev['k']}:differs[{'+'.join(fields)}]",
                         f"{name} ({t['id']}): event {accepted + 1} is no step of the model; observed {json.dumps(ev)[:500]}; model admits {json.dumps(ex)[:700]}", replay))
        t["clean"] = len(viol) == n_before
        if short_uts and not t["aborted"]:
            total = sum(t["env_steps"])
            over = total - t["cfg"]["T"]
            if over > 0:
                sens["over_budget"] += 1
                if over > sens["max_overshoot"]:
                    sens["max_overshoot"] = over
                    sens["example"] = {"id": t["id"], "T": t["cfg"]["T"], "E": t["cfg"]["E"], "environment_steps": total, "calls": sum(1 for e in evs if e["k"] == "call"),
                                       "returned_global_step": evs[-1]["obs"].get("gs") if evs[-1]["k"] == "end" else None}
    return viol, sens


def pool_moves(traces, by):
    """documented SMT pool transitions / stages exercised by the recorded runs (vacuity guard)"""
    seen = {}
    for n, t in enumerate(traces, start=1):
        if t["kind"] != "smt":
            continue
        views = [r["exp"] for r in sorted((r for r in by.get(n, []) if r["k"] in ("call", "end")), key=lambda r: r["i"])]
        where = lambda v, k: next((p for p in ("upd", "main", "solved", "unsolv") if k in v[p]), "nowhere")
        for a, b in zip(views, views[1:]):
            for k in range(t["cfg"]["nt"]):
                pa, pb = where(a, k), where(b, k)
                if pa != pb:
                    seen[f"{pa}->{pb}"] = seen.get(f"{pa}->{pb}", 0) + 1
            if a["stage"] == "s1" and b["stage"] == "s2":
                seen["stage2:" + ("unsolvable" if b["unsolv"] else "main")] = seen.get("stage2:" + ("unsolvable" if b["unsolv"] else "main"), 0) + 1
            if a["stage"] == "s1" and b["stage"] == "end":
                seen["no_stage2"] = seen.get("no_stage2", 0) + 1
    return seen


def run_traces(rep, quick):
    scs = scenarios(rep.seed, quick)
    traces = []
    for sc in scs:
        t = run_scheduler(sc)
        t["scenario"] = sc
        traces.append(t)
    r, by = validate(traces)
    rep.add_tlc(r, f"SchedulerTrace {len(traces)} recorded scheduler runs, {sum(len(t['events']) for t in traces)} events")
    viol, sens = judge(traces, by)
    for key, what, replay in viol:
        rep.violation(key, what, replay)
    calls = sum(1 for t in traces for e in t["events"] if e["k"] == "call")
    rep.traces += len(traces)
    rep.extra["sched_traces"] = {k: sum(1 for t in traces if t["kind"] == k) for k in ("uts", "amt", "smt")}
    rep.extra["sched_trace_calls"] = calls
    rep.extra["uts_learner_reports_one_short"] = sens
    spanning = sum(1 for t in traces if t["kind"] == "uts" and t["cfg"].get("expl", 0) > 0
                   for e in t["events"] if e["k"] == "call" and 0 < e["g"] < t["cfg"]["expl"])
    rep.extra["uts_calls_starting_inside_warmup"] = spanning
    if spanning < 6:
        raise tlc.MachineryError(f"only {spanning} train_uts calls started inside the warm-up (vacuous warm-up hand-over)")
    moves = pool_moves(traces, by)
    rep.extra["smt_pool_moves_exercised"] = moves
    missing = [m for m in ("upd->solved", "upd->unsolv", "upd->main", "main->upd", "stage2:unsolvable", "stage2:main") if not moves.get(m)]
    if missing:
        raise tlc.MachineryError(f"scenario sweep never exercised SMT transitions {missing} (vacuous)")
    for kind in ("amt", "smt"):
        for t in traces:
            if t["kind"] == kind and len(t["events"]) > 4:
                ev = next(e for e in t["events"] if e["k"] == "call")
                rep.sample({"scheduler": kind, "cfg": t["cfg"], "first_call": {k: ev[k] for k in ("task", "g", "T", "E", "lens", "done", "executed", "reported")},
                            "returned": t["events"][-1].get("obs")})
                break
    return traces, by, calls


# ------------------------------------------------- zeta > 0 (weaker), window, models
def reward_sequences(G, cap, seed):
    """feedback values along root-to-leaf paths of a TLC graph (TLC-generated reward histories)"""
    root = G.roots()[0]
    seqs, stack = [], [(root, [])]
    while stack:
        k, rs = stack.pop()
        outs = [e for e in G.out.get(k, ()) if e[0] in ("Select", "Feedback")]
        if not outs:
            seqs.append(rs)
            continue
        for op, args, exp, k2 in outs:
            stack.append((k2, rs + [args] if op == "Feedback" else rs))
    seqs.sort(key=lambda q: json.dumps(q))
    rng = np.random.default_rng(seed + 5)
    if len(seqs) > cap:
        seqs = [seqs[int(i)] for i in rng.choice(len(seqs), size=cap, replace=False)]
    return seqs


def documented_index(chosen, rewards, nt, gamma, zeta, bound, window=250):
    """Independent evaluation of the documented D-UCB index (Garivier & Moulines): discounted mean + 2B sqrt(zeta log n / N)."""
    t = len(rewards)
    lo = max(0, t - window)
    N = [Fraction(0)] * nt
    X = [Fraction(0)] * nt
    for s_ in range(lo, t):
        w = gamma ** (t - 1 - s_)
        N[chosen[s_]] += w
        X[chosen[s_]] += w * Fraction(float(rewards[s_]))
    n = float(sum(N))
    return [math.inf if N[a] == 0 else float(X[a] / N[a]) + 2.0 * bound * math.sqrt(zeta * math.log(n) / float(N[a])) for a in range(nt)]


LONG_ROUNDS = 330
LONG_ULPS = 32  # two 250-term float sums (numpy pairwise vs fsum: <= ~10 eps each), one division, sqrt/log, one addition


def documented_index_f(chosen, rewards, nt, gamma, zeta, bound, window=250):
    """Independent float64 evaluation of the documented D-UCB index over the last `window` plays: weights
    gamma**(t-1-s) with s the ABSOLUTE position of the play in the history, sums by math.fsum."""
    t = len(rewards)
    lo = max(0, t - window)
    ws = [[] for _ in range(nt)]
    xs = [[] for _ in range(nt)]
    for s_ in range(lo, t):
        w = float(gamma) ** (t - 1 - s_)
        ws[chosen[s_]].append(w)
        xs[chosen[s_]].append(w * float(rewards[s_]))
    N = [math.fsum(w) for w in ws]
    n = math.fsum(N)
    return [math.inf if N[a] == 0 else math.fsum(xs[a]) / N[a] + 2.0 * bound * math.sqrt(zeta * math.log(n) / N[a]) for a in range(nt)]


def long_configs():
    out = []
    for kind, bl in (("ducb", "none"), ("gen", "none"), ("gen", "last")):
        for nt in (2, 3):
            for gam in (0.9, 0.95):
                for zeta in (0.0, 0.002):
                    out.append({"kind": kind, "nt": nt, "gamma": gam, "zeta": zeta, "baseline": bl, "op": "none", "hg": 0.5, "bound": 1.0})
    # many arms: the initial phase alone (2 x 126 counted rounds) is longer than the 250-step window
    out.append({"kind": "gen", "nt": 126, "gamma": 0.95, "zeta": 0.002, "baseline": "last", "op": "none", "hg": 0.5, "bound": 1.0, "rounds": 126 + 252 + 45})
    out.append({"kind": "ducb", "nt": 126, "gamma": 0.9, "zeta": 0.0, "baseline": "none", "op": "none", "hg": 0.5, "bound": 1.0, "rounds": 252 + 45})
    return out


def long_behaviour(cfg, seed, upto=None):
    """One long behaviour of the real bandit on a non-stationary random bandit problem (rewards are multiples of 1/16 in
    [0, 1], arm means drift).  Every choice after the initial rounds is judged.  -> (choices judged, of them beyond round
    250, first failure or None)"""
    rng = np.random.default_rng([seed, cfg["nt"], int(cfg["gamma"] * 100), int(cfg["zeta"] * 1000), len(cfg["kind"] + cfg["baseline"])])
    ad = SelAdapter({"kind": cfg["kind"], "nt": cfg["nt"], "gamma": cfg["gamma"], "baseline": cfg["baseline"], "op": cfg["op"], "hg": cfg["hg"]},
                    zeta=cfg["zeta"], upper_bound=cfg["bound"])
    upto = cfg.get("rounds", LONG_ROUNDS) if upto is None else upto
    means = rng.uniform(0.2, 0.8, size=cfg["nt"])
    judged = late = 0
    # the history of COUNTED rounds is kept here, from the calls made - not read from the object, which may store it
    # differently: DUCBGeneralized forgets the choice of an arm's first (baseline) round; the counted reward is the
    # raw reward minus the baseline (configurations here: baseline none / last, no operator)
    h_ch, h_rw, seen = [], [], [[] for _ in range(cfg["nt"])]
    for rnd in range(upto):
        pre_ch, pre_rw = list(h_ch), list(h_rw)
        try:
            a = ad.select()
        except Exception as e:
            return judged, late, {"round": rnd, "what": f"select raised {e!r}", "code": f"exception:{type(e).__name__}"}
        if len(pre_rw) >= 2 * cfg["nt"]:
            idx = documented_index_f(pre_ch, pre_rw, cfg["nt"], cfg["gamma"], cfg["zeta"], cfg["bound"])
            best = max(idx)
            judged += 1
            late += len(pre_rw) > 250
            if not (0 <= a < cfg["nt"]) or not (idx[a] == best or idx[a] >= best - LONG_ULPS * np.spacing(abs(best))):
                return judged, late, {"round": rnd, "what": f"round {rnd} (history {len(pre_rw)}): arm {a} chosen, documented index {idx}",
                                      "code": "not_a_maximiser_long" if len(pre_rw) > 250 else "not_a_maximiser"}
        elif a != len(pre_rw) % cfg["nt"]:
            return judged, late, {"round": rnd, "what": f"round {rnd} (counted rounds {len(pre_rw)} < 2 x {cfg['nt']} arms): arm {a} chosen, every arm in turn expected",
                                  "code": "initial_rounds_not_in_turn"}
        if rnd % 40 == 39:  # the problem is non-stationary
            means = np.clip(means + rng.uniform(-0.3, 0.3, size=cfg["nt"]), 0.05, 0.95)
        r = float(np.clip(np.round((means[a] + rng.uniform(-0.25, 0.25)) * 16) / 16, 0.0, 1.0))
        ad.feedback(r)
        h_ch.append(a)
        if cfg["kind"] == "gen":
            if not seen[a]:
                h_ch.pop()
            else:
                h_rw.append(r - (seen[a][-1] if cfg["baseline"] == "last" else 0.0))
            seen[a].append(r)
        else:
            h_rw.append(r)
    return judged, late, None


def run_long(rep):
    """Histories longer than the 250-step window with gamma in {0.9, 0.95}: not representable in TLC's integers, so (weaker,
    order only) every choice must maximise the independent float64 evaluation of the documented index."""
    tot = late_tot = 0
    for cfg in long_configs():
        judged, late, fail = long_behaviour(cfg, rep.seed)
        tot += judged
        late_tot += late
        cls = CLASS_OF[cfg["kind"]]
        if fail:
            rep.violation(f"{cls}:long:{fail['code']}", f"{cls} {cfg}: {fail['what']}",
                          {"kind": "sched:long", "cfg": cfg, "seed": rep.seed, "round": fail["round"]})
        elif late < min(cfg.get("rounds", LONG_ROUNDS) - 251 - 3 * cfg["nt"], 40):
            raise tlc.MachineryError(f"long behaviour {cfg} judged only {late} choices beyond round 250")
    rep.traces += tot
    rep.extra["sched_long_behaviours"] = {"behaviours": len(long_configs()), "rounds": LONG_ROUNDS, "choices_judged": tot, "beyond_round_250": late_tot}
    return tot


def run_zeta(rep, graphs, quick):
    """zeta > 0: the padding (sqrt, log) is not evaluable in TLA+.  Weaker use: the arm chosen by the real bandit must
    maximise an independent float evaluation of the documented index, up to 4 ulp."""
    cases = 0
    for name in ("ducb2-half", "ducb3-two", "gen2-max-max-with-0", "gen3-max-max0"):
        if name not in graphs:
            continue
        c, G = graphs[name]
        p = p_of(c)
        for zeta, bound in ((0.002, 1.0), (0.5, 2.0)):
            for rs in reward_sequences(G, 60 if quick else 400, rep.seed):
                ad = SelAdapter(p, zeta=zeta, upper_bound=bound)
                d = ad.ducb
                for n_, r in enumerate(rs):
                    pre_ch, pre_rw = list(d.chosen_arms), list(d.rewards)
                    try:
                        a = ad.select()
                        pend = ad.p["kind"] == "ducb" or ad.obj.waiting_for_reward
                        if not pend:
                            raise AssertionError("selector does not wait for the reward after select()")
                    except Exception as e:
                        rep.violation(f"{CLASS_OF[p['kind']]}:zeta:exception:{type(e).__name__}", f"select raised {e!r} with zeta={zeta}",
                                      {"kind": "sched:zeta", "p": {**p, "gamma": qj(p["gamma"]), "hg": qj(p["hg"])}, "zeta": zeta, "bound": bound, "rewards": rs[: n_ + 1]})
                        break
                    if len(pre_rw) >= 2 * p["nt"]:
                        idx = documented_index(pre_ch, pre_rw, p["nt"], p["gamma"], zeta, bound)
                        best = max(idx)
                        cases += 1
                        if not (idx[a] == best or idx[a] >= best - 4 * np.spacing(abs(best))):
                            rep.violation(f"{CLASS_OF[p['kind']]}:zeta:not_a_maximiser",
                                          f"{name} zeta={zeta}: arm {a} chosen, documented index {idx}",
                                          {"kind": "sched:zeta", "p": {**p, "gamma": qj(p["gamma"]), "hg": qj(p["hg"])}, "zeta": zeta, "bound": bound, "rewards": rs[: n_ + 1]})
                            break
                    ad.feedback(fq(r))
    rep.traces += cases
    rep.extra["sched_zeta_positive_choices"] = cases
    return cases


def _win_norm(v, W=250):
    """What the documented behaviour depends on: the last W counted rounds (the bandit may keep more), their number while
    it is below W, and the rest of the projection."""
    v = dict(v)
    n = len(v["rewards"])
    v["chosen"], v["rewards"] = list(v["chosen"][max(0, n - W):]), list(v["rewards"][-W:])
    return v


def _window_replay(emitted, p):
    """The model's single behaviour on ONE live object: choice and window-normalised state after every call.
    -> (calls made, first violation or None)"""
    ad = SelAdapter(p)
    path = []
    if graph.canon(_win_norm(sel_project(ad))) != graph.canon(_win_norm(emitted[0]["pre"])):
        return 0, {"code": "initial_state_differs", "what": "fresh selector differs from the model's initial state", "path": [{"op": "<construct>"}]}
    by_pre = {}
    for e in emitted:
        by_pre.setdefault(graph.canon(e["pre"]), []).append(e)
    chain, cur = [], graph.canon(emitted[0]["pre"])
    while cur in by_pre:
        outs = by_pre.pop(cur)
        moves = [e for e in outs if graph.canon(e["post"]) != cur]
        if len(moves) > 1:
            raise tlc.MachineryError("window model is not a single behaviour")
        chain += [e for e in outs if graph.canon(e["post"]) == cur] + moves  # rejected out-of-turn calls first
        if not moves:
            break
        cur = graph.canon(moves[0]["post"])
    if len(chain) != len(emitted):
        raise tlc.MachineryError("window model is not a single behaviour")
    for n_, e in enumerate(chain):
        path.append({"op": e["op"], "args": e["args"], "exp": e["exp"]})
        try:
            sel_step(ad, e["op"], e["args"], e["exp"], e["pre"], e["post"])
            got, want = _win_norm(sel_project(ad)), _win_norm(e["post"])
            if graph.canon(got) != graph.canon(want):
                bad = sorted(k for k in want if got.get(k) != want[k])
                raise Mismatch(f"state after {e['op']} differs from model in {bad}", code="state[" + "+".join(bad) + "]")
        except Mismatch as m:
            return n_ + 1, {"code": m.code, "what": m.what, "path": path}
        except Exception as ex:
            return n_ + 1, {"code": f"exception:{type(ex).__name__}", "what": f"{e['op']} raised {ex!r}"[:300], "path": path}
    return len(emitted), None


def _window_job(kind, nt, rounds):
    c = _cfg(KIND=kind, NT=nt, GAMMA=S("QOne"), REWARDS=S("RewConst"), MAXROUNDS=rounds, MAXREJ=0, EMIT=True, TIE="first")
    # the per-arm vectors of a many-armed bandit are folded recursively: give TLC's worker a deeper Java stack
    return kind, nt, c, tlc.run("Scheduler", tlc.cfg_text(constants=c, invariants=["Aligned"]), workers=1, tag=f"sched-window-{kind}{nt}",
                                env={"JAVA_TOOL_OPTIONS": "-Xmx8g -Xss256m"})


def window_jobs(quick):
    """(kind, arms, selections).  Two arms: the only thing that makes the bandit leave arm 0 is another arm falling out of
    the 250-step window.  126 arms: the initial phase (every arm twice = 252 counted rounds) is itself longer than the
    window, so a round counter derived from the *stored* history would never leave it; for DUCBGeneralized the 126
    baseline rounds come first."""
    jobs = [("ducb", 2, 262), ("gen", 126, 126 + 252 + 14)]
    if not quick:
        jobs += [("ducb", 3, 262), ("gen", 2, 2 + 262), ("ducb", 126, 252 + 30)]
    return jobs


def run_window(rep, results):
    """The 250-step window: with constant rewards all arms tie for ever.  One deterministic behaviour per configuration,
    replayed edge by edge (choice and projected state after every call)."""
    tot = 0
    for kind, nt, c, r in results:
        rep.add_tlc(r, f"Scheduler sel {kind} window NT={nt} ({c['MAXROUNDS']} selections, constant reward)")
        if not r.ok:
            rep.violation(f"spec:Scheduler:{r.violated}", f"design-level violation {r.violated} (window)", r.error_trace[:3000])
            continue
        G = graph.Graph(r.emitted)
        sel_states = [G.state[k] for k, es in G.out.items() for e in es if e[0] == "Select"]
        forced = sum(1 for st in sel_states if len(st["rewards"]) >= 2 * nt and [0, 1] in st["freq"])
        beyond = sum(1 for st in sel_states if len(st["rewards"]) >= max(2 * nt, 251))
        if nt <= 3 and not forced:
            raise tlc.MachineryError("window model never reaches an arm without weight in the window")
        if nt > 3 and beyond < 5:
            raise tlc.MachineryError(f"window model NT={nt}: only {beyond} choices after the initial phase with more than 250 counted rounds")
        p = p_of(c)
        cls = CLASS_OF[kind]
        n_done, v = _window_replay(r.emitted, p)
        tot += n_done
        if v is not None:
            rep.violation(f"{cls}:window:{v['code']}", f"{cls} window (NT={nt}) after {len(v['path'])} calls: {v['what']}",
                          {"kind": "sched:window", "p": {**p, "gamma": qj(p["gamma"]), "hg": qj(p["hg"])}, "path": v["path"]})
        rep.extra[f"sched_window_{kind}_nt{nt}"] = {"forced_choices": forced, "choices_after_initial_phase_beyond_250_rounds": beyond}
    rep.traces += tot
    return tot


def model_jobs(quick):
    """(name, constants, invariants, properties, next, expected violation or None)"""
    P = ["PoolMovesOK", "TrainsOnlyPool"]
    jobs = [
        ("canary Select_IgnoresWaiting", _cfg(KIND="rr", NT=2, MAXROUNDS=3), ["Alternates"], [], "NextSelBad", "Alternates"),
        ("canary Feedback_KeepsFirst", _cfg(KIND="gen", NT=2, MAXROUNDS=3), ["Aligned"], [], "NextGenBad", "Aligned"),
        ("sel gen2 any-tie", _cfg(KIND="gen", NT=2, BASELINE="max", OP="max-with-0", REWARDS=S("RewTwo"), GAMMA=S("QOne"), MAXROUNDS=8 if quick else 10), SEL_INV, [], "Next", None),
        ("uts", _cfg(MODE="uts", NT=2, T=6, EPI=2, MAXLEN=3, MAXROUNDS=8), ACC_INV, [], "Next", None),
        ("uts warm-up 3", _cfg(MODE="uts", NT=2, T=7, EPI=1, MAXLEN=3, MAXROUNDS=8, EXPL=3), ACC_INV, [], "Next", None),
        ("canary UtsCall_RelativeWarmup", _cfg(MODE="uts", NT=2, T=7, EPI=1, MAXLEN=3, MAXROUNDS=8, EXPL=3), ["NoUpdateBeforeWarmup"], [], "NextUtsBad", "NoUpdateBeforeWarmup"),
        ("canary uts learner one short: counter", _cfg(MODE="uts", NT=2, T=6, EPI=1, MAXLEN=3, MAXROUNDS=8, LMODE="short"), ["UtsExact"], [], "Next", "UtsExact"),
        ("canary uts learner one short: budget", _cfg(MODE="uts", NT=2, T=6, EPI=1, MAXLEN=3, MAXROUNDS=8, LMODE="short"), ["BudgetRespected"], [], "Next", "BudgetRespected"),
        ("amt rr", _cfg(MODE="amt", KIND="rr", NT=3, T=7, EPI=2, MAXLEN=2), ACC_INV, [], "Next", None),
        ("amt gen", _cfg(MODE="amt", KIND="gen", NT=2, T=7 if quick else 9, EPI=1, MAXLEN=2, BASELINE="max", OP="max-with-0"), ACC_INV + ["InitialRoundsCoverAll", "ChoiceMaximises"], [], "Next", None),
        ("canary AmtCall_CountsReported", _cfg(MODE="amt", KIND="rr", NT=2, T=4, EPI=1, MAXLEN=2, LMODE="short"), ["PerTaskExact"], [], "NextAmtBad", "PerTaskExact"),
        ("smt K=2", _cfg(MODE="smt", NT=3, KK=2, T=5, B2=2, EPI=1, MAXLEN=2, NAV=2), ACC_INV, P, "Next", None),
        ("canary SmtSweepEnd_KeepsInMain", _cfg(MODE="smt", NT=3, KK=1, T=4, B2=1, EPI=1, MAXLEN=2, NAV=1), ["Partition"], [], "NextSmtBad", "Partition"),
    ]
    if not quick:
        jobs += [
            ("smt learner one short (insensitive)", _cfg(MODE="smt", NT=3, KK=2, T=4, B2=2, EPI=1, MAXLEN=2, NAV=1, LMODE="short"), ACC_INV, P, "Next", None),
            ("smt E=2", _cfg(MODE="smt", NT=3, KK=2, T=6, B2=3, EPI=2, MAXLEN=2, NAV=1), ACC_INV, P, "Next", None),
            ("amt learner one short (insensitive)", _cfg(MODE="amt", KIND="rr", NT=2, T=6, EPI=2, MAXLEN=2, LMODE="short"), ACC_INV, [], "Next", None),
            ("sel ducb2 window 3", _cfg(KIND="ducb", NT=2, GAMMA=S("QOne"), WIN=3, REWARDS=S("RewTwo"), MAXROUNDS=9 if quick else 11), SEL_INV, [], "Next", None),
            ("smt K=1 kappa 1/4", _cfg(MODE="smt", NT=3, KK=1, T=6, B2=2, EPI=1, MAXLEN=2, NAV=2, KAPPA=S("QQuarter")), ACC_INV, P, "Next", None),
            ("smt K=3", _cfg(MODE="smt", NT=3, KK=3, T=5, B2=2, EPI=1, MAXLEN=2, NAV=1, KAPPA=S("QQuarter")), ACC_INV, P, "Next", None),
            ("smt b2=0", _cfg(MODE="smt", NT=2, KK=1, T=4, B2=0, EPI=1, MAXLEN=2, NAV=1), ACC_INV, P, "Next", None),
            ("amt gen 3 arms", _cfg(MODE="amt", KIND="gen", NT=3, T=11, EPI=1, MAXLEN=1, BASELINE="last", RETS=S("RewTwo")), ACC_INV + ["InitialRoundsCoverAll", "ChoiceMaximises"], [], "Next", None),
            ("uts E=3", _cfg(MODE="uts", NT=3, T=7, EPI=3, MAXLEN=3, MAXROUNDS=8), ACC_INV, [], "Next", None),
        ]
    return jobs


def _model_job(j):
    name, c, inv, props, nxt, want = j
    return j, tlc.run("Scheduler", tlc.cfg_text(constants=c, invariants=inv, properties=props, next=nxt), workers=1, coverage=want is None, tag="sched-mc")


def run_models(rep, results):
    for (name, c, inv, props, nxt, want), r in results:
        if want is not None:
            if r.violated != want:
                raise tlc.MachineryError(f"{name}: deviation not refuted by {want} (got {r.violated})")
            continue
        rep.add_tlc(r, f"Scheduler {name}")
        if not r.ok:
            rep.violation(f"spec:Scheduler:{r.violated}", f"design-level violation of {r.violated} in {name}", r.error_trace[:3000])
            continue
        need = {"sel": ["Select"], "uts": ["UtsCall"], "amt": ["AmtCall"], "smt": ["SmtCall", "SmtSweepEnd"]}[c["MODE"]]
        tlc.require_covered(r, need)


def binding_canaries(traces, graphs):
    """corrupt one recorded field / one expected value: the comparison has to notice"""
    bad = []

    def pick(kind):  # a run the model accepted completely (on a broken tree there may be none: nothing to corrupt then)
        for t in traces:
            if t["kind"] == kind and t["mode"] == "exact" and t.get("clean") and sum(1 for e in t["events"] if e["k"] == "call") >= 2:
                return copy.deepcopy(t)
        return None

    t = pick("amt")
    if t:
        [e for e in t["events"] if e["k"] == "call"][1]["obs"]["ts"][0] += 1
        bad.append((t, "train_active_mt:call:ts"))
    t = pick("smt")
    if t:
        e = [e for e in t["events"] if e["k"] == "call"][1]
        e["obs"]["ts"][e["task"]] += 1
        bad.append((t, "train_smt:call:differs[ts"))
    t = pick("uts")
    if t:
        t["events"][-1]["obs"]["gs"] += 1
        bad.append((t, "train_uts:end:returned"))
    if not bad:
        return
    for n, (t, _) in enumerate(bad):
        t["id"] = f"canary{n}"
    r, by = validate([t for t, _ in bad], tag="schedcanary")
    for n, (t, want) in enumerate(bad, start=1):
        viol, _ = judge([t], {1: by.get(n, [])})
        if not any(k.startswith(want) for k, _, _ in viol):
            raise tlc.MachineryError(f"binding canary: corrupted trace {t['id']} not noticed (wanted {want}, got {[k for k, _, _ in viol]})")
    name = "rr3"
    if name in graphs:
        c, G = graphs[name]
        em = []
        done = False
        for k, es in G.out.items():
            for op, args, exp, k2 in es:
                if op == "Select" and not done:
                    exp = dict(exp, id=(exp["id"] + 1) % c["NT"])
                    done = True
                em.append({"pre": G.state[k], "op": op, "args": args, "exp": exp, "post": G.state[k2]})
        G2 = graph.Graph(em)
        res = graph.cover(G2, G2.roots()[0], lambda: SelAdapter(p_of(c)), sel_step, sel_project)
        if not res["violations"]:
            raise tlc.MachineryError("binding canary: corrupted expected task id not noticed by the selector replay")


def run_sched(rep):
    quick = rep.tier == "quick"
    for m in ("SchedulerOps", "Scheduler", "SchedulerTrace"):
        tlc.sany(m)
    with ThreadPoolExecutor(WORKERS) as ex:  # all TLC runs of the state machines, a few at a time
        f_models = [ex.submit(_model_job, j) for j in model_jobs(quick)]
        f_graphs = [ex.submit(_gen_graph, n, c) for n, c in sel_configs(quick)]
        f_window = [ex.submit(_window_job, *j) for j in window_jobs(quick)]
        traces, by, calls = run_traces(rep, quick)  # meanwhile: the real schedulers
        run_models(rep, [f.result() for f in f_models])
        graphs, edges, nontrivial = run_selectors(rep, quick, [f.result() for f in f_graphs])
        wc = run_window(rep, [f.result() for f in f_window])
    rep.extra["sched_selector_edges"] = edges
    zc = run_zeta(rep, graphs, quick) + run_long(rep)
    binding_canaries(traces, graphs)
    rep.evaluations += edges + calls + zc + wc
    rep.distinct += nontrivial + calls + zc
    rep.extra["sched_exhaustive_within_bounds"] = True
    rep.rule = (rep.rule + " | " if rep.rule else "") + (
        "scheduler: every transition of the TLC state graphs of the selector machine (select / feedback / out-of-turn calls; "
        "D-UCB on exact rationals, gamma in {1/2,1}, zeta=0) replayed once into the real selector; non-trivial = choices after the "
        "initial rounds, out-of-turn calls, round-robin selections; plus one case per train_st call of the recorded train_uts / "
        "train_active_mt / train_smt runs (systematic budgets x episode limits, scripts drawn with the seed)")
    rep.assumptions += [
        f"scheduler: D-UCB beyond the 250-step window with gamma in {{0.9, 0.95}} (24 behaviours of {LONG_ROUNDS} rounds, DUCB and DUCBGeneralized, 2 and 3 arms, zeta in {{0, 0.002}}, drifting random rewards from the seed) is checked by order only: every choice maximises an independent float64 evaluation of the documented index (window 250, absolute exponents) up to {LONG_ULPS} ulp (two 250-term sums, division, sqrt/log)",
        "scheduler: D-UCB with zeta>0 is only checked by order: the chosen arm maximises an independent float64 evaluation of the documented index up to 4 ulp (sqrt/log are not evaluable in TLA+)",
        "scheduler: selectors <= 3 arms and <= 11 rounds exhaustively (250-step window by single behaviours with constant rewards on one live selector: 2 arms / 262 rounds, and 126 arms, whose initial phase of 252 counted rounds is longer than the window; compared state = the last 250 counted rounds); schedulers <= 4 tasks, dyadic kappa, thresholds +-1, scripted learner (real learners are judged by the loop part)",
        "scheduler: SMT pools and counters are read from the local variables of smt_stage1/smt_stage2/train_active_mt at every train_st call (names are part of the binding)",
        "scheduler: warm-up hand-over: the learning_starts argument of every recorded train_st call is compared exactly (train_uts: exploring_starts; train_smt / train_active_mt: their learning_starts unchanged, as the code documents a plain threshold); that the learner compares it with its absolute step counter is the modelled contract of the scripted learner (the real learners' warm-up is judged by the loop part)",
        "scheduler: train_uts has no bookkeeping of its own; its totals are exact only if the learner reports start+executed (runs with a learner reporting one short are recorded under uts_learner_reports_one_short, not judged)",
    ]


def _p_from_json(pj):
    p = dict(pj)
    p["gamma"] = Fraction(pj["gamma"][0], pj["gamma"][1])
    p["hg"] = Fraction(pj["hg"][0], pj["hg"][1])
    return p


def replay_sched(d, rep):
    """Re-run one stored failing case against the real code; 1 if it still fails."""
    if not isinstance(d, dict):
        print("design-level violation (TLC error trace), nothing to replay against the code:")
        print(str(d)[:3000])
        return 1
    kind = d.get("kind")
    if kind == "sched:sel":
        p = _p_from_json(d["p"])
        ad = SelAdapter(p)
        try:
            for st in d["path"]:
                sel_step(ad, st["op"], st["args"], st.get("exp"), None, None)
                v = sel_project(ad)
                print(f"{st['op']:17s} {st['args']!s:10s} -> waiting={v['waiting']} chosen={v['chosen']} rewards={v['rewards']} last={v['last']}")
        except Mismatch as m:
            print("  ", m.what)
            return 1
        got = sel_project(ad)
        want = d.get("want")
        if want is not None and graph.canon(got) != graph.canon(want):
            bad = sorted(k for k in want if got.get(k) != want[k])
            for k in bad:
                print(f"   {CLASS_OF[p['kind']]}.{k}: real {got.get(k)}  model {want[k]}")
            return 1
        return 0
    if kind == "sched:window":
        p = _p_from_json(d["p"])
        ad = SelAdapter(p)
        for n_, st in enumerate(d["path"]):
            try:
                sel_step(ad, st["op"], st["args"], st["exp"], None, None)
            except Mismatch as m:
                print(f"   after {n_ + 1} calls: {m.what}")
                return 1
        print("   every choice as in the model; counted history kept by the object:", len(ad.ducb.rewards))
        return 0
    if kind == "sched:trace":
        t = run_scheduler(d["scenario"])
        t["scenario"] = d["scenario"]
        for e in t["events"]:
            print("  ", json.dumps(e)[:300])
        if t["exception"]:
            print("   exception:", t["exception"])
        r, by = validate([t], tag="schedreplay")
        viol, _ = judge([t], by)
        for k, w, _ in viol:
            print(f"   {k}: {w[:600]}")
        return 1 if viol else 0
    if kind == "sched:zeta":
        p = _p_from_json(d["p"])
        ad = SelAdapter(p, zeta=d["zeta"], upper_bound=d["bound"])
        a = None
        for r in d["rewards"]:
            pre = (list(ad.ducb.chosen_arms), list(ad.ducb.rewards))
            a = ad.select()
            ad.feedback(fq(r))
        idx = documented_index(pre[0], pre[1], p["nt"], p["gamma"], d["zeta"], d["bound"])
        print(f"   chosen arm {a}; documented index per arm {idx}")
        return 0 if idx[a] >= max(idx) - 4 * np.spacing(abs(max(idx))) else 1
    if kind == "sched:long":
        judged, late, fail = long_behaviour(d["cfg"], d["seed"], upto=d["round"] + 1)
        print(f"   {d['cfg']}: {judged} choices judged ({late} beyond round 250): {fail['what'] if fail else 'all maximise the documented index'}")
        return 1 if fail else 0
    print("unknown replay object", str(d)[:200])
    return 2
