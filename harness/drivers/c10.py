"""C10 - actions sent to the environment respect the action-space bounds."""
import json
import os

from .. import sweep, tlc

LEVEL = "model_checking"
MANIFEST = dict(
    category="model_checking",
    text="Bounds.tla states the samplers as compositions on exact rationals (exploration = Clip(a + sigma*s*n), target smoothing = Clip(a + Clip(sigma*s*n, -c*s, c*s)), tanh scaling at saturation points, CEM proposals with truncated noise and distance-to-bound variance cap); TLC checks that every composition stays inside [low, high] and that the applied smoothing noise is bounded by c*s over a lattice of bound configurations (symmetric, asymmetric, tiny, huge, per-dimension different) and refutes the wrong-order / wrong-range variants; TLC-generated vectors are replayed into sample_actions, sample_target_actions, DeterministicTanhPolicy, cem_sample / cem_update / optimize_cem with the key-determined noise obtained from jax.random with the same key. During recorded training runs of DDPG, TD3, TD3+LAP, TD7, MR.Q and PETS on environments with asymmetric per-dimension bounds, LoopTrace.tla checks every action the environment receives on float32 ordinals (ActionInBounds); the scenarios' noise-like parameters are pairwise different and one scenario per routine runs with exploration noise 0, where every action received after the warm-up must equal the clipped action of the live policy at the observation the environment returned last (ExplorationNoiseScale).",
    note="tanh values themselves are not evaluated (saturation points and order only); noise equation only on interior points; C10 names DDPG/TD3/TD3+LAP/TD7/MR.Q/PETS - other routines' actions are not judged; trusted: ordinal coding, recording environment, TLC",
    technique="TLA+ spec + TLC on a dyadic lattice replayed into the real samplers; trace validation of recorded training runs on float32 ordinals",
)
C10_ROUTINES = ("ddpg", "td3", "td3_lap", "td7", "td7_ckpt", "mrq", "pets")
NOISE_ROUTINES = ("ddpg", "td3", "td3_lap", "td7", "td7_ckpt", "mrq")  # exploration = policy action + scaled Gaussian noise


def _fn_enabled():
    return "c10_fn" in open(os.path.join(os.path.dirname(__file__), "..", "..", "tools", "parts_enabled.txt")).read().split()


def run(rep):
    for m in ("LoopClauses", "LoopTrace"):
        tlc.sany(m)
    traces, out = sweep.report_property(rep, "C10")
    mine = [t for t in traces if t["cfg"]["routine"] in C10_ROUTINES]
    n = sum(1 for t in mine for e in t["events"] if e["ev"] == "step")
    pol = sum(1 for t in mine for i, e in enumerate(t["events"]) if e["ev"] == "step" and i and t["events"][i - 1]["ev"] == "policy")
    if not mine or pol == 0:
        raise tlc.MachineryError("no recorded continuous-control run with policy-chosen actions (vacuous)")
    sweep.binding_canary_bounds(mine)
    # last clause, in runs: exploration noise level 0 (all other noise-like parameters non-zero and pairwise different)
    zero = {}
    for t in mine:
        if t["cfg"].get("expl_noise8") == 0 and not t.get("error"):
            ev = t["events"]
            zero[t["cfg"]["routine"]] = zero.get(t["cfg"]["routine"], 0) + sum(1 for i, e in enumerate(ev) if e["ev"] == "step" and e.get("has_pol") and i and ev[i - 1]["ev"] == "policy")
    missing = [r for r in NOISE_ROUTINES if not zero.get(r)]
    if missing:
        raise tlc.MachineryError(f"no policy-chosen action in a run with exploration noise 0 for {missing} (vacuous)")
    sweep.binding_canary_noise(mine)
    rep.extra["trace_part"] = {"routines": sorted({t["cfg"]["routine"] for t in mine}), "actions_checked": n, "policy_chosen_actions": pol,
                               "zero_noise_actions_equal_to_live_policy": zero}
    if _fn_enabled():
        from . import c10_fn

        c10_fn.run_fn(rep)
    else:
        rep.evaluations = n
        rep.distinct = pol
        rep.rule = "one case = one action received by the recording environment in a recorded run; non-trivial = actions computed by the policy / planner (not warm-up samples)"
        rep.sample({"trace": mine[0]["id"], "step_event": next(e for e in mine[0]["events"] if e["ev"] == "step")})
        rep.assumptions.append("function-level part (Bounds.tla) not enabled in this build")


def replay(path, rep):
    d = json.load(open(path))["replay"]
    if isinstance(d, dict) and d.get("kind") == "sweep":
        rc = sweep.replay_one(d, "C10")
    else:
        from . import c10_fn

        rc = c10_fn.replay_fn(d, rep)
    if rc:
        print(f"VIOLATION property=C10 replay={path}")
    return rc
