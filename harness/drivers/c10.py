"""THROW-AWAY development driver for C10 (function-level clauses only); the coordinator replaces it."""
import json

from . import c10_fn

LEVEL = "model_checking"
MANIFEST = dict(
    category="model_checking",
    text="(development stub - function-level clauses only)",
    note="",
    technique="TLA+ spec + TLC; replay of TLC-generated vectors into the samplers / tanh head / CEM",
)


def run(rep):
    c10_fn.run_fn(rep)


def replay(path, rep):
    d = json.load(open(path))
    rc = c10_fn.replay_fn(d["replay"], rep)
    if rc:
        print("VIOLATION property=C10 replay=" + path)
    return rc
