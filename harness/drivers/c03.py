"""C03 - critic and representation losses implement their documented targets per sample.

spec/Losses.tla transcribes the documented targets of dqn_loss, nature_dqn_loss,
ddqn_loss, ddqn_per_loss, ddpg_loss, td3_loss, td3_lap_loss, sac_loss,
td7_update_critic, mrq_loss, state_action_embedding_loss and
model_based_encoder_loss on exact rationals.  TLC checks TerminatedNoBootstrap,
AfterTermIgnored, PermutationInvariant, PerSample and GradSupport on the model;
TLC-generated vectors (network OUTPUTS chosen by TLC, expected loss / auxiliary
outputs / gradients printed by TLC) are realised with table-lookup stub
networks (harness/stubs.py) and replayed into the real functions; values and
gradients are compared exactly.  The update routines around the losses
(update_model_based_encoder, update_sale, update_critic_and_policy, td7_update_critic) are
replayed with an SGD optimiser: returned values and old - new parameters against TLC's
SgdStep values, hyper-parameters pairwise distinct.  Beyond the lattice the same vectors are
re-run with float noise on every parameter and the spec's irrelevant cells
(bootstrap part of terminated rows, steps after a termination) are perturbed /
the batch is permuted with bitwise comparison.

Configuration space of the MR.Q encoder and its loss: encoder_activation_in_last_layer, activation (relu / hard_tanh),
normalize_targets, environment_terminates, the three weights and the horizon are TLC-chosen parameters; both encoders are
built by the REAL ModelBasedEncoder constructor in that configuration (stubs.make_model_based_encoder_cfg; real encode_zs /
encode_zsa / model_head; only the sub-networks are tables and zs_layer_norm an exact affine map that does not commute with
the activation).  TLC chooses the RAW outputs of the target encoder's zs network and applies the documented stages itself
(Losses.tla: Stage / ApplyStages / EncodeZsStages / DynTargetStages, invariant EncoderConfigLaw, deviation "tgtnoact").
"""
from __future__ import annotations

import json
import math
import traceback
from dataclasses import dataclass, field
from fractions import Fraction

import numpy as np

from .. import exact, stubs, tlc

LEVEL = "model_checking"
MANIFEST = dict(
    category="model_checking",
    text="Losses.tla transcribes the documented target and regression of every critic loss (DQN, Nature-DQN, DDQN, PER-DDQN, DDPG, TD3, TD3+LAP, SAC, TD7 critic update, MR.Q) and of the two representation losses (SALE embedding loss, MR.Q unrolled encoder loss) on exact rationals; the configuration of the MR.Q encoder is part of the model (encoder_activation_in_last_layer x activation in {relu, hard_tanh} x normalize_targets x environment_terminates x weights x horizon; encode_zs = [activation] o layer norm o zs as named stages applied by TLC to the raw outputs of the target encoder's zs network; both encoders are built by the real ModelBasedEncoder constructor in the chosen configuration and its real encode_zs / encode_zsa / model_head run); TLC proves on the model, for every batch of the lattice, that terminated rows carry no bootstrap, that steps after a termination are ignored, permutation invariance, that the loss is a mean of per-sample terms and that only online parameters are reached by gradients, that the dynamics targets are exactly the target encoder's encode_zs (resp. raw zs) outputs, and refutes six named deviations (incl. two neighbouring hyper-parameters exchanged inside an update routine and a hand-rolled encode_zs that forgets the activation of the last layer). The USE of the losses by their update routines is modelled too (update_model_based_encoder's scan over mini-batches with the weighted sum dw*L_dyn + rw*L_reward + tw*L_done per mini-batch, update_sale, MR.Q's update_critic_and_policy, td7_update_critic): with pairwise distinct non-default hyper-parameters and an SGD optimiser of dyadic learning rate the returned losses / auxiliary outputs and the parameter step (old - new) of the real routine equal TLC's values, and nothing but the trained module moves. Every TLC-generated vector (exhaustive small lattice + seeded random walks over the full lattice, batch sizes 1-4) is realised with table-lookup stub networks and replayed into the REAL functions; loss, auxiliary outputs and jax gradients w.r.t. every parameter group and the bootstrap inputs are compared with TLC's numbers exactly (==) for batch sizes 1, 2, 4; for batch size 3 (mean over 3 is not dyadic) within a counted rounding bound k * 2^-24 * sum |terms| taken over the terms that are added, never relative to the result. Function-level properties over all inputs cannot be exhausted, so model checking of the documented arithmetic plus exact replay is the right level.",
    note="bounded lattices (dyadic values, batch size <= 4, 2-3 discrete actions, horizon <= 3; update routines: batch size 2/4, 1-2 mini-batches on disjoint rows, plain SGD); network forward passes are inputs (stubs; the encoder's layer norm is an exact affine stand-in, gain 2 / bias -1/4, its activation relu or hard_tanh - elu and nnx.LayerNorm numerics are not judged); two-hot reward cross-entropy only for uniform logits (value = coefficient * ln #bins within 24 counted roundings of its non-negative terms); off-lattice floats only relationally (bitwise irrelevance / permutation); trusted: harness/stubs.py realisation, Exact.tla, TLC",
    technique="TLA+ spec + TLC (exhaustive invariants on the model, deviation canaries, vector generation); replay of TLC-generated vectors into the real loss functions and their update routines with stub nnx modules, exact value, gradient and SGD-step comparison",
)

INVS = ["TypeOK", "TerminatedNoBootstrap", "AfterTermIgnored", "PermutationInvariant", "PerSample", "GradSupport", "EncoderConfigLaw"]
UPD_INVS = INVS + ["UpdEachWeightItsOwnTerm", "UpdScalesInRole"]
ALL_KINDS = ["dqn", "nature", "ddqn", "per", "ddpg", "td3", "lap", "sac", "td7", "mrq", "sale", "enc"]
# update routines: the USE of a loss (differentiate, apply with the caller's optimiser, return); spec operator Base(k)
UPD_BASE = {"encupd": "enc", "saleupd": "sale", "mrqupd": "mrq"}
UPD_KINDS = sorted(UPD_BASE)
DISC = ("dqn", "nature", "ddqn", "per")
CONT = ("ddpg", "td3", "lap", "sac")
FNAME = {
    "dqn": "dqn_loss", "nature": "nature_dqn_loss", "ddqn": "ddqn_loss", "per": "ddqn_per_loss", "ddpg": "ddpg_loss",
    "td3": "td3_loss", "lap": "td3_lap_loss", "sac": "sac_loss", "td7": "td7_update_critic", "mrq": "mrq_loss",
    "sale": "state_action_embedding_loss", "enc": "model_based_encoder_loss",
    "encupd": "update_model_based_encoder", "saleupd": "update_sale", "mrqupd": "update_critic_and_policy",
}
BINS = np.array([-2.0, 0.0, 2.0, 4.0], dtype=np.float32)  # mean 1 = RBar of the spec; uniform softmax = 1/4 exactly
FILL = np.array([-2.0, -1.0, -0.5, 0.5, 1.0, 2.0, 3.0], dtype=np.float32)
ZRAW = np.array([[1, 1], [2, 0], [3, -1], [0.5, -1.5], [-0.5, 0.5], [0, -4]], dtype=np.float32)  # mean |.| is a power of two
NAN = float("nan")


# ----------------------------------------------------------------- helpers
def fq(x) -> Fraction:
    return exact.q(x)


def fl(x) -> float:
    return float(exact.q(x))


def seq(x):
    """TLC functions with domain 1..n arrive as JSON arrays (or objects with keys "1".."n")."""
    if isinstance(x, dict):
        return [x[str(i)] for i in range(1, len(x) + 1)]
    return x


def vecf(x):
    return [fl(v) for v in seq(x)]


def fill(rng, shape):
    return rng.choice(FILL, size=shape).astype(np.float32)


def avg_l1(v):
    """AvgL1Norm on rows whose mean |.| is a power of two (exact in float32)."""
    v = np.asarray(v, dtype=np.float32)
    return v / np.mean(np.abs(v), axis=-1, keepdims=True)


# ---- configuration of the MR.Q encoder: everything comes from the specification (record `enc` of a vector: activation name,
# constants of the layer-norm stand-in, encoder_activation_in_last_layer, stage lists in the documented order)
STAGE_NP = {
    "zs_layer_norm": lambda cfg, v: (np.float32(cfg["gain"]) * v + np.float32(cfg["shift"])).astype(np.float32),
    "activation": lambda cfg, v: {"relu": lambda x: np.maximum(x, np.float32(0.0)), "hard_tanh": lambda x: np.clip(x, np.float32(-1.0), np.float32(1.0))}[cfg["activation"]](v).astype(np.float32),
}


def enc_cfg(vec):
    """Encoder configuration of a vector as the binding uses it (both encoders are built by the REAL ModelBasedEncoder
    constructor with these arguments, see stubs.make_model_based_encoder_cfg)."""
    e = vec["enc"]
    if bool(e["actlast"]) != bool(vec["par"]["actlast"]):
        raise tlc.MachineryError("binding: emitted encoder configuration disagrees with the vector's parameters")
    return {"activation": e["activation"], "gain": fl(e["ln_gain"]), "shift": fl(e["ln_bias"]), "actlast": bool(e["actlast"]),
            "encode_zs": list(e["encode_zs"]), "dyn_target": list(e["dyn_target"])}


def apply_stages(cfg, names, v):
    """The specification's stage list `names` applied (in TLC's order) to raw outputs of a zs table - used only to REALISE
    TLC's numbers (solve table cells); expected values never come from here."""
    v = np.asarray(v, dtype=np.float32)
    for nm in names:
        v = STAGE_NP[nm](cfg, v)
    return v


def make_encoder(cfg, l, zsa_module=None):
    return stubs.make_model_based_encoder_cfg(l["zs.kernel"], l["za.kernel"], l["zsa.kernel"], l["model.kernel"], 2, cfg["activation"],
                                              cfg["actlast"], cfg["gain"], cfg["shift"], zsa_module=zsa_module)


# ---- non-dyadic batch sizes (mean over 3 rows): COUNTED rounding bounds, never "ulps of the result".
# One float32 rounding perturbs its result by at most U = 2^-24 relative to the magnitude of that result; a quantity computed
# by k roundings from terms t_1..t_m is therefore within  k * U * sum |t_j|  of the exact value (first order).  The sums |t_j|
# are taken over the TERMS that are added (cancellation-safe), not over the result.  Dyadic batch sizes (1, 2, 4): tolerance 0,
# i.e. exact ==.
U = 2.0 ** -24
TWO = ("td3", "lap", "sac", "td7", "mrq")
HUBER = ("lap", "td7", "mrq")
K_MEAN = 2  # 1/n (or the division by n) and the product with the exact sum of exactly representable terms
K_GRAD_MSE = 4  # cotangent 1/n, (importance weight), product with 2*(q - y), float32 rounding of the expected value
# Huber backward pass (rl_blox huber_loss and optax.huber_loss have the same structure): ct = g0*delta + (g0*min(|e|,delta) - g0*delta)
# with g0 = 1/n: roundings of g0, g0*min, g0*delta, the subtraction, the addition, + float32 rounding of the expected value;
# the added terms have magnitudes g0*delta, g0*min(|e|,delta) <= g0*|e|, g0*delta  ->  sum |terms| <= (2*delta + |e|) / n
K_GRAD_HUBER = 6


def dyadic_n(n):
    return n in (1, 2, 4)


def close_abs(v, x, tol=0.0):
    """float v equals rational x ([num, den]) exactly (tol == 0) or within the absolute, counted bound tol."""
    d = abs(Fraction(float(v)) - fq(x))
    return d == 0 if tol == 0 else d <= Fraction(float(tol))


def arr_close_abs(got, exp, tol):
    """elementwise |got - exp| <= tol (tol == 0 -> ==); returns boolean array"""
    got = np.asarray(got, dtype=np.float64)
    exp = np.asarray(exp, dtype=np.float64)
    tol = np.broadcast_to(np.asarray(tol, dtype=np.float64), exp.shape)
    return np.where(tol == 0, got == exp, np.abs(got - exp) <= tol)


def grad_tol(kind, n, g, e=None, delta=None):
    """Absolute tolerance for one expected gradient cell g = dReg/n (0 for dyadic batch sizes and for exact zeros of the MSE kinds)."""
    if dyadic_n(n):
        return 0.0
    if kind in HUBER:
        if e == 0:
            return 0.0  # g0*delta + (g0*0 - g0*delta) is exactly 0
        return K_GRAD_HUBER * U * (2.0 * delta + abs(e)) / n
    return K_GRAD_MSE * U * abs(g)


def value_tols(case, alt):
    """Counted bounds for the scalar outputs of the critic / SALE losses at non-dyadic batch sizes."""
    n, k = case.n, case.bkind
    if dyadic_n(n):
        return {"loss": 0.0, "qmean": 0.0, "mtd": 0.0}
    if k == "sale":  # one mean over n*2 exactly representable non-negative terms
        return {"loss": K_MEAN * U * fl(alt["loss"]), "qmean": 0.0, "mtd": 0.0}
    c = 2 if k in TWO else 1
    rows = case.vec["rows"]
    if k in DISC:
        qs = [abs(fl(r["x"]["q"])) for r in rows]
    elif c == 2:
        qs = [abs(min(fl(r["x"]["q1"]), fl(r["x"]["q2"]))) for r in rows]
    else:
        qs = [abs(fl(r["x"]["q1"])) for r in rows]
    return {
        # per critic a mean of non-negative exactly representable terms (sum |terms| / n = that mean), one addition of the two means
        "loss": (K_MEAN * c + (c - 1)) * U * fl(alt["loss"]),
        "qmean": K_MEAN * U * sum(qs) / n,  # signed terms: bound relative to sum |q_i| / n, not to the (possibly cancelling) mean
        "mtd": K_MEAN * U * fl(alt["mtd"]),
    }


def same_bits(a, b):
    a = np.asarray(a)
    b = np.asarray(b)
    return a.shape == b.shape and a.dtype == b.dtype and a.tobytes() == b.tobytes()


@dataclass
class Case:
    vec: dict
    kind: str
    n: int
    leaves: list  # per module: {leaf key: np.ndarray}
    arrays: dict  # name -> np.ndarray (vmapped inputs)
    exp_grad: dict = field(default_factory=dict)  # ref -> np.ndarray, nan = not checked;  ref = (module index, leaf key) | ("arr", name)
    groups: dict = field(default_factory=dict)  # spec group name -> [refs]
    boot: list = field(default_factory=list)  # per row: [(ref, index tuple)] cells realising the row's bootstrap part
    aux: dict = field(default_factory=dict)  # free: realisation details
    tol_grad: dict = field(default_factory=dict)  # ref -> np.ndarray of absolute tolerances (missing / 0 = exact ==)
    variant: str = "lattice"
    base: int = -1  # index of the case this variant is compared with
    perm: list | None = None
    fill_seed: tuple = ()
    irrelevant_rows: list = field(default_factory=list)

    @property
    def bkind(self):
        """kind of the loss the case is about (update routines: the loss they wrap)"""
        return UPD_BASE.get(self.kind, self.kind)


def terminated_rows(vec):
    """Rows (0-based) whose bootstrap part is irrelevant according to the specification (emitted set Irrelevant)."""
    return sorted(int(i) - 1 for i in vec["irr"])


def masked_steps(vec):
    """(row, step) pairs (0-based) after the first termination of a row, from the specification (encoder loss)."""
    return sorted((int(c[0]) - 1, int(c[1]) - 1) for c in vec["irr"])


# ----------------------------------------------------------------- realisation: TLC's network outputs -> stub parameters
def realise(vec, rng) -> Case:
    if vec["kind"] in UPD_BASE:
        return realise_update(vec, rng)
    k = vec["kind"]
    n = vec["n"]
    rows = vec["rows"]
    par = vec["par"]
    S = 2 * n
    c = Case(vec=vec, kind=k, n=n, leaves=[], arrays={})
    obs = stubs.onehot(np.arange(n), S)
    nobs = stubs.onehot(np.arange(n, 2 * n), S)
    alt0 = vec["alts"][0]
    if k in DISC:
        na = len(seq(rows[0]["b"]["Qn"]))
        W = fill(rng, (S, na))
        Wt = fill(rng, (S, na))
        act = np.zeros(n, dtype=np.int32)
        gW = np.zeros((S, na), dtype=np.float32)
        tW = np.zeros((S, na), dtype=np.float64)
        for i, rw in enumerate(rows):
            a = rw["x"]["a"] - 1
            act[i] = a
            W[i, a] = fl(rw["x"]["q"])
            if k != "nature":  # online values at o' matter
                W[n + i] = vecf(rw["b"]["Qn"])
            if k != "dqn":
                Wt[n + i] = vecf(rw["b"]["Qt"])
            gW[i, a] = fl(seq(alt0["g1"])[i])
            tW[i, a] = grad_tol(k, n, gW[i, a])
            c.boot.append([((0, "kernel"), (n + i,)), ((1, "kernel"), (n + i,))] if k != "dqn" else [((0, "kernel"), (n + i,))])
        c.leaves = [{"kernel": W}] + ([{"kernel": Wt}] if k != "dqn" else [])
        c.arrays = dict(
            obs=obs, act=act, r=np.array([fl(rw["x"]["r"]) for rw in rows], dtype=np.float32), nobs=nobs,
            term=np.array([rw["x"]["term"] for rw in rows], dtype=np.int32), gamma=np.float32(fl(par["gamma"])),
        )
        if k == "per":
            c.arrays["w"] = np.array([fl(rw["x"]["w"]) for rw in rows], dtype=np.float32)
        c.exp_grad[(0, "kernel")] = gW
        c.tol_grad[(0, "kernel")] = tW
        c.groups = {"online@obs": [((0, "kernel"), 0, n)], "online@next": [((0, "kernel"), n, S)], "next_obs": [("arr", "nobs")]}
        if k != "dqn":
            c.exp_grad[(1, "kernel")] = np.zeros_like(Wt)
            c.groups["target@next"] = [(1, "kernel")]
        c.exp_grad[("arr", "nobs")] = np.zeros_like(nobs)
    elif k in CONT:
        two = k != "ddpg"
        a = fill(rng, (n, 1))
        a2 = fill(rng, (n, 1))  # pi'(o') / sampled next action
        nq = 2 if two else 1

        def critic(qs, acts, rowsel):
            v = fill(rng, (1,))
            w = fill(rng, (S,))
            for i in range(n):
                w[rowsel(i)] = qs[i] - v[0] * acts[i, 0]
            return np.concatenate([w, v])[:, None].astype(np.float32)

        qon = [critic([fl(rw["x"]["q%d" % (j + 1)]) for rw in rows], a, lambda i: i) for j in range(nq)]
        qtg = [critic([fl(rw["b"]["Q%dt" % (j + 1)]) for rw in rows], a2, lambda i: n + i) for j in range(nq)]
        g = [np.array([fl(v) for v in seq(alt0["g%d" % (j + 1)])], dtype=np.float32) for j in range(nq)]

        def gcrit(gj):
            out = np.zeros((S + 1, 1), dtype=np.float32)
            out[:n, 0] = gj
            out[S, 0] = NAN  # action weight: sum_i g_i a_i, checked separately
            return out

        def tcrit(j):
            out = np.zeros((S + 1, 1), dtype=np.float64)
            for i, rw in enumerate(rows):
                e = fl(rw["x"]["q%d" % (j + 1)]) - fl(seq(alt0["y"])[i])
                out[i, 0] = grad_tol(k, n, g[j][i], e, fl(par["delta"]))
            return out

        c.arrays = dict(
            obs=obs, act=a, r=np.array([fl(rw["x"]["r"]) for rw in rows], dtype=np.float32), nobs=nobs,
            term=np.array([rw["x"]["term"] for rw in rows], dtype=np.int32), gamma=np.float32(fl(par["gamma"])),
        )
        c.aux["gv"] = [np.float32(np.sum(g[j].astype(np.float64) * a[:, 0].astype(np.float64))) for j in range(nq)]
        if k == "ddpg":
            P = fill(rng, (S, 1))
            P[n:] = a2
            c.leaves = [{"kernel": qon[0]}, {"kernel": qtg[0]}, {"kernel": P}]
            c.exp_grad = {(0, "kernel"): gcrit(g[0]), (1, "kernel"): np.zeros_like(qtg[0]), (2, "kernel"): np.zeros_like(P)}
            c.tol_grad = {(0, "kernel"): tcrit(0)}
            c.groups = {"online@obs": [((0, "kernel"), 0, n)], "online@next": [((0, "kernel"), n, S)], "target@next": [(1, "kernel")], "target_policy": [(2, "kernel")], "next_obs": [("arr", "nobs")]}
            c.boot = [[((1, "kernel"), (n + i,)), ((2, "kernel"), (n + i,))] for i in range(n)]
            c.aux["vref"] = [(0, "kernel")]
        else:
            c.leaves = [{"q1.kernel": qon[0], "q2.kernel": qon[1]}, {"q1.kernel": qtg[0], "q2.kernel": qtg[1]}]
            c.exp_grad = {
                (0, "q1.kernel"): gcrit(g[0]), (0, "q2.kernel"): gcrit(g[1]),
                (1, "q1.kernel"): np.zeros_like(qtg[0]), (1, "q2.kernel"): np.zeros_like(qtg[1]),
            }
            c.tol_grad = {(0, "q1.kernel"): tcrit(0), (0, "q2.kernel"): tcrit(1)}
            c.groups = {"online@obs": [((0, "q1.kernel"), 0, n), ((0, "q2.kernel"), 0, n)], "online@next": [((0, "q1.kernel"), n, S), ((0, "q2.kernel"), n, S)],
                        "target@next": [(1, "q1.kernel"), (1, "q2.kernel")], "next_obs": [("arr", "nobs")]}
            c.boot = [[((1, "q1.kernel"), (n + i,)), ((1, "q2.kernel"), (n + i,))] for i in range(n)]
            c.aux["vref"] = [(0, "q1.kernel"), (0, "q2.kernel")]
            if k == "sac":
                A = fill(rng, (S, 1))
                A[n:] = a2
                cc = fill(rng, (1,))
                Lp = fill(rng, (S, 1))
                for i, rw in enumerate(rows):
                    Lp[n + i, 0] = fl(rw["b"]["logp"]) - cc[0] * a2[i, 0]
                c.leaves.append({"actions": A, "logp": Lp, "c": cc})
                for kk, arr in (("actions", A), ("logp", Lp), ("c", cc)):
                    c.exp_grad[(2, kk)] = np.zeros_like(arr)
                c.groups["policy"] = [(2, "actions"), (2, "logp"), (2, "c")]
                c.arrays["alpha"] = np.float32(fl(par["alpha"]))
                for i in range(n):
                    c.boot[i] += [((2, "actions"), (n + i,)), ((2, "logp"), (n + i,))]
            else:
                c.arrays["nact"] = a2
                c.exp_grad[("arr", "nact")] = np.zeros_like(a2)
                c.groups["next_action"] = [("arr", "nact")]
                for i in range(n):
                    c.boot[i].append((("arr", "nact"), (i,)))
                if k == "lap":
                    c.arrays["delta"] = np.float32(fl(par["delta"]))
        c.exp_grad[("arr", "nobs")] = np.zeros_like(nobs)
    elif k == "td7":
        a = fill(rng, (n, 1))
        a2 = fill(rng, (n, 1))
        emb = []
        for _ in range(2):  # fixed embedding (t) and fixed target embedding (t-1)
            E = ZRAW[rng.integers(0, len(ZRAW), size=S)].copy()
            G = fill(rng, (3, 2))
            emb.append((E, G))
        zs = avg_l1(emb[0][0][:n])
        zsa = np.concatenate([zs, a], axis=1) @ emb[0][1]
        zs2 = avg_l1(emb[1][0][n:])
        zsa2 = np.concatenate([zs2, a2], axis=1) @ emb[1][1]

        def critic(qs, acts, zsa_, zs_, rowsel):
            K = fill(rng, (S + 1, 1))
            Ka = fill(rng, (2, 1))
            Kb = fill(rng, (2, 1))
            for i in range(n):
                K[rowsel(i), 0] = qs[i] - K[S, 0] * acts[i, 0] - float(zsa_[i] @ Ka[:, 0]) - float(zs_[i] @ Kb[:, 0])
            return {"k": K, "ka": Ka, "kb": Kb}

        on = [critic([fl(rw["x"]["q%d" % (j + 1)]) for rw in rows], a, zsa, zs, lambda i: i) for j in range(2)]
        tg = [critic([fl(rw["b"]["Q%dt" % (j + 1)]) for rw in rows], a2, zsa2, zs2, lambda i: n + i) for j in range(2)]
        c.leaves = [
            {"_state_embedding.kernel": emb[0][0], "state_action_embedding.kernel": emb[0][1]},
            {"_state_embedding.kernel": emb[1][0], "state_action_embedding.kernel": emb[1][1]},
            {"q1." + kk: v for kk, v in on[0].items()} | {"q2." + kk: v for kk, v in on[1].items()},
            {"q1." + kk: v for kk, v in tg[0].items()} | {"q2." + kk: v for kk, v in tg[1].items()},
        ]
        c.arrays = dict(
            obs=obs, act=a, nobs=nobs, nact=a2, r=np.array([fl(rw["x"]["r"]) for rw in rows], dtype=np.float32),
            term=np.array([rw["x"]["term"] for rw in rows], dtype=np.int32),
        )
        c.aux.update(zs=zs, zsa=zsa, g=[[fl(v) for v in seq(alt0["g%d" % (j + 1)])] for j in range(2)],
                     e=[[fl(rw["x"]["q%d" % (j + 1)]) - fl(seq(alt0["y"])[i]) for i, rw in enumerate(rows)] for j in range(2)])
        c.groups = {"online@obs": [(2, "q1.k"), (2, "q2.k")], "target@next": [(3, "*")], "fixed_embedding_target": [(1, "*")],
                    "fixed_embedding": [(0, "*")], "next_action": [("arr", "nact")], "next_obs": [("arr", "nobs")]}
        c.boot = [[((3, "q1.k"), (n + i,)), ((3, "q2.k"), (n + i,)), ((1, "_state_embedding.kernel"), (n + i,)), (("arr", "nact"), (i,))] for i in range(n)]
    elif k == "mrq":
        h = len(seq(rows[0]["x"]["rs"]))
        A = 2 * n
        act = stubs.onehot(np.arange(n), A)
        nact = stubs.onehot(np.arange(n, 2 * n), A)
        cfg = enc_cfg(vec)
        encs = []
        for _ in range(2):
            E = fill(rng, (S, 2))
            Gz = fill(rng, (2, 2))
            zsa_t = np.zeros((2 + A, 2 + A), dtype=np.float32)
            zsa_t[:2, :2] = Gz
            zsa_t[2:, 2:] = np.eye(A, dtype=np.float32)
            encs.append({"zs.kernel": E, "za.kernel": np.eye(A, dtype=np.float32), "zsa.kernel": zsa_t, "model.kernel": fill(rng, (2 + A, 1 + 2 + len(BINS)))})

        def critic(qs, e, base):
            kz = fill(rng, (2,))
            ka = fill(rng, (A,))
            for i in range(n):
                ka[base + i] = qs[i] - float(apply_stages(cfg, cfg["encode_zs"], e["zs.kernel"][base + i]) @ e["zsa.kernel"][:2, :2] @ kz)
            return np.concatenate([kz, ka])[:, None].astype(np.float32)

        on = [critic([fl(rw["x"]["q%d" % (j + 1)]) for rw in rows], encs[0], 0) for j in range(2)]
        tg = [critic([fl(rw["b"]["Q%dt" % (j + 1)]) for rw in rows], encs[1], n) for j in range(2)]
        g = [np.array([fl(v) for v in seq(alt0["g%d" % (j + 1)])], dtype=np.float32) for j in range(2)]

        def gcrit(gj):
            out = np.zeros((2 + A, 1), dtype=np.float32)
            out[:2, 0] = NAN
            out[2 : 2 + n, 0] = gj
            return out

        def tcrit(j):
            out = np.zeros((2 + A, 1), dtype=np.float64)
            for i, rw in enumerate(rows):
                e = fl(rw["x"]["q%d" % (j + 1)]) - fl(seq(alt0["y"])[i])
                out[2 + i, 0] = grad_tol(k, n, g[j][i], e, 1.0)
            return out

        c.leaves = [{"q1.kernel": on[0], "q2.kernel": on[1]}, {"q1.kernel": tg[0], "q2.kernel": tg[1]}, encs[0], encs[1]]
        c.arrays = dict(
            obs=obs, act=act, r=np.array([vecf(rw["x"]["rs"]) for rw in rows], dtype=np.float32), nobs=nobs,
            term=np.array([seq(rw["x"]["ts"]) for rw in rows], dtype=np.int32), trunc=np.zeros((n, h), dtype=np.int32), nact=nact,
            gamma=np.float32(fl(par["gamma"])), rs=np.float32(fl(par["rs"])), trs=np.float32(fl(par["trs"])),
        )
        c.exp_grad = {(0, "q1.kernel"): gcrit(g[0]), (0, "q2.kernel"): gcrit(g[1]), (1, "q1.kernel"): np.zeros_like(tg[0]), (1, "q2.kernel"): np.zeros_like(tg[1]),
                      ("arr", "nobs"): np.zeros_like(nobs), ("arr", "nact"): np.zeros_like(nact)}
        c.tol_grad = {(0, "q1.kernel"): tcrit(0), (0, "q2.kernel"): tcrit(1)}
        for mi in (2, 3):
            for kk, v in encs[mi - 2].items():
                c.exp_grad[(mi, kk)] = np.zeros_like(v)
        c.groups = {"online@obs": [(0, "q1.kernel"), (0, "q2.kernel")], "target@next": [(1, "q1.kernel"), (1, "q2.kernel")],
                    "encoder": [(2, kk) for kk in encs[0]], "encoder_target": [(3, kk) for kk in encs[1]],
                    "next_action": [("arr", "nact")], "next_obs": [("arr", "nobs")]}
        c.boot = [[((1, "q1.kernel"), (2 + n + i,)), ((1, "q2.kernel"), (2 + n + i,)), ((3, "zs.kernel"), (n + i,)), (("arr", "nact"), (i,))] for i in range(n)]
        c.aux.update(h=h, enccfg=cfg)
    elif k == "sale":
        act = stubs.onehot(np.arange(n), n)
        E = ZRAW[rng.integers(0, len(ZRAW), size=S)].copy()
        G = fill(rng, (2 + n, 2))
        gG = np.full((2 + n, 2), NAN, dtype=np.float32)
        tG = np.zeros((2 + n, 2), dtype=np.float64)
        zs = avg_l1(E[:n])
        for i, rw in enumerate(rows):
            E[n + i] = vecf(rw["b"]["en"])
            G[2 + i] = np.array(vecf(rw["x"]["zsa"]), dtype=np.float32) - zs[i] @ G[:2]
            gG[2 + i] = vecf(seq(alt0["g"])[i])
            tG[2 + i] = [grad_tol(k, n, v) for v in gG[2 + i]]
        gE = np.full((S, 2), NAN, dtype=np.float32)
        gE[n:] = 0.0
        c.leaves = [{"_state_embedding.kernel": E, "state_action_embedding.kernel": G}]
        c.arrays = dict(obs=obs, act=act, nobs=nobs)
        c.exp_grad = {(0, "_state_embedding.kernel"): gE, (0, "state_action_embedding.kernel"): gG, ("arr", "nobs"): np.zeros_like(nobs)}
        c.tol_grad = {(0, "state_action_embedding.kernel"): tG}
        c.groups = {"embedding@obs": [((0, "_state_embedding.kernel"), 0, n)], "sa_embedding": [(0, "state_action_embedding.kernel")],
                    "embedding@next": [((0, "_state_embedding.kernel"), n, S)], "next_obs": [("arr", "nobs")]}
    elif k == "enc":
        h = len(seq(rows[0]["x"]["ts"]))
        S = n + n * h
        A = n * h
        nb = len(BINS)
        normtgt = bool(par["normtgt"])
        cfg = enc_cfg(vec)
        E = fill(rng, (S, 2))
        Et = fill(rng, (S, 2))
        Gz = fill(rng, (2, 2))
        zsa_t = np.zeros((2 + A, 2 + A), dtype=np.float32)
        zsa_t[:2, :2] = Gz
        zsa_t[2:, 2:] = np.eye(A, dtype=np.float32)
        M = np.zeros((2 + A, 3 + nb), dtype=np.float32)
        M[:2, :3] = fill(rng, (2, 3))
        gM = np.full((2 + A, 3 + nb), NAN, dtype=np.float32)
        gMb = np.full((2 + A, 3 + nb), NAN, dtype=np.float32)  # done column under the spec's named broadcast deviation
        tM = np.zeros((2 + A, 3 + nb), dtype=np.float64)
        tMb = np.zeros(2 + A, dtype=np.float64)
        obs3 = np.zeros((n, h, S), dtype=np.float32)
        nobs3 = np.zeros((n, h, S), dtype=np.float32)
        act3 = np.zeros((n, h, A), dtype=np.float32)
        c.boot = []
        for i, rw in enumerate(rows):
            z = apply_stages(cfg, cfg["encode_zs"], E[i])  # f(o_0) of the online encoder: the spec's stages of encode_zs
            pz = [np.array(vecf(v), dtype=np.float32) for v in seq(rw["x"]["pz"])]
            pd = vecf(rw["x"]["pd"])
            tz = [np.array(vecf(v), dtype=np.float32) for v in seq(rw["b"]["tz"])]  # RAW outputs of the target encoder's zs network
            _check_stage_maps(cfg, tz, seq(alt0["tgt"])[i])
            cells = []
            for t in range(h):
                j = i * h + t
                sn = n + j
                base = (z @ Gz) @ M[:2, :3]
                M[2 + j, 0] = pd[t] - base[0]
                M[2 + j, 1:3] = pz[t] - base[1:3]
                Et[sn] = tz[t]
                obs3[i, t, i if t == 0 else n + j - 1] = 1.0
                nobs3[i, t, sn] = 1.0
                act3[i, t, j] = 1.0
                gM[2 + j, 0] = fl(seq(seq(alt0["gd"])[i])[t])
                gMb[2 + j, 0] = fl(seq(seq(alt0["gd_bc"])[i])[t])
                # cotangent weight/n (1 rounding), product with 2*(prediction - target), rounding of the expected value
                tM[2 + j, 0] = grad_tol(k, n, gM[2 + j, 0])
                tMb[2 + j] = grad_tol(k, n, gMb[2 + j, 0])
                if t == h - 1:
                    gM[2 + j, 1:3] = vecf(seq(alt0["gz"])[i])
                    tM[2 + j, 1:3] = [grad_tol(k, n, v) for v in gM[2 + j, 1:3]]
                z = pz[t]
                cells.append([((0, "model.kernel"), (2 + j, slice(0, 3))), ((1, "zs.kernel"), (sn,)), (("arr", "r"), (i, t))])
            c.boot.append(cells)
        gE = np.full((S, 2), NAN, dtype=np.float32)
        gE[n:] = 0.0
        enc = {"zs.kernel": E, "za.kernel": np.eye(A, dtype=np.float32), "zsa.kernel": zsa_t, "model.kernel": M}
        enct = {"zs.kernel": Et, "za.kernel": fill(rng, (A, A)), "zsa.kernel": fill(rng, (2 + A, 2 + A)), "model.kernel": fill(rng, (2 + A, 3 + nb))}
        c.leaves = [enc, enct]
        c.arrays = dict(
            obs=obs3, act=act3, r=np.array([vecf(rw["x"]["r"]) for rw in rows], dtype=np.float32), nobs=nobs3,
            term=np.array([seq(rw["x"]["ts"]) for rw in rows], dtype=np.int32), trunc=np.zeros((n, h), dtype=np.int32),
            dw=np.float32(fl(par["dw"])), rw=np.float32(fl(par["rw"])), tw=np.float32(fl(par["tw"])), envterm=np.bool_(par["envterm"]),
        )
        c.exp_grad = {(0, "model.kernel"): gM, (0, "zs.kernel"): gE, ("arr", "nobs"): np.zeros_like(nobs3)}
        for kk, v in enct.items():
            c.exp_grad[(1, kk)] = np.zeros_like(v)
        c.groups = {"encoder@obs": [((0, "zs.kernel"), 0, n)], "encoder@next": [((0, "zs.kernel"), n, S)], "encoder_model": [(0, "model.kernel")],
                    "encoder_target": [(1, kk) for kk in enct], "next_obs": [("arr", "nobs")]}
        c.tol_grad = {(0, "model.kernel"): tM}
        c.aux.update(h=h, normtgt=normtgt, gd_bc=gMb[:, 0], gd_bc_tol=tMb, enccfg=cfg)
    else:  # pragma: no cover
        raise tlc.MachineryError(f"unknown kind {k}")
    return _check_groups(c, vec, k)


def _check_stage_maps(cfg, raws, tgts):
    """The stage maps of the binding (STAGE_NP, = the sub-modules handed to the real encoder) are the specification's: the
    documented target stages applied to the raw outputs reproduce TLC's target table for this row."""
    for raw, tg in zip(raws, seq(tgts)):
        if apply_stages(cfg, cfg["dyn_target"], raw).tolist() != vecf(tg):
            raise tlc.MachineryError(f"binding: stage maps {cfg} do not reproduce the specification's targets ({raw.tolist()} -> {vecf(tg)})")


def _check_groups(c, vec, k):
    missing = [gname for gname in list(vec["zero"]) + list(vec["support"]) if gname not in c.groups]
    if missing:
        raise tlc.MachineryError(f"binding does not map the spec's parameter groups {missing} for {k}")
    if k != "td7":  # every group the spec excludes from the gradient support is expected to be exactly zero
        for gname in vec["zero"]:
            for r in c.groups[gname]:
                ref, lo, hi = r if isinstance(r[0], tuple) else (r, None, None)
                e = c.exp_grad.get(ref)
                if e is None or np.isnan(e[lo:hi]).any() or np.any(e[lo:hi] != 0):
                    raise tlc.MachineryError(f"binding: group {gname} of {k} is not expected to be zero at {ref}")
    return c


# ----------------------------------------------------------------- variants beyond the lattice
def noisy(case: Case, rng) -> Case:
    """Same structure, float noise on every parameter, reward and weight."""
    c = Case(vec=case.vec, kind=case.kind, n=case.n, leaves=[], arrays={}, groups=case.groups, boot=case.boot, aux=case.aux, variant="noise")
    for lv in case.leaves:
        c.leaves.append({k: (v + rng.normal(size=v.shape).astype(np.float32) * np.float32(0.37)).astype(np.float32) if not _structural(case.kind, k) else v.copy() for k, v in lv.items()})
    for k, v in case.arrays.items():
        if k in ("r",):
            c.arrays[k] = (v + rng.normal(size=v.shape).astype(np.float32) * np.float32(0.61)).astype(np.float32)
            if case.kind == "enc":  # two-hot encoding is defined inside the bin range only
                c.arrays[k] = np.clip(c.arrays[k], BINS[0] + 0.05, BINS[-1] - 0.05).astype(np.float32)
        elif k == "w":
            c.arrays[k] = (v * rng.uniform(0.3, 1.7, size=v.shape)).astype(np.float32)
        elif k in ("gamma",):
            c.arrays[k] = np.float32(rng.uniform(0.05, 0.999))
        elif k in ("alpha",):
            c.arrays[k] = np.float32(rng.uniform(0.0, 0.7))
        else:
            c.arrays[k] = v.copy()
    return c


def _structural(kind, key):
    # identity wiring of the row-identity device must stay intact
    return kind in ("mrq", "enc") and key in ("za.kernel", "zsa.kernel")


def _ref_array(c: Case, ref):
    return c.arrays[ref[1]] if ref[0] == "arr" else c.leaves[ref[0]][ref[1]]


def perturbed(case: Case, rng) -> Case | None:
    """Perturb the spec's irrelevant cells: the bootstrap part (network outputs at o', o' itself, a') of terminated rows;
    for the encoder loss everything at steps after the first termination of a row."""
    c = Case(vec=case.vec, kind=case.kind, n=case.n, leaves=[{k: v.copy() for k, v in lv.items()} for lv in case.leaves],
             arrays={k: np.array(v, copy=True) for k, v in case.arrays.items()}, groups=case.groups, boot=case.boot, aux=case.aux, variant="perturb")
    touched = []
    if case.kind == "enc":
        for i, t in masked_steps(case.vec):
            for ref, idx in case.boot[i][t]:
                arr = _ref_array(c, ref)
                arr[idx] = arr[idx] + rng.normal(size=np.shape(arr[idx])).astype(np.float32) + np.float32(0.5)
            c.arrays["r"][i, t] = np.clip(c.arrays["r"][i, t], BINS[0] + 0.05, BINS[-1] - 0.05)
            c.arrays["term"][i, t] = 1 - c.arrays["term"][i, t]
            c.arrays["nobs"][i, t] = rng.normal(size=c.arrays["nobs"].shape[-1]).astype(np.float32)
            touched.append((i, t))
    elif case.kind == "sale":
        return None
    else:
        for i in terminated_rows(case.vec):
            for ref, idx in case.boot[i]:
                arr = _ref_array(c, ref)
                arr[idx] = arr[idx] + rng.normal(size=np.shape(arr[idx])).astype(np.float32) + np.float32(0.5)
            c.arrays["nobs"][i] = rng.normal(size=c.arrays["nobs"].shape[-1]).astype(np.float32)
            touched.append(i)
    if not touched:
        return None
    c.irrelevant_rows = touched
    return c


def permuted(case: Case, rng) -> Case | None:
    if case.n < 2:
        return None
    p = list(rng.permutation(case.n))
    if p == list(range(case.n)):
        p = p[1:] + p[:1]
    c = Case(vec=case.vec, kind=case.kind, n=case.n, leaves=case.leaves, arrays={}, groups=case.groups, boot=case.boot, aux=case.aux, variant="perm", perm=[int(x) for x in p])
    for k, v in case.arrays.items():
        c.arrays[k] = v[p] if np.ndim(v) >= 1 else v
    return c


# ----------------------------------------------------------------- calling the real code
def _lazy():
    import jax
    import jax.numpy as jnp
    from flax import nnx

    return jax, jnp, nnx


def build_modules(case: Case):
    """Template stub modules for a group (shapes only matter)."""
    k = case.bkind
    lv = case.leaves
    LT = stubs.LinearTable
    if k == "dqn":
        return [LT(lv[0]["kernel"])]
    if k in ("nature", "ddqn", "per"):
        return [LT(lv[0]["kernel"]), LT(lv[1]["kernel"])]
    if k == "ddpg":
        return [LT(lv[0]["kernel"]), LT(lv[1]["kernel"]), LT(lv[2]["kernel"])]
    if k in ("td3", "lap", "sac"):
        mods = [stubs.make_double_q(LT(l["q1.kernel"]), LT(l["q2.kernel"])) for l in lv[:2]]
        if k == "sac":
            mods.append(stubs.ScriptedStochasticPolicy(lv[2]["actions"], lv[2]["logp"], lv[2]["c"]))
        return mods
    if k == "td7":
        sc = lambda l, p: stubs.SaleCritic(l[p + ".k"], l[p + ".ka"], l[p + ".kb"])
        return [
            stubs.make_sale(lv[0]["_state_embedding.kernel"], lv[0]["state_action_embedding.kernel"]),
            stubs.make_sale(lv[1]["_state_embedding.kernel"], lv[1]["state_action_embedding.kernel"]),
            stubs.make_double_q(sc(lv[2], "q1"), sc(lv[2], "q2")),
            stubs.make_double_q(sc(lv[3], "q1"), sc(lv[3], "q2")),
        ]
    if k == "mrq":
        e = lambda l: make_encoder(case.aux["enccfg"], l)
        return [stubs.make_double_q(LT(lv[0]["q1.kernel"]), LT(lv[0]["q2.kernel"])), stubs.make_double_q(LT(lv[1]["q1.kernel"]), LT(lv[1]["q2.kernel"])), e(lv[2]), e(lv[3])]
    if k == "sale":
        return [stubs.make_sale(lv[0]["_state_embedding.kernel"], lv[0]["state_action_embedding.kernel"])]
    if k == "enc":
        e = lambda l: make_encoder(case.aux["enccfg"], l)
        ms = [e(lv[0]), e(lv[1])]
        if case.aux.get("table"):  # state-action layer on the action code only (update routine over several mini-batches)
            for m, l in zip(ms, lv):
                m.zsa = _tail_table()(l["zsa.kernel"], 2)
        return ms
    raise AssertionError(k)


def make_call(kind, static):
    """fn(mods, arrays) -> (loss, {name: output}) calling the REAL rl_blox function."""
    jax, jnp, nnx = _lazy()
    from collections import namedtuple

    from rl_blox.blox import losses as L

    def batch5(a):
        return (a["obs"], a["act"], a["r"], a["nobs"], a["term"])

    if kind == "dqn":
        def fn(m, a):
            loss, qm = L.dqn_loss(m[0], batch5(a), a["gamma"])
            return loss, {"qmean": qm}
    elif kind == "nature":
        def fn(m, a):
            loss, qm = L.nature_dqn_loss(m[0], m[1], batch5(a), a["gamma"])
            return loss, {"qmean": qm}
    elif kind == "ddqn":
        def fn(m, a):
            loss, qm = L.ddqn_loss(m[0], m[1], batch5(a), a["gamma"])
            return loss, {"qmean": qm}
    elif kind == "per":
        def fn(m, a):
            loss, (qm, mtd) = L.ddqn_per_loss(m[0], m[1], batch5(a), a["gamma"], a["w"])
            return loss, {"qmean": qm, "mtd": mtd}
    elif kind == "ddpg":
        def fn(m, a):
            loss, qm = L.ddpg_loss(m[0], m[1], m[2], batch5(a), a["gamma"])
            return loss, {"qmean": qm}
    elif kind == "td3":
        def fn(m, a):
            loss, qm = L.td3_loss(m[0], m[1], a["nact"], batch5(a), a["gamma"])
            return loss, {"qmean": qm}
    elif kind == "lap":
        def fn(m, a):
            loss, (qm, ptd) = L.td3_lap_loss(m[0], m[1], a["nact"], batch5(a), a["gamma"], a["delta"])
            return loss, {"qmean": qm, "ptd": ptd}
    elif kind == "sac":
        def fn(m, a):
            loss, qm = L.sac_loss(m[0], m[1], m[2], jax.random.key(0), a["alpha"], batch5(a), a["gamma"])
            return loss, {"qmean": qm}
    elif kind == "mrq":
        from rl_blox.algorithm.mrq import mrq_loss

        def fn(m, a):
            batch = (a["obs"], a["act"], a["r"], a["nobs"], a["term"], a["trunc"])
            loss, (zs, qm, ptd) = mrq_loss(m[0], m[1], m[2], m[3], a["nact"], batch, a["gamma"], a["rs"], a["trs"])
            return loss, {"qmean": qm, "ptd": ptd}
    elif kind == "sale":
        from rl_blox.blox.embedding.sale import state_action_embedding_loss

        def fn(m, a):
            return state_action_embedding_loss(m[0], a["obs"], a["act"], a["nobs"]), {}
    elif kind == "enc":
        from rl_blox.blox.embedding.model_based_encoder import model_based_encoder_loss

        Batch = namedtuple("Batch", ["observation", "action", "reward", "next_observation", "terminated", "truncated"])
        h, normtgt = static

        def fn(m, a):
            batch = Batch(a["obs"], a["act"], a["r"], a["nobs"], a["term"], a["trunc"])
            loss, (dyn, rew, done, rmse) = model_based_encoder_loss(
                m[0], m[1], jnp.asarray(BINS), batch, h, a["dw"], a["rw"], a["tw"], a["envterm"], normtgt
            )
            return loss, {"dyn": dyn, "rew": rew, "done": done, "rmse": rmse}
    else:
        raise AssertionError(kind)
    return fn


def run_group(cases):
    """Evaluate all cases of one group (same kind / shapes / static arguments) in one vmapped, jitted call.
    Returns (outs, grads) as lists per case, or raises the exception of the code under test."""
    jax, jnp, nnx = _lazy()
    c0 = cases[0]
    static = (c0.aux.get("h"), c0.aux.get("normtgt")) if c0.kind == "enc" else None
    fn = make_call(c0.kind, static)
    mods = build_modules(c0)
    split = [nnx.split(m) for m in mods]
    gds = [s[0] for s in split]
    flat = [jax.tree_util.tree_flatten_with_path(s[1]) for s in split]
    keys = [[".".join(str(getattr(p, "key", getattr(p, "name", p))) for p in path if str(getattr(p, "key", getattr(p, "name", p))) != "value") for path, _ in f[0]] for f in flat]
    tdefs = [f[1] for f in flat]
    for mi, ks in enumerate(keys):
        if sorted(ks) != sorted(c0.leaves[mi].keys()):
            raise tlc.MachineryError(f"stub module {mi} of {c0.kind} has leaves {ks}, realisation provides {sorted(c0.leaves[mi])}")
    names = sorted(c0.arrays)
    diff_names = [nm for nm in names if np.asarray(c0.arrays[nm]).dtype == np.float32 and np.ndim(c0.arrays[nm]) >= 1 and nm in ("nobs", "nact")]
    other_names = [nm for nm in names if nm not in diff_names]

    def pure(leaves, darr, oarr):
        ms = [nnx.merge(gd, jax.tree_util.tree_unflatten(td, lv)) for gd, td, lv in zip(gds, tdefs, leaves)]
        a = dict(zip(diff_names, darr)) | dict(zip(other_names, oarr))
        return fn(ms, a)

    def full(leaves, darr, oarr):
        (loss, outs), grads = jax.value_and_grad(pure, argnums=(0, 1), has_aux=True)(leaves, darr, oarr)
        return loss, outs, grads

    leaves = [[jnp.asarray(np.stack([c.leaves[mi][k] for c in cases])) for k in ks] for mi, ks in enumerate(keys)]
    darr = [jnp.asarray(np.stack([c.arrays[nm] for c in cases])) for nm in diff_names]
    oarr = [jnp.asarray(np.stack([c.arrays[nm] for c in cases])) for nm in other_names]
    loss, outs, (gl, ga) = jax.jit(jax.vmap(full))(leaves, darr, oarr)
    loss = np.asarray(loss)
    outs = {k: np.asarray(v) for k, v in outs.items()}
    gl = [[np.asarray(x) for x in g] for g in gl]
    ga = [np.asarray(x) for x in ga]
    res = []
    for ci in range(len(cases)):
        o = {"loss": loss[ci]} | {k: v[ci] for k, v in outs.items()}
        g = {}
        for mi, ks in enumerate(keys):
            for ki, k in enumerate(ks):
                g[(mi, k)] = gl[mi][ki][ci]
        for ni, nm in enumerate(diff_names):
            g[("arr", nm)] = ga[ni][ci]
        res.append((o, g))
    return res


def _set_leaf(module, key, value):
    import jax.numpy as jnp

    obj = module
    parts = key.split(".")
    for p in parts[:-1]:
        obj = getattr(obj, p)
    getattr(obj, parts[-1]).value = jnp.asarray(value)


def _get_leaf(module, key):
    obj = module
    for p in key.split("."):
        obj = getattr(obj, p)
    return np.asarray(obj.value)


def run_td7_group(cases):
    """td7_update_critic mutates the critic through an optimiser: evaluated case by case with SGD(lr=1),
    so that (old - new) parameters are the gradients it used."""
    jax, jnp, nnx = _lazy()
    import optax

    from rl_blox.algorithm.td7 import td7_update_critic

    mods = build_modules(cases[0])
    opt = nnx.Optimizer(mods[2], optax.sgd(1.0), wrt=nnx.Param)
    res = []
    for c in cases:
        for mi, lv in enumerate(c.leaves):
            for k, v in lv.items():
                _set_leaf(mods[mi], k, v)
        par = c.vec["par"]
        a = c.arrays
        gamma, delta = fl(par["gamma"]), fl(par["delta"])
        loss, ptd, y = td7_update_critic(
            mods[0], mods[1], mods[2], mods[3], opt, gamma, jnp.asarray(a["obs"]), jnp.asarray(a["act"]), jnp.asarray(a["nobs"]),
            jnp.asarray(a["nact"]), jnp.asarray(a["r"]), jnp.asarray(a["term"]), delta, fl(par["lo"]), fl(par["hi"]),
        )
        o = {"loss": np.asarray(loss), "ptd": np.asarray(ptd), "y": np.asarray(y)}
        g = {}
        for mi, lv in enumerate(c.leaves):
            for k, v in lv.items():
                g[(mi, k)] = np.asarray(v, dtype=np.float32) - _get_leaf(mods[mi], k)  # old - new = lr * grad (critic), 0 elsewhere
        res.append((o, g))
    return res


# ----------------------------------------------------------------- update routines (the USE of a loss)
K_RLOGIT = 8  # reward-logit cell of the step: exp of the shifted logit (<= 2 ulp = 4 U), division by the sum, product with the
#               sum of the two-hot cotangents, subtraction, (float32 rounding of the expected value); terms: lr*c*(1/#bins), lr*c*th_k


def qscale(x, f: Fraction):
    v = fq(x) * f
    return [v.numerator, v.denominator]


def realise_update(vec, rng) -> Case:
    """Update routines: the realisation of the loss they wrap; the expectation for the parameters is TLC's SGD step
    (old - new parameter = SgdStep(lr, gradient) of the spec) instead of the gradient."""
    k = vec["kind"]
    base = UPD_BASE[k]
    par = vec["par"]
    lr = fq(par["lr"])
    if k == "encupd" and int(par["td"]) > 1:
        c = realise_enc_table(vec, rng)
    else:
        alts = []
        for a in vec["alts"]:
            a = dict(a)
            if k == "mrqupd":
                a["g1"], a["g2"] = a["s1"], a["s2"]
            elif k == "saleupd":
                a["g"] = a["s"]
            else:  # one mini-batch, unrolled chain intact: done cell of every step, latent cells of the last step (no downstream use)
                a["gd"] = a["sd"]
                a["gz"] = [seq(z)[-1] for z in seq(a["sz"])]
                a["gd_bc"] = [[qscale(x, lr) for x in seq(r)] for r in seq(a["gd_bc"])]
            alts.append(a)
        c = realise(dict(vec, kind=base, alts=alts), rng)
        c.vec = vec
        c.kind = k
        c.aux = dict(c.aux, table=False)
    if k == "encupd" and [fq(b) for b in vec["alts"][0]["bins"]] != [Fraction(float(b)) for b in BINS]:
        raise tlc.MachineryError("binding: bin edges of the driver differ from BinsQ of the specification")
    if k == "mrqupd":  # policy of update_critic_and_policy (its loss is not part of C03; it must not disturb the critic's outputs)
        c.aux = dict(c.aux, policy=fill(rng, (2, 2 * c.n)))
    return c


def realise_enc_table(vec, rng) -> Case:
    """update_model_based_encoder over several mini-batches.  The model head is a table lookup on the one-hot action of the
    row-step (the state-action layer ignores the latent state: TailTable), so mini-batches on disjoint rows do not interact and
    the WHOLE step of the model table is decided by TLC: done / latent / reward-logit cells of every row-step."""
    n = vec["n"]
    par = vec["par"]
    rows = vec["rows"]
    alt0 = vec["alts"][0]
    R = len(rows)
    h = len(seq(rows[0]["x"]["ts"]))
    nb = len(BINS)
    S = R + R * h
    A = R * h
    normtgt = bool(par["normtgt"])
    cfg = enc_cfg(vec)
    lr, rwt = fl(par["lr"]), fl(par["rw"])
    c = Case(vec=vec, kind="encupd", n=n, leaves=[], arrays={})
    E = fill(rng, (S, 2))
    Et = fill(rng, (S, 2))
    M = np.zeros((A, 3 + nb), dtype=np.float32)
    sM = np.zeros((A, 3 + nb), dtype=np.float32)
    tM = np.zeros((A, 3 + nb), dtype=np.float64)
    sMb = np.zeros(A, dtype=np.float32)
    obs3 = np.zeros((R, h, S), dtype=np.float32)
    nobs3 = np.zeros((R, h, S), dtype=np.float32)
    act3 = np.zeros((R, h, A), dtype=np.float32)
    masked = set(masked_steps(vec))
    for i, rw in enumerate(rows):
        pz = [np.array(vecf(v), dtype=np.float32) for v in seq(rw["x"]["pz"])]
        pd = vecf(rw["x"]["pd"])
        tz = [np.array(vecf(v), dtype=np.float32) for v in seq(rw["b"]["tz"])]  # RAW outputs of the target encoder's zs network
        _check_stage_maps(cfg, tz, seq(alt0["tgt"])[i])
        cells = []
        for t in range(h):
            j = i * h + t
            sn = R + j
            M[j, 0] = pd[t]
            M[j, 1:3] = pz[t]
            Et[sn] = tz[t]
            obs3[i, t, i if t == 0 else R + j - 1] = 1.0
            nobs3[i, t, sn] = 1.0
            act3[i, t, j] = 1.0
            sM[j, 0] = fl(seq(seq(alt0["sd"])[i])[t])
            sM[j, 1:3] = vecf(seq(seq(alt0["sz"])[i])[t])
            sM[j, 3:] = vecf(seq(seq(alt0["sr"])[i])[t])
            sMb[j] = lr * fl(seq(seq(alt0["gd_bc"])[i])[t])
            if (i, t) not in masked:  # masked steps: cotangent 0, the cells stay exactly as they are
                tM[j, 3:] = K_RLOGIT * U * (np.abs(sM[j, 3:]) + 2.0 * lr * rwt / (n * nb))
            cells.append([((0, "model.kernel"), (j, slice(0, 3))), ((1, "zs.kernel"), (sn,)), (("arr", "r"), (i, t))])
        c.boot.append(cells)
    eye = np.eye(A, dtype=np.float32)
    enc = {"zs.kernel": E, "za.kernel": eye.copy(), "zsa.kernel": eye.copy(), "model.kernel": M}
    enct = {"zs.kernel": Et, "za.kernel": fill(rng, (A, A)), "zsa.kernel": fill(rng, (A, A)), "model.kernel": fill(rng, (A, 3 + nb))}
    c.leaves = [enc, enct]
    c.arrays = dict(
        obs=obs3, act=act3, r=np.array([vecf(rw["x"]["r"]) for rw in rows], dtype=np.float32), nobs=nobs3,
        term=np.array([seq(rw["x"]["ts"]) for rw in rows], dtype=np.int32), trunc=np.zeros((R, h), dtype=np.int32),
        dw=np.float32(fl(par["dw"])), rw=np.float32(fl(par["rw"])), tw=np.float32(fl(par["tw"])), envterm=np.bool_(par["envterm"]),
    )
    # the latent state of the first observation is computed but reaches nothing: the state encoder does not move either
    c.exp_grad = {(0, "model.kernel"): sM, (0, "zs.kernel"): np.zeros_like(E), ("arr", "nobs"): np.zeros_like(nobs3),
                  (0, "za.kernel"): np.full((A, A), NAN, dtype=np.float32), (0, "zsa.kernel"): np.full((A, A), NAN, dtype=np.float32)}
    for kk, v in enct.items():
        c.exp_grad[(1, kk)] = np.zeros_like(v)
    c.groups = {"encoder@obs": [((0, "zs.kernel"), 0, R)], "encoder@next": [((0, "zs.kernel"), R, S)], "encoder_model": [(0, "model.kernel")],
                "encoder_target": [(1, kk) for kk in enct], "next_obs": [("arr", "nobs")]}
    c.tol_grad = {(0, "model.kernel"): tM}
    c.aux.update(h=h, normtgt=normtgt, gd_bc=sMb, gd_bc_tol=np.zeros(A), table=True, enccfg=cfg)
    return _check_groups(c, vec, "enc")


def _tail_table():
    _, _, nnx = _lazy()
    global _TailTable
    if "_TailTable" not in globals():
        class _TailTable(nnx.Module):  # noqa: N801
            """x -> x[..., skip:] @ T : a state-action layer that looks at the action code only."""

            def __init__(self, table, skip):
                import jax.numpy as jnp

                self.kernel = nnx.Param(jnp.asarray(np.asarray(table, dtype=np.float32)))
                self.skip = int(skip)

            def __call__(self, x):
                return x[..., self.skip:] @ self.kernel.value

        globals()["_TailTable"] = _TailTable
    return globals()["_TailTable"]


_UPD_CACHE = {}  # group key -> (modules, optimiser, call): one jit specialisation per group, re-used by the binding canary


def run_upd_group(cases):
    """Update routines mutate their module through the caller's optimiser: evaluated case by case with SGD(lr) on fresh
    parameters; returns (outputs, old - new parameters) per case, or raises the exception of the code under test."""
    jax, jnp, nnx = _lazy()
    from collections import namedtuple

    import optax

    c0 = cases[0]
    k = c0.kind
    par = c0.vec["par"]
    gk = group_key(c0)
    if gk not in _UPD_CACHE:
        mods = build_modules(c0)
        lr = fl(par["lr"])
        if k == "encupd":
            from rl_blox.blox.embedding.model_based_encoder import update_model_based_encoder

            Batch = namedtuple("Batch", ["observation", "action", "reward", "next_observation", "terminated", "truncated"])
            opt = nnx.Optimizer(mods[0], optax.sgd(lr), wrt=nnx.Param)
            h, normtgt, td, n = c0.aux["h"], c0.aux["normtgt"], int(par["td"]), c0.n
            dw, rw, tw, envterm = fl(par["dw"]), fl(par["rw"]), fl(par["tw"]), bool(par["envterm"])

            def call(a):
                batch = Batch(*(jnp.asarray(a[nm]) for nm in ("obs", "act", "r", "nobs", "term", "trunc")))
                out = np.asarray(update_model_based_encoder(mods[0], mods[1], opt, jnp.asarray(BINS), h, dw, rw, tw, td, n, normtgt, batch, envterm))
                if out.shape != (5,):
                    raise ValueError(f"update_model_based_encoder returned shape {out.shape}, documented: 5 mean losses")
                return {"loss": out[0], "dyn": out[1], "rew": out[2], "done": out[3], "rmse": out[4]}
        elif k == "saleupd":
            from rl_blox.blox.embedding.sale import update_sale

            opt = nnx.Optimizer(mods[0], optax.sgd(lr), wrt=nnx.Param)

            def call(a):
                return {"loss": np.asarray(update_sale(mods[0], opt, jnp.asarray(a["obs"]), jnp.asarray(a["act"]), jnp.asarray(a["nobs"])))}
        elif k == "mrqupd":
            import gymnasium as gym

            from rl_blox.algorithm.mrq import update_critic_and_policy
            from rl_blox.blox.function_approximator.policy_head import DeterministicTanhPolicy

            A = c0.arrays["act"].shape[-1]
            policy = DeterministicTanhPolicy(stubs.LinearTable(c0.aux["policy"]), gym.spaces.Box(-1.0, 1.0, (A,), dtype=np.float32))
            mods.append(policy)
            opt = nnx.Optimizer(mods[0], optax.sgd(lr), wrt=nnx.Param)
            popt = nnx.Optimizer(policy, optax.sgd(0.5), wrt=nnx.Param)
            gamma = fl(par["gamma"])

            def call(a):
                batch = tuple(jnp.asarray(a[nm]) for nm in ("obs", "act", "r", "nobs", "term", "trunc"))
                ql, _pl, _pc, qm, ptd = update_critic_and_policy(
                    mods[0], mods[1], opt, policy, popt, mods[2], mods[3], gamma, 0.25, jnp.asarray(a["nact"]), batch, float(a["rs"]), float(a["trs"])
                )
                return {"loss": np.asarray(ql), "qmean": np.asarray(qm), "ptd": np.asarray(ptd)}
        else:  # pragma: no cover
            raise AssertionError(k)
        _UPD_CACHE[gk] = (mods, call)
    mods, call = _UPD_CACHE[gk]
    res = []
    for c in cases:
        for mi, lv in enumerate(c.leaves):
            for kk, v in lv.items():
                _set_leaf(mods[mi], kk, v)
        if k == "mrqupd":
            _set_leaf(mods[4], "policy_net.kernel", c.aux["policy"])
        o = call(c.arrays)
        g = {}
        for mi, lv in enumerate(c.leaves):
            for kk, v in lv.items():
                g[(mi, kk)] = np.asarray(v, dtype=np.float32) - _get_leaf(mods[mi], kk)  # old - new = SGD step where trained, 0 elsewhere
        res.append((o, g))
    return res


def run_cases(kind, cases):
    if kind in UPD_BASE:
        return run_upd_group(cases)
    return run_td7_group(cases) if kind == "td7" else run_group(cases)


# ----------------------------------------------------------------- comparison with TLC's numbers
def _arr_exact(v, xs):
    v = np.asarray(v).reshape(-1)
    xs = list(xs)
    return len(v) == len(xs) and all(close_abs(a, b) for a, b in zip(v, xs))


def compare_alt(case: Case, out, grads, alt):
    """Returns None if every output equals this admissible alternative, else (field, text)."""
    k = case.bkind
    if k == "enc":
        return None  # handled separately
    tol = value_tols(case, alt)
    if not close_abs(out["loss"], alt["loss"], tol["loss"]):
        return ("loss", f"loss {float(out['loss'])!r} != {fq(alt['loss'])} (counted bound {tol['loss']:.3g})")
    if k != "sale":
        if "qmean" in out and not close_abs(out["qmean"], alt["qmean"], tol["qmean"]):
            return ("q_mean", f"q_mean {float(out['qmean'])!r} != {fq(alt['qmean'])} (counted bound {tol['qmean']:.3g})")
        if "mtd" in out and not close_abs(out["mtd"], alt["mtd"], tol["mtd"]):
            return ("td_error_mean", f"mean |TD error| {float(out['mtd'])!r} != {fq(alt['mtd'])} (counted bound {tol['mtd']:.3g})")
        # per-sample outputs involve no division by the batch size: exact for every batch size
        if "ptd" in out and not _arr_exact(out["ptd"], seq(alt["ptd"])):
            return ("max_abs_td_error", f"per-sample |TD error| {np.asarray(out['ptd']).tolist()} != {[str(fq(v)) for v in seq(alt['ptd'])]}")
        if "y" in out and not _arr_exact(out["y"], seq(alt["y"])):
            return ("q_target", f"targets {np.asarray(out['y']).tolist()} != {[str(fq(v)) for v in seq(alt['y'])]}")
    return None


def compare_grads(case: Case, grads):
    """Comparison of gradients with the expectation built from TLC's per-row gradients and zero groups: exact == for dyadic
    batch sizes and for every expected zero; counted absolute bound (case.tol_grad) for the non-dyadic cells."""
    bad = []
    for ref, exp in case.exp_grad.items():
        got = grads.get(ref)
        if got is None:
            continue
        exp = np.asarray(exp)
        chk = ~np.isnan(exp)
        if got.shape != exp.shape:
            bad.append((ref, None, f"gradient shape {got.shape} != {exp.shape}"))
            continue
        tol = case.tol_grad.get(ref)
        tol = np.zeros(exp.shape) if tol is None else np.asarray(tol, dtype=np.float64)
        good = arr_close_abs(got, np.where(chk, exp, 0.0), tol) | ~chk
        if not bool(np.all(good)):
            first = tuple(int(v) for v in np.argwhere(~good)[0])
            bad.append((ref, first, f"d loss/d {ref}{list(first)} = {float(got[first])!r}, spec {float(exp[first])!r}" + (f" (counted bound {float(tol[first]):.3g})" if tol[first] else "")))
    if "gv" in case.aux and dyadic_n(case.n):  # action weight of the online critics: sum_i g_i a_i (exact on dyadic values)
        for j, ref in enumerate(case.aux["vref"]):
            got = grads[ref][-1, 0]
            if float(got) != float(case.aux["gv"][j]):
                bad.append((ref, (0,), f"d loss/d action-weight = {float(got)!r}, spec {float(case.aux['gv'][j])!r}"))
    return bad


def group_of(case: Case, ref, idx=None):
    """Name of the spec's parameter group a gradient cell belongs to.  Group entries are refs or (ref, lo, hi) row ranges."""
    names = []
    for g, refs in case.groups.items():
        for r in refs:
            if isinstance(r[0], tuple):
                if r[0] == ref and (idx is None or not idx or r[1] <= idx[0] < r[2]):
                    names.append(g)
            elif r == ref or (r[1] == "*" and r[0] == ref[0]):
                names.append(g)
    return (names or ["?"])[0]


def check_lattice(case: Case, out, grads, rep, stats):
    fname = FNAME[case.kind]
    vec = case.vec
    rinfo = {"vec": vec, "fill_seed": list(case.fill_seed), "variant": case.variant}
    suffix = ""  # one key per output whatever the batch size (the text names it)
    upd = case.kind in UPD_BASE
    if case.bkind == "enc":
        return check_enc(case, out, grads, rep, stats, rinfo)
    fails = []
    for alt in vec["alts"]:
        f = compare_alt(case, out, grads, alt)
        if f is None:
            break
        fails.append(f)
    else:
        f = fails[0]
        what = "returned by the update routine (documented: the loss it differentiates and applies) " if upd else ""
        rep.violation(f"{fname}:{f[0]}{suffix}", f"{fname} (batch size {case.n}, {len(vec['alts'])} admissible result(s)): {what}{f[1]}; par={_short(vec['par'], case.kind)} rows={json.dumps(vec['rows'])[:600]}", rinfo)
        return False
    if len(vec["alts"]) > 1:
        stats["ties"] += 1
        return True  # gradients depend on which admissible argmax was taken; values were matched
    ok = True
    if case.kind == "td7":
        ok = check_td7_update(case, grads, rep, rinfo)
    else:
        for ref, idx, text in compare_grads(case, grads):
            ok = False
            if upd:
                text = f"SGD(lr={fq(vec['par']['lr'])}) step (old - new parameter) instead of lr * gradient of the documented loss: " + text.replace("d loss/d ", "step of ")
            rep.violation(f"{fname}:{'step' if upd else 'grad'}:{group_of(case, ref, idx)}{suffix}", f"{fname} (batch size {case.n}): {text}; par={_short(vec['par'], case.kind)} rows={json.dumps(vec['rows'])[:600]}", rinfo)
    return ok


def check_td7_update(case: Case, grads, rep, rinfo):
    """grads = old - new parameters after the SGD(1) step: the critic moves by TLC's per-row gradient, nothing else moves."""
    n = case.n
    ok = True
    for mi in (0, 1, 3):
        for k in case.leaves[mi]:
            if np.any(grads[(mi, k)] != 0):
                ok = False
                rep.violation(f"td7_update_critic:grad:{group_of(case, (mi, '*'))}", f"td7_update_critic changed parameters {k} of module {mi} (fixed embedding / target)", rinfo)
    for j, q in enumerate(("q1", "q2")):
        d = grads[(2, q + ".k")][:, 0]
        exp = np.zeros_like(d)
        exp[:n] = np.array(case.aux["g"][j], dtype=np.float32)
        chk = np.ones_like(d, dtype=bool)
        chk[-1] = False  # action weight
        if dyadic_n(n):
            good = np.array_equal(d[chk], exp[chk])
        else:
            # counted: the Huber backward pass (K_GRAD_HUBER roundings on terms of total magnitude (2*delta + |e|)/n), then
            # new = fl(old - 1.0*g) and d = old - new: two more roundings at the magnitude |old| + |g|.  Expected zeros stay exact.
            delta = fl(case.vec["par"]["delta"])
            tol = np.zeros(d.shape, dtype=np.float64)
            oldv = np.abs(case.leaves[2][q + ".k"][:, 0]).astype(np.float64)
            for i in range(n):
                tol[i] = grad_tol("td7", n, exp[i], case.aux["e"][j][i], delta)
                if tol[i]:
                    tol[i] += 2 * U * (oldv[i] + abs(float(exp[i])))
            good = bool(np.all(arr_close_abs(d, exp, tol)[chk]))
        if not good:
            ok = False
            rep.violation("td7_update_critic:grad:online@obs", f"td7_update_critic moved {q} by {d[chk].tolist()} with SGD(lr=1); spec gradient {exp[chk].tolist()}; par={_short(case.vec['par'], 'td7')}", rinfo)
    return ok


def check_enc(case: Case, out, grads, rep, stats, rinfo):
    """model_based_encoder_loss, and update_model_based_encoder (same outputs as means over the scan's mini-batches; `grads` is
    then old - new parameters after the routine's SGD steps and the expectation TLC's SgdStep)."""
    fname = FNAME[case.kind]
    upd = case.kind in UPD_BASE
    gword = "step" if upd else "grad"
    alt = case.vec["alts"][0]
    par = case.vec["par"]
    n = case.n
    h = case.aux["h"]
    # counted: per unroll step one mean (K_MEAN roundings), h - 1 additions over the horizon; all terms are non-negative, so the
    # sum of |terms| is the component itself; the total adds <= 2 more roundings (weights 0/1/2 multiply exactly)
    kc = 0 if dyadic_n(n) else K_MEAN + (h - 1)
    tol_c = lambda x: kc * U * abs(fl(x))
    ok = True
    ecfg = case.aux["enccfg"]
    ctx = (f"(batch size {n}, horizon {case.aux['h']}, weights dyn/rew/done={fq(par['dw'])}/{fq(par['rw'])}/{fq(par['tw'])}, environment_terminates={par['envterm']}, "
           f"normalize_targets={par['normtgt']}, encoders built with activation='{ecfg['activation']}', encoder_activation_in_last_layer={par['actlast']}) terminated={case.arrays['term'].tolist()}")
    if upd:
        ctx = (f"[through the update routine: target_delay={par['td']} mini-batch(es), SGD lr={fq(par['lr'])}; returned (total, dyn, reward, done, rmse) = "
               f"{[float(out[x]) for x in ('loss', 'dyn', 'rew', 'done', 'rmse')]}] " + ctx)
    if not close_abs(out["dyn"], alt["dyn"], tol_c(alt["dyn"])):
        ok = False
        # named deviation of the specification (classification only): targets = zs_layer_norm(zs(o')) without the activation
        noact = fq(alt["dyn_noact"]) != fq(alt["dyn"]) and close_abs(out["dyn"], alt["dyn_noact"], tol_c(alt["dyn_noact"]))
        doc = (f"documented targets: stop_gradient of {case.vec['enc']['dyn_target_encoder']}'s zs output passed through {ecfg['dyn_target'] or 'nothing'}"
               f" (= encode_zs when normalize_targets) -> per row-step {[[vecf(z) for z in seq(r)] for r in seq(alt['tgt'])]}")
        key = f"{fname}:dynamics_target_not_encode_zs" if noact else f"{fname}:dynamics_loss"
        rep.violation(key, f"dynamics loss {float(out['dyn'])!r} != {fq(alt['dyn'])}" + (f" but equals {fq(alt['dyn_noact'])}: the targets are zs_layer_norm(zs(o')) WITHOUT the activation "
                      f"that encode_zs applies when the encoder is built with encoder_activation_in_last_layer=True (predictions live in the activated latent space)" if noact else "") + f"; {doc} {ctx}", rinfo)
    done_bc = False
    if not close_abs(out["done"], alt["done"], tol_c(alt["done"])):
        ok = False
        # mean(se)*mean(mask): two means and a product per step
        done_bc = close_abs(out["done"], alt["done_bc"], (2 * K_MEAN + 1 + (h - 1)) * U * abs(fl(alt["done_bc"])))
        key = f"{fname}:done_loss_broadcast" if done_bc else f"{fname}:done_loss"
        rep.violation(key, f"done loss {float(out['done'])!r} != documented masked MSE {fq(alt['done'])}" + (f" but equals mean(se)*mean(mask) = {fq(alt['done_bc'])}: the (N,) predictions are broadcast against the (N,1) mask, rows after a termination are not ignored" if done_bc else "") + f" {ctx} pred_done={[vecf(r['x']['pd']) for r in case.vec['rows']]}", rinfo)
    if not close_abs(out["rmse"], alt["rmse"], tol_c(alt["rmse"])):
        ok = False
        bc = close_abs(out["rmse"], alt["rmse_bc"], (2 * K_MEAN + 1 + (h - 1)) * U * abs(fl(alt["rmse_bc"])))
        key = f"{fname}:reward_mse_broadcast" if bc else f"{fname}:reward_mse"
        rep.violation(key, f"reward-MSE metric {float(out['rmse'])!r} != documented masked MSE {fq(alt['rmse'])}" + (f" but equals mean(se)*mean(mask) = {fq(alt['rmse_bc'])}" if bc else "") + f" {ctx}", rinfo)
    # reward cross-entropy with uniform logits: cr * ln(#bins), all terms non-negative.  Counted roundings (any batch size):
    # libm log <= 2 ulp (4 U), log_softmax subtraction 1, two-hot weight: x - lower 1, division 1, 1 - w 1, two products 2,
    # sum over the bins 3, mean K_MEAN, sum over the horizon <= 2, float32 rounding of the expected value 1  -> 18; the update
    # routine's mean over <= 2 mini-batches adds 2  -> 20; K_REW = 24
    K_REW = 24
    cr = fl(alt["cr"])
    lnk = math.log(len(BINS))
    if abs(float(out["rew"]) - cr * lnk) > K_REW * U * cr * lnk:
        ok = False
        rep.violation(f"{fname}:reward_loss", f"reward loss {float(out['rew'])!r} != {fq(alt['cr'])} * ln {len(BINS)} = {cr * lnk!r} (uniform logits) {ctx}", rinfo)
    rw = fl(par["rw"])
    tot = float(out["loss"])
    exp_tot = fl(alt["exact"]) + rw * cr * lnk
    tol_tot = (kc + (2 if kc else 0)) * U * fl(alt["exact"])
    if rw != 0:  # reward term's own bound, two additions and the float rounding of the expected value at the magnitude of the total
        tol_tot += K_REW * U * rw * cr * lnk + 3 * U * (fl(alt["exact"]) + rw * cr * lnk)
    tot_ok = close_abs(tot, alt["exact"], tol_tot) if rw == 0 else abs(tot - exp_tot) <= tol_tot
    if not tot_ok:
        ok = False
        exp_bc = fl(alt["exact_bc"]) + rw * cr * lnk
        bc = abs(tot - exp_bc) <= tol_tot + (2 * K_MEAN + 3) * U * abs(fl(alt["exact_bc"])) and done_bc
        key = f"{fname}:done_loss_broadcast" if bc else f"{fname}:total_loss"
        doc = f" = documented {fq(par['dw'])}*L_dyn + {fq(par['rw'])}*L_reward + {fq(par['tw'])}*L_done" if upd else ""
        rep.violation(key, f"total loss {tot!r} != {exp_tot!r}{doc} {ctx}", rinfo)
    for ref, idx, text in compare_grads(case, grads):
        ok = False
        g = group_of(case, ref, idx)
        key = f"{fname}:{gword}:{g}"
        if upd:
            text = "SGD step (old - new parameter) is not lr * gradient of the documented weighted sum: " + text.replace("d loss/d ", "step of ") + " [model.kernel columns: 0 done flag, 1-2 latent state, 3.. reward logits]"
        if ref == (0, "model.kernel"):
            got = grads[ref]
            exp = case.exp_grad[ref]
            chk = ~np.isnan(exp)
            chk[:, 0] = False
            gb = case.aux["gd_bc"]
            cb = ~np.isnan(gb)
            others_ok = bool(np.all(arr_close_abs(got, np.where(chk, exp, 0.0), case.tol_grad[ref])[chk]))
            col_bc = bool(np.all(arr_close_abs(got[:, 0], np.where(cb, gb, 0.0), case.aux["gd_bc_tol"])[cb]))
            if others_ok and col_bc:  # only the done column is off, and it is exactly the broadcast deviation's gradient
                key = f"{fname}:done_loss_broadcast"
                text += " = gradient of mean(se)*mean(mask): masked rows receive gradient, unmasked rows are scaled by mean(mask)"
        rep.violation(key, f"{fname}: {text} {ctx}", rinfo)
    return ok


def _short(par, kind):
    keep = {"lap": ["gamma", "delta"], "sac": ["gamma", "alpha"], "td7": ["gamma", "delta", "lo", "hi"], "mrq": ["gamma", "rs", "trs"],
            "mrqupd": ["gamma", "rs", "trs", "lr"], "saleupd": ["lr"], "encupd": ["dw", "rw", "tw", "lr"]}.get(kind, ["gamma"])
    out = {k: str(fq(par[k])) for k in keep}
    if kind in ("mrq", "mrqupd", "enc", "encupd"):  # configuration of the two encoders
        out |= {"encoder_activation_in_last_layer": par["actlast"], "activation": par["act"]}
    return out


PER_SAMPLE = ("ptd", "y")


def perm_close(a, b, n):
    """Scalars that are sums of NON-NEGATIVE per-sample terms (losses, mean |TD|, loss components): reordering a sum of n
    terms changes it by at most (n - 1) roundings per reduction relative to the sum of |terms| = the value itself; two critics /
    weighted components add <= 3 more.  Bound (n + 2) * U * value, applied to both evaluations."""
    a = float(a)
    b = float(b)
    return abs(a - b) <= 2 * (n + 2) * U * max(abs(a), abs(b))
# q_mean is a mean of SIGNED values: under cancellation the reordering error is (n-1) * eps * max|partial sum|, not relative to the
# result; |q_i| <= 16 for lattice values (<= 3) plus 0.37-sigma noise on <= 4 addends, so 4 * spacing(16) bounds it for n <= 4
QMEAN_ABS_TOL = 4 * float(np.spacing(np.float32(16.0)))


def check_relational(case: Case, res, base_res, rep, stats):
    """Off-lattice variants: perturbation of irrelevant cells must not change anything (bitwise);
    a permutation of the batch permutes per-sample outputs (bitwise) and keeps scalars within 4 ulp."""
    fname = FNAME[case.kind]
    out, grads = res
    bout, bgrads = base_res
    rinfo = {"vec": case.vec, "fill_seed": list(case.fill_seed), "variant": case.variant}
    ok = True
    if case.variant == "perturb":
        for k in bout:
            if not same_bits(out[k], bout[k]):
                ok = False
                what = "steps after the first termination of a row" if case.kind == "enc" else "the bootstrap inputs (successor observation, target / policy outputs there) of terminated rows"
                key = f"{fname}:terminated_bootstrap:{k}"
                if case.kind == "enc":
                    key = f"{fname}:done_loss_broadcast" if k in ("done", "loss") else (f"{fname}:reward_mse_broadcast" if k == "rmse" else f"{fname}:after_termination:{k}")
                rep.violation(key, f"{fname}: output '{k}' changed from {np.asarray(bout[k]).tolist()} to {np.asarray(out[k]).tolist()} when only {what} {case.irrelevant_rows} were perturbed (terminated={case.arrays['term'].tolist() if case.kind != 'enc' else base_term(case)})", rinfo)
    elif case.variant == "perm":
        p = case.perm
        for k in bout:
            if k in PER_SAMPLE:
                if not same_bits(out[k], np.asarray(bout[k])[p]):
                    ok = False
                    rep.violation(f"{fname}:permutation:{k}", f"{fname}: per-sample output '{k}' is not permuted with the batch (perm {p}): {np.asarray(out[k]).tolist()} vs {np.asarray(bout[k])[p].tolist()}", rinfo)
            elif not (perm_close(out[k], bout[k], case.n) or (k == "qmean" and abs(float(out[k]) - float(bout[k])) <= QMEAN_ABS_TOL)):
                ok = False
                key = f"{fname}:permutation:{k}"
                rep.violation(key, f"{fname}: output '{k}' changed from {float(bout[k])!r} to {float(out[k])!r} under the batch permutation {p}", rinfo)
    return ok


def base_term(case):
    return [seq(r["x"]["ts"]) for r in case.vec["rows"]]


# ----------------------------------------------------------------- driver
def group_key(c: Case):
    k = c.kind
    shape = tuple((nm, np.shape(v)) for nm, v in sorted(c.arrays.items())) + tuple((mi, kk, np.shape(v)) for mi, lv in enumerate(c.leaves) for kk, v in sorted(lv.items()))
    extra = (c.aux.get("h"), c.aux.get("normtgt")) if k == "enc" else ()
    if k in ("enc", "mrq"):  # the encoders' configuration is static (constructor arguments)
        extra += (c.aux["enccfg"]["actlast"], c.aux["enccfg"]["activation"], c.aux["enccfg"]["gain"], c.aux["enccfg"]["shift"])
    if k == "td7":
        extra = (fl(c.vec["par"]["gamma"]), fl(c.vec["par"]["delta"]))
    if k in UPD_BASE:  # static arguments / optimiser of the routine: one jit specialisation per group
        par = c.vec["par"]
        extra = tuple((nm, par[nm] if isinstance(par[nm], (bool, int, str)) else fl(par[nm])) for nm in
                      {"encupd": ("dw", "rw", "tw", "envterm", "normtgt", "actlast", "act", "lr", "td"), "saleupd": ("lr",), "mrqupd": ("gamma", "lr", "actlast", "act")}[k]) + (c.aux.get("h"), c.aux.get("table"))
    return (k, c.n, shape, extra)


def evaluate(rep, vectors, stats, variants_every=3, td7_cap=None):
    """Realise every vector, group, run the real code, compare.  Returns number of cases evaluated."""
    groups = {}
    td7_idx = [vi for vi, vec in enumerate(vectors) if vec["kind"] == "td7"]
    td7_keep = set(td7_idx)
    if td7_cap is not None and len(td7_idx) > td7_cap:  # evaluated one by one (optimiser step): seeded subset over all batch sizes
        td7_keep = set(np.random.default_rng([rep.seed, 307]).choice(td7_idx, size=td7_cap, replace=False).tolist())
        stats["td7_skipped"] += len(td7_idx) - td7_cap
    for vi, vec in enumerate(vectors):
        if vec["kind"] == "td7" and vi not in td7_keep:
            continue
        fs = (rep.seed, 303, vi)
        cs = make_cases(vec, fs, with_variants=(vi % variants_every == 0))
        for c in cs:
            groups.setdefault(group_key(c), []).append(c)
    total = 0
    for gk, cases in groups.items():
        kind, n = gk[0], gk[1]
        fname = FNAME[kind]
        try:
            res = run_cases(kind, cases)
        except tlc.MachineryError:
            raise
        except Exception as e:  # raised by the code under test
            msg = f"{type(e).__name__}: {str(e).splitlines()[0][:200] if str(e) else ''}"
            stats["failed"].update(canon(c.vec) for c in cases)  # not usable for the binding canary
            if n == 1:
                stats["batch1"][fname] = f"rejects batch size 1 loudly ({msg})"
                continue
            tb = traceback.format_exc()
            rep.violation(f"{fname}:exception", f"{fname} raised {msg} on a batch of size {n} where the specification defines a result", {"vec": cases[0].vec, "fill_seed": list(cases[0].fill_seed), "variant": "lattice", "traceback": tb[-1500:]})
            continue
        if n == 1:
            stats["batch1"].setdefault(fname, "accepts batch size 1 (values compared with the per-sample value)")
        for c, r in zip(cases, res):
            total += 1
            stats["cases"][c.variant] += 1
            if c.variant == "lattice":
                stats["per_kind"][kind] = stats["per_kind"].get(kind, 0) + 1
                stats["nontrivial"] += 1 if nontrivial(c.vec) else 0
                if not check_lattice(c, r[0], r[1], rep, stats):
                    stats["failed"].add(canon(c.vec))
        by_id = {id(c): r for c, r in zip(cases, res)}
        for c, r in zip(cases, res):
            if c.variant in ("perturb", "perm"):
                check_relational(c, r, by_id[c.base], rep, stats)
    return total


def make_cases(vec, fill_seed, with_variants=True):
    rng = np.random.default_rng(list(fill_seed))
    base = realise(vec, rng)
    base.fill_seed = tuple(fill_seed)
    out = [base]
    if vec["kind"] in UPD_BASE:  # the relational variants are run on the wrapped losses themselves
        return out
    if with_variants and vec["kind"] != "td7":
        nz = noisy(base, rng)
        nz.fill_seed = tuple(fill_seed)
        out.append(nz)
        for v in (perturbed(nz, rng), permuted(nz, rng)):
            if v is not None:
                v.base = id(nz)
                v.fill_seed = tuple(fill_seed)
                out.append(v)
    elif with_variants:  # td7: static gamma, no gradient outputs: perturb / permute the lattice case itself
        for v in (perturbed(base, rng), permuted(base, rng)):
            if v is not None:
                v.base = id(base)
                v.fill_seed = tuple(fill_seed)
                out.append(v)
    return out


def nontrivial(vec):
    """A vector is non-trivial when some row has a non-zero TD error / prediction error."""
    a = vec["alts"][0]
    if UPD_BASE.get(vec["kind"], vec["kind"]) == "enc":
        return fq(a["dyn"]) != 0 or fq(a["done"]) != 0
    return fq(a["loss"]) != 0


def canon(vec):
    return json.dumps([vec["kind"], vec["n"], vec["par"], vec["rows"]], sort_keys=True)


def spec_canaries(pool):
    """Named deviations of the spec must be refuted by TLC (submitted to the pool; checked by finish_canaries)."""
    todo = [
        ("noterm", {"td3", "ddqn", "mrq"}, "TerminatedNoBootstrap"),
        ("broadcast", {"ddpg"}, "PerSample"),
        ("nosg", {"dqn"}, "GradSupport"),
        ("encbroadcast", {"enc"}, "PerSample"),
        ("encbroadcast", {"enc"}, "AfterTermIgnored"),
        # encode_zs re-implemented by hand for the dynamics targets, activation of the last layer forgotten
        ("tgtnoact", {"enc"}, "EncoderConfigLaw"),
        # two neighbouring scalar hyper-parameters exchanged in the inner positional call of an update routine
        ("updswap", {"encupd"}, "UpdEachWeightItsOwnTerm"),
        ("updswap", {"mrqupd"}, "UpdScalesInRole"),
    ]
    futs = []
    for dev, kinds, inv in todo:
        c = dict(EMIT=False, Kinds=kinds, NSet={1} if dev == "updswap" else {2}, NA=2, H=2, LAT="small", DEV=dev)
        futs.append((dev, inv, pool.submit(tlc.run, "Losses", tlc.cfg_text(constants=c, invariants=[inv]), workers=1, tag=f"losses-{dev}")))
    return futs


def finish_canaries(futs):
    for dev, inv, f in futs:
        r = f.result()
        if r.violated != inv:
            raise tlc.MachineryError(f"canary: deviation '{dev}' is not refuted by {inv} (got {r.violated})")


def binding_canary(rep, vectors, failed=frozenset()):
    """Corrupt one expected value and one expected gradient and make sure the comparison notices.  Uses vectors the real
    code PASSED (a canary on a vector that already fails would say nothing); kinds without a passing vector are skipped -
    the run is failing with exit 1 anyway."""
    from ..report import Report

    picks = {}
    passing = {k: any(v["kind"] == k and v["n"] == 2 and canon(v) not in failed for v in vectors) for k in ("ddqn", "td3", "enc")}
    for v in vectors:
        if canon(v) in failed:
            continue
        if v["n"] == 2 and nontrivial(v) and len(v["alts"]) == 1 and v["kind"] in ("ddqn", "td3", "enc") and v["kind"] not in picks:
            if v["kind"] == "enc" and not (v["par"]["envterm"] and fq(v["alts"][0]["done"]) != 0):
                continue
            if v["kind"] != "enc" and all(fq(g) == 0 for g in seq(v["alts"][0]["g1"])):
                continue
            picks[v["kind"]] = v
    if any(passing[k] and k not in picks for k in passing) and not failed:
        raise tlc.MachineryError(f"binding canary: no suitable vectors ({sorted(picks)})")
    for kind, v in picks.items():
        bad = json.loads(json.dumps(v))
        a = bad["alts"][0]
        if kind == "enc":
            a["done"] = [a["done"][0] * 2 + 1, a["done"][1] * 2]
        else:
            a["loss"] = [a["loss"][0] * 4 + 1, a["loss"][1] * 4]
        bad2 = json.loads(json.dumps(v))
        if kind != "enc":
            g = seq(bad2["alts"][0]["g1"])
            i = next(i for i, x in enumerate(g) if fq(x) != 0)
            g[i] = [g[i][0] * 2 + 1, g[i][1] * 2]
        scratch = Report("C03", rep.tier, rep.seed)
        st = new_stats()
        evaluate(scratch, [bad] + ([bad2] if kind != "enc" else []), st, variants_every=10**9)
        keys = [x["key"] for x in scratch.violations]
        want = ["done_loss"] if kind == "enc" else [":loss", ":grad:online@obs"]
        for w in want:
            if not any(w in k for k in keys):
                raise tlc.MachineryError(f"binding canary: corrupted expectation ({kind}, {w}) not noticed; got {keys}")
    # encoder configuration: TLC's expectation for encoders built with encoder_activation_in_last_layer=True, the REAL encoders
    # built without it (nothing else changed): the dynamics targets lose their activation stage - must be noticed and named
    cands = [v for v in vectors if v["kind"] == "enc" and v["n"] == 2 and canon(v) not in failed and v["par"]["actlast"] and v["par"]["normtgt"]
             and fq(v["alts"][0]["dyn_noact"]) != fq(v["alts"][0]["dyn"])]
    if not cands and not failed and any(v["kind"] == "enc" for v in vectors):
        raise tlc.MachineryError("binding canary: no encoder-loss vector whose targets depend on the activation of the last layer")
    if cands:
        bad = json.loads(json.dumps(cands[0]))
        bad["par"]["actlast"] = False
        bad["enc"]["actlast"] = False
        bad["enc"]["encode_zs"] = [nm for nm in bad["enc"]["encode_zs"] if nm != "activation"]
        scratch = Report("C03", rep.tier, rep.seed)
        evaluate(scratch, [bad], new_stats(), variants_every=10**9)
        keys = [x["key"] for x in scratch.violations]
        if "model_based_encoder_loss:dynamics_target_not_encode_zs" not in keys:
            raise tlc.MachineryError(f"binding canary: encoders built without the activation of the last layer not noticed; got {keys}")
    # update routines: a corrupted returned component / loss and a corrupted SGD step must be noticed
    upicks = {}
    for v in vectors:
        kind = v["kind"]
        if kind not in ("encupd", "mrqupd") or kind in upicks or canon(v) in failed or len(v["alts"]) != 1:
            continue
        a = v["alts"][0]
        if kind == "encupd" and not (v["par"]["envterm"] and fq(a["done"]) != 0 and any(fq(x) != 0 for r in seq(a["sd"]) for x in seq(r))):
            continue
        if kind == "mrqupd" and all(fq(x) == 0 for x in seq(a["s1"])):
            continue
        upicks[kind] = v
    present = {v["kind"] for v in vectors if v["kind"] in ("encupd", "mrqupd")}
    if present - set(upicks) and not failed:
        raise tlc.MachineryError(f"binding canary: no suitable update-routine vectors ({sorted(upicks)} of {sorted(present)})")
    for kind, v in upicks.items():
        bad = json.loads(json.dumps(v))
        bad2 = json.loads(json.dumps(v))
        a, a2 = bad["alts"][0], bad2["alts"][0]
        if kind == "encupd":
            a["done"] = [a["done"][0] * 2 + 1, a["done"][1] * 2]
            cells = [(i, t) for i, r in enumerate(seq(a2["sd"])) for t, x in enumerate(seq(r)) if fq(x) != 0]
            i, t = cells[0]
            x = seq(seq(a2["sd"])[i])[t]
            seq(seq(a2["sd"])[i])[t] = [x[0] * 2 + 1, x[1] * 2]
            # (a corrupted done expectation / done cell may coincide with the named broadcast deviation: classified as such)
            want = [("update_model_based_encoder:done_loss",), ("update_model_based_encoder:step:encoder_model", "update_model_based_encoder:done_loss_broadcast")]
        else:
            a["loss"] = [a["loss"][0] * 4 + 1, a["loss"][1] * 4]
            g = seq(a2["s1"])
            i = next(i for i, x in enumerate(g) if fq(x) != 0)
            g[i] = [g[i][0] * 2 + 1, g[i][1] * 2]
            want = [("update_critic_and_policy:loss",), ("update_critic_and_policy:step:online@obs",)]
        for b, w in zip((bad, bad2), want):
            scratch = Report("C03", rep.tier, rep.seed)
            evaluate(scratch, [b], new_stats(), variants_every=10**9)
            keys = [x["key"] for x in scratch.violations]
            if not any(k.startswith(w) for k in keys):
                raise tlc.MachineryError(f"binding canary: corrupted expectation ({kind}, {w}) not noticed; got {keys}")


def new_stats():
    return {"cases": {"lattice": 0, "noise": 0, "perturb": 0, "perm": 0}, "per_kind": {}, "ties": 0, "batch1": {}, "td7_skipped": 0, "failed": set(), "nontrivial": 0}


def run(rep):
    import os
    import time
    from concurrent.futures import ThreadPoolExecutor

    quick = rep.tier == "quick"
    t0 = time.time()
    tm = {}
    tlc.sany("Losses")
    workers = int(os.environ.get("VERIF_TLC_WORKERS", "16"))
    base = dict(EMIT=False, Kinds=set(ALL_KINDS), NSet={1, 2}, NA=2, H=2, LAT="small", DEV="")
    sims = [
        dict(NSet={2, 4}, NA=3, H=2, LAT="full", num=800 if quick else 6000),
        dict(NSet={1, 3}, NA=2, H=2 if quick else 3, LAT="full" if quick else "small", num=300 if quick else 3000),
    ]
    if quick:  # horizon 3: the cumulative termination mask / n-step discount differ from their one-step forms only for H >= 3
        sims += [dict(NSet={2, 3}, NA=2, H=3, LAT="small", num=200, Kinds={"enc", "mrq"})]
    else:
        sims += [dict(NSet={1, 2, 3, 4}, NA=2, H=2, LAT="full", num=6000), dict(NSet={2, 4}, NA=3, H=1, LAT="full", num=1500)]
    # update routines (update_model_based_encoder, update_sale, update_critic_and_policy): exhaustive invariants on batch size 1
    # (encoder: 1-2 mini-batches), vectors from seeded random walks; dyadic batch sizes only (every comparison exact)
    usims = [dict(NSet={2}, H=2, LAT="small", num=150)] if quick else [dict(NSet={2, 4}, H=3, LAT="full", num=450), dict(NSet={2, 4}, H=2, LAT="full", num=600)]
    # all TLC runs are independent processes: run them side by side
    with ThreadPoolExecutor(max_workers=6 + len(sims) + len(usims)) as pool:
        can = spec_canaries(pool)
        # 1. properties on the model, exhaustive over the small lattice
        f_inv = pool.submit(tlc.run, "Losses", tlc.cfg_text(constants=base, invariants=INVS), workers=workers, tag="losses-inv", timeout=1500)
        # 2. vectors: the same lattice exhaustively, and seeded random walks over the full lattice (invariants checked there too)
        f_gen = pool.submit(tlc.run, "Losses", tlc.cfg_text(constants=dict(base, EMIT=True)), workers=1, tag="losses-gen", timeout=1500)
        f_inv3 = None
        if not quick:  # batches of three rows for the kinds whose small row lattice allows it (the others: random walks below)
            c3 = dict(base, NSet={3}, Kinds={"td3", "lap", "td7", "enc"})
            f_inv3 = pool.submit(tlc.run, "Losses", tlc.cfg_text(constants=c3, invariants=INVS), workers=workers, tag="losses-inv3", timeout=3000)
        cu = dict(EMIT=False, Kinds=set(UPD_KINDS), NSet={1}, NA=2, H=2, LAT="small", DEV="")
        f_uinv = pool.submit(tlc.run, "Losses", tlc.cfg_text(constants=cu, invariants=UPD_INVS), workers=min(workers, 4), tag="losses-updinv", timeout=1500)
        f_usim = []
        for si, us in enumerate(usims):
            cu = dict(EMIT=True, Kinds=set(UPD_KINDS), NSet=us["NSet"], NA=2, H=us["H"], LAT=us["LAT"], DEV="")
            f_usim.append(pool.submit(tlc.run, "Losses", tlc.cfg_text(constants=cu, invariants=UPD_INVS), workers=1, simulate=f"num={us['num']}", depth=40,
                                      seed=rep.seed * 7 + 97 + si, tag=f"losses-updsim{si}", timeout=1500))
        f_sim = []
        for si, s in enumerate(sims):
            cc = dict(EMIT=True, Kinds=s.get("Kinds", set(ALL_KINDS)), NSet=s["NSet"], NA=s["NA"], H=s["H"], LAT=s["LAT"], DEV="")
            f_sim.append(pool.submit(tlc.run, "Losses", tlc.cfg_text(constants=cc, invariants=INVS), workers=1, simulate=f"num={s['num']}", depth=12,
                                     seed=rep.seed * 7 + si + 1, tag=f"losses-sim{si}", timeout=1500))
        _lazy()  # import jax / flax while TLC is running
        from rl_blox.blox import losses as _warm  # noqa: F401

        finish_canaries(can)
        r = f_inv.result()
        g = f_gen.result()
        sim_res = [f.result() for f in f_sim]
        ru = f_uinv.result()
        sus = [f.result() for f in f_usim]
    rep.add_tlc(ru, "Losses update routines, batch size 1, 1-2 mini-batches: invariants")
    if not ru.ok:
        rep.violation(f"spec:Losses:{ru.violated}", f"design-level violation of {ru.violated} (update routines)", ru.error_trace)
    sim_res += sus
    rep.add_tlc(r, "Losses small lattice N in {1,2}: invariants")
    if not r.ok:
        rep.violation(f"spec:Losses:{r.violated}", f"design-level violation of {r.violated}", r.error_trace)
    rep.add_tlc(g, "Losses small lattice: generation")
    if f_inv3 is not None:
        r3 = f_inv3.result()
        rep.add_tlc(r3, "Losses small lattice N=3 (td3 lap td7 enc): invariants")
        if not r3.ok:
            rep.violation(f"spec:Losses:{r3.violated}", f"design-level violation of {r3.violated} (N=3)", r3.error_trace)
    vectors = list(g.emitted)
    sim_total = 0
    for sr in sim_res:
        if sr.violated:
            rep.violation(f"spec:Losses:{sr.violated}", f"design-level violation of {sr.violated} (random walk)", sr.error_trace)
        sim_total += len(sr.emitted)
        vectors += sr.emitted
    tm["tlc"] = round(time.time() - t0, 1)
    seen = set()
    uniq = []
    for v in vectors:
        k = canon(v)
        if k not in seen:
            seen.add(k)
            uniq.append(v)
    stats = new_stats()
    total = evaluate(rep, uniq, stats, variants_every=4 if quick else 3, td7_cap=400 if quick else 3000)
    tm["replay"] = round(time.time() - t0, 1)
    binding_canary(rep, uniq, stats["failed"])
    tm["binding_canary"] = round(time.time() - t0, 1)
    rep.extra["cumulative_wall_s"] = tm

    nt = stats["nontrivial"]
    rep.traces = stats["cases"]["lattice"]
    rep.evaluations = total
    rep.distinct = nt
    rep.exhaustive = False
    rep.rule = (
        "TLC enumerates every vector of Losses.tla's small lattice (12 loss kinds, batch size 1-2, curated dyadic values, all termination patterns) "
        "and draws seeded random walks over the full lattice (batch size 1-4, 2-3 actions, horizon 1-3); each vector is a staged choice kind -> parameters -> "
        "per row (bootstrap part, transition + online predictions); a vector is non-trivial when its expected loss is non-zero; every distinct vector is "
        "realised with stub networks and replayed once (plus noise / irrelevant-cell perturbation / permutation variants for every 3rd-4th vector); "
        "the update routines (update_model_based_encoder over 1-2 mini-batches, update_sale, update_critic_and_policy; td7_update_critic is kind td7) get "
        "their own walks with curated, pairwise distinct non-default hyper-parameters and an SGD optimiser with dyadic learning rate: returned losses and "
        "old - new parameters are compared with TLC's values; the MR.Q kinds (enc, encupd, mrq, mrqupd) additionally range over the encoder configuration "
        "(encoder_activation_in_last_layer, activation relu / hard_tanh, normalize_targets, environment_terminates): small lattice all four "
        "(normalize_targets, activation-in-last-layer) pairs, full lattice the product"
    )
    for v in [u for u in uniq if u["n"] >= 2 and nontrivial(u)][:: max(1, len(uniq) // 3)][:3]:
        rep.sample({"kind": v["kind"], "n": v["n"], "par": _short(v["par"], v["kind"]), "rows": v["rows"], "expected": v["alts"][0]})
    rep.extra.update(
        vectors_small_lattice=len(g.emitted), vectors_random_walks=sim_total, distinct_vectors=len(uniq), cases=stats["cases"], per_kind=stats["per_kind"],
        vectors_with_argmax_ties=stats["ties"], batch_size_1=stats["batch1"], td7_vectors_skipped_by_cap=stats["td7_skipped"],
    )
    rep.assumptions += [
        "network forward passes are inputs: stub modules (bias-free linear maps on one-hot inputs) realise the outputs chosen by TLC",
        "values are decided on dyadic lattices only; off-lattice floats only relationally (bitwise irrelevance of terminated rows' bootstrap inputs, permutation)",
        "two-hot reward cross-entropy inside model_based_encoder_loss only for uniform logits (coefficient * ln #bins within 24 counted roundings)",
        "batch size 3: values and gradients within counted rounding bounds k * 2^-24 * sum |terms| (k = number of float32 roundings incl. 1/3 and the Huber backward pass); expected zeros and batch sizes 1, 2, 4 exact",
        "td7_update_critic's gradient is observed through an SGD(lr=1) optimiser step",
        "update routines: SGD(lr in {1/2, 1}) supplied by the binding, batch sizes 2 and 4, target_delay 1-2; over several mini-batches the encoder's model head is a table "
        "lookup on the row-step (state-action layer ignores the latent state) and no row is drawn twice, so mini-batches do not interact; reward-logit cells of the step "
        "within 8 counted roundings, everything else ==; the policy part of update_critic_and_policy is not judged (not a C03 loss)",
        "MR.Q encoders: real ModelBasedEncoder constructor and methods in the TLC-chosen configuration; sub-networks are tables, zs_layer_norm is the exact affine map "
        "x -> 2x - 1/4 of the specification (LNorm), activations relu / hard_tanh (exact on dyadics); TLC computes the dynamics targets from the raw zs outputs, the "
        "binding applies the specification's stage lists only to realise TLC's numbers (solving table cells for f(o_0))",
        "trusted: harness/stubs.py, realisation code in c03.py, Exact.tla, TLC",
    ]


def replay(path, rep):
    d = json.load(open(path))
    info = d["replay"]
    if not isinstance(info, dict) or "vec" not in info:
        print("design-level violation; error trace:\n", info)
        return 1
    vec = info["vec"]
    scratch_stats = new_stats()
    cases = make_cases(vec, tuple(info["fill_seed"]), with_variants=True)
    print(f"kind={vec['kind']} n={vec['n']} par={_short(vec['par'], vec['kind'])}")
    print("rows:", json.dumps(vec["rows"]))
    print("expected (TLC):", json.dumps(vec["alts"])[:1500])
    groups = {}
    for c in cases:
        groups.setdefault(group_key(c), []).append(c)
    for gk, cs in groups.items():
        try:
            res = run_cases(gk[0], cs)
        except Exception as e:
            print("code under test raised:", type(e).__name__, str(e)[:300])
            if vec["n"] == 1:
                return 0
            print("VIOLATION property=C03 replay=" + path)
            return 1
        by_id = {id(c): r for c, r in zip(cs, res)}
        for c, r in zip(cs, res):
            print(f"[{c.variant}] outputs:", {k: np.asarray(v).tolist() for k, v in r[0].items()})
            if c.variant == "lattice":
                check_lattice(c, r[0], r[1], rep, scratch_stats)
            elif c.variant in ("perturb", "perm"):
                check_relational(c, r, by_id[c.base], rep, scratch_stats)
    hit = [v for v in rep.violations if v["key"] == d["key"]] or rep.violations
    if hit:
        print("VIOLATION property=C03 replay=" + path)
        for v in hit[:3]:
            print("  ", v["key"], "::", v["what"][:600])
        return 1
    return 0
