"""C09 - training is a deterministic function of seed, initial state and environment."""
from __future__ import annotations

import json
import os

from .. import sweep, tlc

LEVEL = "model_checking"
MANIFEST = dict(
    category="model_checking",
    text="Determinism.tla expresses the 2-safety property by self-composition: two recorded executions of the same routine and seed, run in separate processes with different PYTHONHASHSEED, different global numpy/random states and a shifted clock, are advanced in lock-step and every pair of events must be equal records (environment interaction, kept transitions, content digest of every watched component at every event, logged statistics, returned counters, final parameter digests); TLC accepts a pair iff both traces are consumed, requires the global generators untouched, and must reject the pair recorded with a different seed (non-vacuity).",
    note="one reference pair per routine and scenario (3 quick / 5 thorough scenarios), same host and XLA flags; determinism across machines / thread counts out of scope; trusted: recording wrappers, digests, TLC",
    technique="TLA+ self-composition spec; TLC validates pairs of traces recorded from separate processes of every train_* routine",
)

KEEP = ("ev", "env", "obs", "next", "act", "r4", "term", "trunc", "after_end", "n", "key", "val", "step", "episode", "vd", "chosen", "auto")


def _norm(t):
    evs = []
    for e in t["events"]:
        r = {k: e[k] for k in KEEP if k in e}
        r["act"] = str(r.get("act", ""))
        for k in KEEP:
            r.setdefault(k, "" if k in ("key", "val", "vd") else (False if k in ("term", "trunc", "after_end", "auto") else ([] if k in ("obs", "next") else -1)))
        evs.append(r)
    fin = dict(r_ := {k: ("" if k in ("key", "val", "vd", "act") else (False if k in ("term", "trunc", "after_end", "auto") else ([] if k in ("obs", "next") else -1))) for k in KEEP})
    fin.update(ev="final", key=json.dumps(t.get("final", {}), sort_keys=True), val=str(t.get("error", "")))
    evs.append(fin)
    return evs


def run(rep):
    quick = rep.tier == "quick"
    tlc.sany("Determinism")
    recs, d = sweep.record(rep.tier, rep.seed, (0, 1, 2))
    names = sorted({n for n, v in recs})
    pairs = []
    for n in names:
        a, b, c = recs[(n, 0)], recs[(n, 1)], recs[(n, 2)]
        for ta, tb, tc in zip(a, b, c):
            pairs.append({"id": ta["id"] + "|same", "a": _norm(ta), "b": _norm(tb), "ga": bool(ta.get("global_rng_untouched", True)), "gb": bool(tb.get("global_rng_untouched", True))})
            pairs.append({"id": ta["id"] + "|other", "a": _norm(ta), "b": _norm(tc), "ga": True, "gb": True})
    # multi-task schedulers (train_uts / train_smt / train_active_mt) on the scripted learner of the C11 scheduler part:
    # every scenario is run twice in this process with different states of the global generators (random, numpy.random)
    n_sched = 0
    try:
        from . import c11_sched
    except ImportError:
        c11_sched = None
    if c11_sched is not None:
        import random as _random

        import numpy as _np

        def _sched_events(sc, g):
            _random.seed(g)
            _np.random.seed(g)
            tr = c11_sched.run_scheduler(dict(sc))
            evs = [{"ev": "sched", "key": json.dumps(e, sort_keys=True, default=str)} for e in tr["events"]]
            evs.append({"ev": "final", "key": json.dumps({k: tr.get(k) for k in ("aborted", "exception", "env_steps")}, sort_keys=True, default=str)})
            return [dict({k: ("" if k in ("key", "val", "vd", "act") else (False if k in ("term", "trunc", "after_end", "auto") else ([] if k in ("obs", "next") else -1))) for k in KEEP}, **e) for e in evs]

        scs = c11_sched.scenarios(rep.seed, quick)
        for sc in scs:
            a_, b_ = _sched_events(sc, 11), _sched_events(sc, 987)
            pairs.append({"id": f"sched-{sc['id']}:stub|same", "a": a_, "b": b_, "ga": True, "gb": True})
            n_sched += 1
        rep.extra["scheduler_pairs"] = n_sched
    # binding canary: one corrupted digest must be rejected
    bad = json.loads(json.dumps(pairs[0]))
    bad["id"] = "canary|same"
    k = len(bad["b"]) // 2
    bad["b"][k]["vd"] = bad["b"][k]["vd"] + "x"
    pairs.append(bad)
    os.makedirs(os.path.join(tlc.OUT, "tmp"), exist_ok=True)
    path = os.path.join(tlc.OUT, "tmp", f"det-{os.getpid()}.json")
    with open(path, "w") as f:
        json.dump(pairs, f)
    try:
        r = tlc.run("Determinism", tlc.cfg_text(constraints=["Verdict"]), workers=1, env={"TRACE_FILE": path}, tag="det", timeout=1500)
    finally:
        os.remove(path)
    rep.add_tlc(r, "Determinism lock-step validation")
    verd = {}
    for line in r.stdout.splitlines():
        if line.startswith('<<"VERDICT", "'):
            v = json.loads(json.loads(line[len('<<"VERDICT", '):-2]))
            verd[v["id"]] = v
    if verd.get("canary|same", {}).get("accepted", True):
        raise tlc.MachineryError("binding canary: corrupted digest accepted")
    differ = {}
    for p in pairs[:-1]:
        v = verd.get(p["id"])
        if v is None:
            raise tlc.MachineryError(f"no verdict for {p['id']}")
        rname, kind = p["id"].split(":")[0], p["id"].split("|")[1]
        if rname.startswith("sched-"):
            rname = "train_" + {"uts": "uts", "amt": "active_mt", "smt": "smt"}.get("".join(c for c in rname[6:] if c.isalpha()).rstrip("s"), rname[6:])
        if kind == "same":
            rep.traces += 1
            if not v["accepted"]:
                pos = v["pos"]
                ea = p["a"][pos - 1] if pos <= len(p["a"]) else None
                eb = p["b"][pos - 1] if pos <= len(p["b"]) else None
                diff = [k for k in KEEP if ea and eb and ea.get(k) != eb.get(k)]
                rep.violation(f"{rname}:nondeterministic", f"{p['id']}: two runs with equal seeds diverge at event {pos} (fields {diff}): {ea} vs {eb}"[:700],
                              {"routine": rname, "pair": p["id"], "position": pos})
            if not v["rng"]:
                rep.violation(f"{rname}:global_rng_used", f"{p['id']}: the run changed the state of an unseeded global generator (numpy.random / random)", {"routine": rname, "pair": p["id"]})
        else:
            differ[rname] = differ.get(rname, False) or (not v["accepted"])
    vac = [n for n, dflag in differ.items() if not dflag]
    if vac:
        raise tlc.MachineryError(f"non-vacuity: runs with a different seed were accepted as equal for {vac}")
    rep.evaluations = sum(len(p["a"]) for p in pairs if p["id"].endswith("|same"))
    rep.distinct = rep.traces
    rep.rule = "one case = one pair of complete traces (same routine, scenario and seed; separate processes with different hash seed / global RNG state / clock); non-trivial = pairs whose different-seed counterpart is rejected"
    rep.sample({"pair": pairs[0]["id"], "events": len(pairs[0]["a"]), "verdict": verd[pairs[0]["id"]], "different_seed_verdict": verd[pairs[1]["id"]]})
    rep.extra["routines"] = names
    rep.assumptions += ["seeds: the scenario seeds of the sweep (one per scenario); same host", "XLA flag --xla_cpu_multi_thread_eigen=false in all runs"]


def replay(path, rep):
    d = json.load(open(path))["replay"]
    from ..report import Report

    r2 = Report("C09", rep.tier, rep.seed)
    run(r2)
    bad = [v for v in r2.violations if v["replay"]["routine"] == d["routine"]]
    for v in bad:
        print(v["key"], "::", v["what"][:300])
    if bad:
        print(f"VIOLATION property=C09 replay={path}")
        return 1
    return 0
