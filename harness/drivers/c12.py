"""C12 - actor objectives have the documented value and gradient.

spec/Actor.tla transcribes, on exact rationals, the policy-gradient pseudo-loss
(with the weights of REINFORCE / actor-critic / A2C), the PPO objective, the
deterministic policy gradient losses of DDPG / TD7 / MR.Q, the SAC actor loss
and the SAC temperature loss together with their per-sample derivatives and
with differentiable-dependency sets.  TLC checks the relational clauses on the
model (weights are constants, unclipped gradient at ratio 1, zero gradient when
clipped on the favoured side, per-sample value term, direction of the
temperature move ...) and refutes eight named deviations.  TLC-generated
vectors (network OUTPUTS chosen by TLC, expected objective / coefficients
printed by TLC) are realised with table-lookup stub modules that have one
parameter per sample (harness/stubs.py, harness/stubs_actor.py) and replayed
into the REAL functions: values and jax gradients are compared exactly, with
critic outputs of shape (N,) and (N,1), and through one SGD(lr=1) step of the
real update functions.  With the repository's own heads (softmax, Gaussian,
tanh-Gaussian, deterministic tanh, SALE actor) gradient support and sign are
checked, and one real Adam step of the entropy coefficient for its direction.

spec/ActorEpochs.tla specifies the USE of the PPO objective over several epochs
(update_ppo) as a state machine: advantages, returns and the reference
log-probabilities are fixed at entry, every epoch is one SGD step of actor and
critic on Actor.tla's ppo_loss(theta_k; reference).  TLC decides per sample and
epoch on which side of the clip range the ratio pi_theta_k / pi_theta_0 lies
(exact rationals, outward rounded enclosures of exp after a step at a ratio
other than 1) and proves that a sample clipped on the side its advantage favours
gets coefficient 0.  The real update_ppo(epochs=j), j = 1..K, is run from
identical entry parameters and compared with the model's state after every
epoch; with the repository's own networks update_ppo(epochs=K) is compared with
the model's schedule executed step by step with the real ppo_loss.

The temperature clause is stated at EVERY value of the parameter (kind "templa" of
Actor.tla): log_alpha = a + k ln 2 over the float32 range in which alpha is a
normal number (0, 2.5, 4, 10, 50, 80, -12, -21, -30, -60, -80, k ln 2 ...).  Loss,
gradient w.r.t. log_alpha and the SGD step are linear forms  c * Exp(log_alpha)
with TLC's exact coefficient c (device D3: Exp at the float32 parameter is the
named constant); TLC proves that the gradient coefficient is non-zero with the
sign of (estimate - target) at every parameter value, and that alpha is strictly
increasing in log_alpha; it refutes the clipped parametrisation
alpha = exp(clip(log_alpha, -20, 2)).  The binding compares value / gradient /
step in counted ulps, alpha = 2^k for log_alpha = k ln 2 and the strict order of
the alphas on float32 ordinals (D4).  spec/ActorTemp.tla drives ONE live
EntropyCoefficient (+ SGD) and ONE live EntropyControl (its own Adam) through
histories of 3-4 updates with the estimate below / at / above the target.
"""
from __future__ import annotations

import json
import math
import traceback
from dataclasses import dataclass, field
from fractions import Fraction

import numpy as np

from .. import exact, stubs, tlc

LEVEL = "model_checking"
MANIFEST = dict(
    category="model_checking",
    text="Actor.tla transcribes every actor objective of rl_blox (policy-gradient pseudo-loss with the REINFORCE / actor-critic / A2C weights, PPO clipped surrogate + value term + entropy bonus, deterministic policy gradient of DDPG / TD7 / MR.Q, SAC actor loss, SAC temperature loss) on exact rationals together with its per-sample derivative and the set of parameter groups an update can move; TLC proves on the model, for every batch of the lattice, that the weights are constants, that the PPO gradient at ratio 1 is the unclipped one and vanishes for samples clipped on the side their advantage favours, that the emitted derivatives are the derivatives of the objective (exact central differences), that every objective is a mean of per-sample terms, and that alpha rises exactly when the entropy estimate is below target; it refutes eight named deviations. Every TLC-generated vector (exhaustive small lattice + seeded random walks over the full lattice, batch sizes 1-4) is realised with table-lookup stub modules that have one parameter per sample and replayed into the REAL functions; objective values and jax gradients w.r.t. actor, critic / value function / baseline / Q / alpha parameters are compared with TLC's numbers exactly (ulp bounds only where exp/log, 0.01, tanh or a mean over 3 rows make float32 inexact), with critic outputs of shape (N,) and (N,1), and again through one SGD(lr=1) step of the real update functions (only the intended parameters move). ActorEpochs.tla specifies update_ppo with 1-4 epochs as a state machine (advantages, returns and reference log-probabilities fixed at entry; epoch k = one SGD step of actor and critic on Actor.tla's objective at theta_k with that reference); TLC proves on every schedule of the lattice that the reference stays the entry one, that the first epoch has the unclipped gradient, and that in epoch k a sample whose ratio pi_theta_k / pi_theta_0 is clipped on the side its advantage favours has policy-gradient coefficient 0 and does not move, and refutes the deviation 'reference re-read from the updated actor in every epoch'; the real update_ppo(epochs=j) is run for j = 1..K from identical entry parameters (per-sample table policy, SGD with dyadic learning rates) and log-probabilities, critic predictions, entropy parameters and the returned objective are compared with the model's state after EVERY epoch - exactly where the model's state is an exact rational (all samples clipped or at ratio 1), within a counted ulp budget where a step was taken at ratio exp(d). The temperature clause is decided at every value of the parameter: kind templa takes log_alpha = a + k ln 2 from a lattice that spans the float32 range in which alpha is a normal number (0, 2.5, 4, 10, 50, 80, -12, -21, -30, -60, -80, k ln 2 for k = 3 ... +-115); loss, gradient w.r.t. log_alpha and the step of an SGD optimiser are the linear forms c * exp(log_alpha) with the exact coefficient c printed by TLC; TLC proves that the gradient coefficient is non-zero with the sign of (estimate - target) whenever the two differ, that it does not depend on the parameter value, and that alpha is strictly increasing in log_alpha, and refutes the deviation alpha = exp(clip(log_alpha, -20, 2)); the real EntropyCoefficient / sac_exploration_loss / _update_entropy_coefficient are compared in counted ulps, alpha = 2^k and the strict order of the alphas over the lattice on float32 ordinals. ActorTemp.tla drives one live EntropyCoefficient (+ SGD) and one live EntropyControl (its own Adam) through histories of 3-4 updates with the estimate below / at / above target and compares the direction (and, for SGD, the size) of every update and alpha = exp(log_alpha) after it. The full lattice also carries extreme inputs for the other objectives (policy-gradient weights +-4096, log pi = -64, Q = +-4096 for DDPG / SAC, SAC alpha = 1024, a saturated tanh activation +-20 for MR.Q). Function-level properties over all inputs cannot be exhausted, so model checking of the documented arithmetic plus exact replay is the right level.",
    note="bounded dyadic lattices, batch size <= 4; network forward passes are inputs (stubs); the repository's heads (softmax, Gaussian, tanh-Gaussian, deterministic tanh, SALE actor) only for gradient support and sign; GAE inside update_ppo only with all rows terminated; update_ppo over epochs: per-sample table policy only (no shared actor parameters), plain SGD, default clip range 0.2, <= 4 epochs, batch size <= 4; update_critic_and_policy (MR.Q) not driven; trusted: harness/stubs.py, harness/stubs_actor.py realisation, Exact.tla, TLC",
    technique="TLA+ spec + TLC (exhaustive invariants on the model, deviation canaries, vector generation); replay of TLC-generated vectors into the real actor losses / policy-gradient functions / actor update steps with stub nnx modules, exact value and gradient comparison; ActorEpochs.tla: state machine of update_ppo over epochs, TLC-emitted schedules (region of every sample per epoch, step coefficients, critic states) replayed into the real update_ppo(epochs=1..K) and compared after every epoch; ActorTemp.tla: state machine of the temperature parameter over a history of updates, TLC-emitted histories replayed into one live EntropyCoefficient / EntropyControl",
)

INVS = [
    "TypeOK", "WeightsConstant", "GradSupport", "PGLinear", "PGAscent", "PPOUnclippedAtOne", "PPOClippedZero", "PPOPessimistic",
    "PPODerivative", "PerSample", "PermutationInvariant", "DPGAscent", "SlopeActive", "SACDerivative", "MRQDerivative", "TempDirection",
    "TempLaDirection", "AlphaMonotone",
]
ALL_KINDS = ["pg", "a2c", "reinforce", "ac", "ppo", "ppoupd", "dpg", "td7", "mrq", "sac", "temp", "templa"]
TEMP = ("temp", "templa")  # templa: the temperature loss as a function of its PARAMETER log_alpha = a + k ln 2, over the float32 range
PG = ("pg", "a2c", "reinforce", "ac")
FNAME = {
    "pg": "stochastic_policy_gradient_pseudo_loss", "a2c": "a2c_policy_gradient", "reinforce": "reinforce_gradient",
    "ac": "actor_critic_policy_gradient", "ppo": "ppo_loss", "ppoupd": "update_ppo", "dpg": "deterministic_policy_gradient_loss",
    "td7": "deterministic_policy_gradient_loss_sale", "mrq": "mrq_policy_loss", "sac": "sac_actor_loss", "temp": "sac_exploration_loss",
    "templa": "sac_exploration_loss",
}
UPD = {"dpg": "ddpg_update_actor", "td7": "td7_update_actor", "sac": "sac_update_actor", "ppoupd": "update_ppo", "temp": "_update_entropy_coefficient",
       "templa": "_update_entropy_coefficient"}
ALPHA_KEY = "EntropyCoefficient:alpha"  # the parametrisation alpha = exp(log_alpha)
LN2 = math.log(2.0)  # device D3: the float64 value of the named constant ln 2
# kinds whose objective reads a critic / value function: replayed with output shape (N,1) and (N,)
HAS_CRITIC = ("reinforce", "ac", "ppo", "ppoupd", "dpg", "td7", "mrq", "sac")
BROADCAST_KEY = "ppo_loss:value_term_broadcast"
FILL = np.array([-2.0, -1.0, -0.5, 0.5, 1.0, 2.0, 3.0], dtype=np.float32)
ZRAW = np.array([[1, 1], [2, 0], [3, -1], [0.5, -1.5], [-0.5, 0.5], [0, -4]], dtype=np.float32)  # mean |.| is a power of two
NAN = float("nan")
# ulp budgets (float32), relative to the largest magnitude TLC reports for the vector ("mag"):
#  mean over 3 rows: <= 2 roundings per mean, a handful of means                                   -> 4
#  exp(float32 log ratio) (<= 3 ulp per row, mean of <= 4 rows), 0.01 * entropy (2 roundings),
#  exp(float32 log alpha), Q realised through a non-dyadic tanh action (2 roundings per row)       -> 8
#  gradient through tanh' = 1 - tanh^2 (tanh <= ~4 ulp, squared, chain of 3 products)              -> 16
ULP_N3, ULP_INEXACT, ULP_TANH = 4, 8, 16


# ----------------------------------------------------------------- helpers
def fq(x) -> Fraction:
    return exact.q(x)


def fl(x) -> float:
    return float(exact.q(x))


def seq(x):
    if isinstance(x, dict):
        return [x[str(i)] for i in range(1, len(x) + 1)]
    return x


def fill(rng, shape):
    return rng.choice(FILL, size=shape).astype(np.float32)


def f32(x):
    a = np.asarray(x, dtype=np.float64)
    return a.astype(np.float32)


def spacing32(x) -> float:
    x = abs(float(x))
    return float(np.spacing(np.float32(x))) if x > 0 else float(np.finfo(np.float32).tiny)


def val_ok(got, x, ulps, mag) -> bool:
    """float `got` equals the rational x exactly, or within `ulps` float32 ulp of max(mag, |x|)."""
    x = fq(x)
    g = float(got)
    if math.isfinite(g) and Fraction(g) == x:
        return True
    if not ulps or not math.isfinite(g):
        return False
    return abs(g - float(x)) <= ulps * spacing32(max(float(mag), abs(float(x))))


def grad_bad(got, lo, hi, ulps, mag=None):
    """Cells of `got` outside [lo, hi] (nan = unchecked; lo = hi = 0 must be exactly 0 unless `mag` names the magnitude of
    partial terms that cancel in inexact arithmetic).  Returns list of index tuples."""
    got = np.asarray(got, dtype=np.float64)
    lo = np.asarray(lo, dtype=np.float64)
    hi = np.asarray(hi, dtype=np.float64)
    if got.shape != lo.shape:
        return [("shape", got.shape, lo.shape)]
    chk = ~np.isnan(lo)
    m = np.maximum(np.abs(np.where(chk, lo, 0)), np.abs(np.where(chk, hi, 0)))
    if mag is not None and ulps:
        m = np.maximum(m, np.broadcast_to(np.asarray(mag, dtype=np.float64), m.shape))
    m = m.astype(np.float32)
    tol = ulps * np.spacing(np.where(m > 0, m, np.float32(1e-30))).astype(np.float64)
    tol = np.where(m == 0, 0.0, tol)
    bad = chk & ~((got >= lo - tol) & (got <= hi + tol))
    bad |= chk & ~np.isfinite(got)
    return [tuple(int(v) for v in ix) for ix in np.argwhere(bad)]


def leafdict(state):
    import jax

    out = {}
    for path, leaf in jax.tree_util.tree_flatten_with_path(state)[0]:
        parts = [str(getattr(p, "key", getattr(p, "name", p))) for p in path]
        out[".".join(p for p in parts if p != "value")] = np.asarray(leaf)
    return out


def _lazy():
    import jax
    import jax.numpy as jnp
    from flax import nnx

    return jax, jnp, nnx


@dataclass
class Case:
    vec: dict
    kind: str
    n: int
    vshape: str  # "n1": critic output (N,1); "n": (N,)
    fill_seed: tuple
    leaves: list  # per module {leaf key: array}
    arrays: dict
    groups: list  # per module: spec group name
    static: tuple = ()
    exp_out: dict = field(default_factory=dict)  # output name -> rational
    exp_grad: dict = field(default_factory=dict)  # (module index, leaf key) -> (lo, hi)
    ulps: int = 0
    gulps: int = 0
    mag: float = 0.0
    aux: dict = field(default_factory=dict)


def rng_pair(r):
    """TLC interval <<lo, hi>> of rationals -> (float lo, float hi)."""
    return fl(r[0]), fl(r[1])


def la_value(la) -> np.float32:
    """Actor.tla's parameter value [a, k] = a + k ln 2 as the float32 that is fed: a must be a float32, ln 2 is the named constant."""
    a, k = fq(la["a"]), int(la["k"])
    if not exact.is_exact32(a):
        raise tlc.MachineryError(f"lattice value log_alpha = {a} is not a float32")
    return np.float32(float(a) + k * LN2)


def exp_atom(x) -> float:
    """D3: float64 value of the named constant Exp(x) at the float32 parameter x."""
    return math.exp(float(np.float32(x)))


def within_ulps32(got, want64, ulps) -> bool:
    """float32 `got` within `ulps` float32 spacings of the real number want64 (overflow: the float32 infinity)."""
    g = float(got)
    if want64 > float(np.finfo(np.float32).max):
        return g == float("inf") or abs(g - want64) <= ulps * spacing32(float(np.finfo(np.float32).max))
    return math.isfinite(g) and abs(g - want64) <= ulps * spacing32(want64)


# ----------------------------------------------------------------- realisation: TLC's network outputs -> stub parameters
def realise(vec, fill_seed, vshape="n1") -> Case:
    rng = np.random.default_rng(list(fill_seed))
    k, n, rows, par, e = vec["kind"], vec["n"], vec["rows"], vec["par"], vec["exp"]
    inexact = int(e["inexact"])
    ulps = ULP_INEXACT if inexact else (0 if n in (1, 2, 4) else ULP_N3)
    c = Case(vec=vec, kind=k, n=n, vshape=vshape, fill_seed=tuple(fill_seed), leaves=[], arrays={}, groups=[], ulps=ulps, gulps=ulps, mag=fl(e["mag"]))
    c.exp_out["loss"] = e["loss"]
    oh = stubs.onehot

    def per_row(name, S, width=None):
        lo = np.zeros((S,) if width is None else (S, width))
        hi = np.zeros_like(lo)
        for i, r in enumerate(seq(e[name])):
            a, b = rng_pair(r)
            if width is None:
                lo[i], hi[i] = a, b
            else:
                lo[i, 0], hi[i, 0] = a, b
        return lo, hi

    def exact_dot(gs, xs):
        """sum_i g_i * x_i for point coefficients (nan if some coefficient is an interval or arithmetic is inexact)."""
        if c.gulps:
            return NAN
        tot = Fraction(0)
        for g, x in zip(gs, xs):
            if fq(g[0]) != fq(g[1]):
                return NAN
            tot += fq(g[0]) * Fraction(float(x))
        return float(tot)

    def policy_tables(S, acts, cvec, lps):
        lp = fill(rng, (S,))
        for i in range(n):
            lp[i] = np.float32(lps[i] - float(acts[i, 0]) * float(cvec[0]))
        return {"lp": lp, "c": np.asarray(cvec, dtype=np.float32), "ent": fill(rng, (S,)), "actions": fill(rng, (S, 1)), "vtable": fill(rng, (S, 1))}

    def zero_like(d, keys):
        return {kk: (np.zeros_like(d[kk], dtype=np.float64), np.zeros_like(d[kk], dtype=np.float64)) for kk in keys}

    if k in PG:
        S = 2 * n + 1 if k == "ac" else n + 1
        act = fill(rng, (n, 1))
        cv = fill(rng, (1,))
        pol = policy_tables(S, act, cv, [fl(r["lp"]) for r in rows])
        c.arrays = dict(obs=oh(np.arange(n), S), act=act)
        if k in ("pg", "a2c"):
            c.arrays["w"] = f32([fl(r["w"]) for r in rows])
        elif k == "reinforce":
            for i, r in enumerate(rows):
                pol["vtable"][i, 0] = fl(r["b"])
            c.arrays.update(ret=f32([fl(r["ret"]) for r in rows]), gd=f32([fl(r["gd"]) for r in rows]))
            c.static = (bool(par["base"]), bool(par["disc"]))
        else:
            for i, r in enumerate(rows):
                pol["vtable"][i, 0] = fl(r["v"])
                pol["vtable"][n + i, 0] = fl(r["vn"])
            c.arrays.update(r=f32([fl(r["r"]) for r in rows]), gd=f32([fl(r["gd"]) for r in rows]), gamma=np.float32(fl(par["gamma"])), nobs=oh(np.arange(n, 2 * n), S))
        c.leaves = [pol]
        c.groups = ["actor"]
        g = seq(e["g"])
        c.exp_grad = {(0, kk): v for kk, v in zero_like(pol, ["ent", "actions", "vtable"]).items()}
        c.exp_grad[(0, "lp")] = per_row("g", S)
        gc = exact_dot(g, act[:, 0])
        c.exp_grad[(0, "c")] = (np.array([gc]), np.array([gc]))
        c.aux["shared"] = {"value_function": [(0, "vtable")]}
    elif k in ("ppo", "ppoupd"):
        S = n + 1
        ratio = [fq(x) for x in seq(e["ratio"])]
        allone = all(r == 1 for r in ratio)
        act = fill(rng, (n, 1))
        cv = fill(rng, (1,)) if allone else np.zeros((1,), dtype=np.float32)
        old = np.array([float(fill(rng, ())) if r == 1 else 0.0 for r in ratio], dtype=np.float32)
        # log pi = old + float32(log ratio): ratio 1 through EQUAL log-probabilities, other ratios through the float32 log
        lps = [float(old[i]) + (0.0 if ratio[i] == 1 else float(np.float32(math.log(float(ratio[i]))))) for i in range(n)]
        pol = policy_tables(S, act, cv, lps)
        V = fill(rng, (S, 1))
        for i, r in enumerate(rows):
            pol["ent"][i] = fl(r["ent"])
            V[i, 0] = fl(r["v"])
        c.leaves = [pol, {"kernel": V}]
        c.groups = ["actor", "critic"]
        c.arrays = dict(obs=oh(np.arange(n), S), act=act, old=old, adv=f32([fl(x) for x in seq(e["adv"])]), ret=f32([fl(x) for x in seq(e["ret"])]), eps=np.float32(fl(par["eps"])))
        if k == "ppoupd":
            c.arrays.update(reward=f32([fl(r["r"]) for r in rows]), term=np.ones(n, dtype=np.float32), nval=fill(rng, (n,)))
        c.exp_grad = {(0, kk): v for kk, v in zero_like(pol, ["actions", "vtable"]).items()}
        c.exp_grad[(0, "lp")] = per_row("g", S)
        ge = np.zeros(S)
        ge[:n] = fl(e["ge"])
        c.exp_grad[(0, "ent")] = (ge, ge.copy())
        gc = exact_dot(seq(e["g"]), act[:, 0]) if allone else NAN
        c.exp_grad[(0, "c")] = (np.array([gc]), np.array([gc]))
        gv = np.zeros((S, 1))
        gvb = np.zeros((S, 1))
        gv[:n, 0] = [fl(x) for x in seq(e["gv"])]
        gvb[:n, 0] = [fl(x) for x in seq(e["gv_bc"])]
        c.exp_grad[(1, "kernel")] = (gv, gv.copy())
        c.aux["gv_bc"] = gvb
        c.aux["ref_ulps"] = {(0, "ent"): max(c.gulps, 4)}  # the entropy coefficient 0.01 / N is never dyadic
    elif k == "dpg":
        S = n + 1
        P = fill(rng, (S, 1))
        s = fl(par["s1"])
        W = fill(rng, (S + 1, 1))
        W[S, 0] = s
        for i, r in enumerate(rows):
            W[i, 0] = fl(r["q"]) - s * float(P[i, 0])
        c.leaves = [{"kernel": P}, {"kernel": W}]
        c.groups = ["actor", "critic"]
        c.arrays = dict(obs=oh(np.arange(n), S))
        c.exp_grad[(0, "kernel")] = per_row("g", S, 1)
    elif k == "td7":
        S = n + 1
        E = ZRAW[rng.integers(0, len(ZRAW), size=S)].copy()
        G = fill(rng, (3, 2))
        zs = (E / np.mean(np.abs(E), axis=-1, keepdims=True)).astype(np.float64)
        P = fill(rng, (S, 1))
        Pz = fill(rng, (2, 1))
        a = P[:, 0].astype(np.float64) + zs @ Pz[:, 0].astype(np.float64)
        zsa = np.concatenate([zs, a[:, None]], axis=1) @ G.astype(np.float64)
        crit = {}
        for j in (1, 2):
            s = fl(par[f"s{j}"])
            K = fill(rng, (S + 1, 1))
            Ka = fill(rng, (2, 1))
            Kb = fill(rng, (2, 1))
            K[S, 0] = s - float(G[2].astype(np.float64) @ Ka[:, 0].astype(np.float64))
            for i, r in enumerate(rows):
                K[i, 0] = fl(r[f"q{j}"]) - (float(K[S, 0]) * a[i] + float(zsa[i] @ Ka[:, 0].astype(np.float64)) + float(zs[i] @ Kb[:, 0].astype(np.float64)))
            crit.update({f"q{j}.k": K, f"q{j}.ka": Ka, f"q{j}.kb": Kb})
        c.leaves = [{"_state_embedding.kernel": E, "state_action_embedding.kernel": G}, {"p": P, "pz": Pz}, crit]
        c.groups = ["embedding", "actor", "critic"]
        c.arrays = dict(obs=oh(np.arange(n), S))
        c.exp_grad[(1, "p")] = per_row("g", S, 1)
        g = seq(e["g"])
        gz = [exact_dot(g, zs[:n, d]) for d in range(2)]
        c.exp_grad[(1, "pz")] = (np.array(gz)[:, None], np.array(gz)[:, None])
        # the action gradient is a sum of partial terms (direct path, state-action embedding path, two critics) that cancel
        pm = sum(abs(float(crit[f"q{j}.k"][S, 0])) + float(np.sum(np.abs(G[2].astype(np.float64) * crit[f"q{j}.ka"][:, 0]))) for j in (1, 2)) * 0.5 / n
        rm = np.zeros((S, 1))
        rm[:n] = pm
        c.aux["ref_mag"] = {(1, "p"): rm}
    elif k == "mrq":
        jax, jnp, nnx = _lazy()
        D = n + 1  # latent state dimension: one-hot row identity
        scale = fl(par["scale"])
        bias = float(rng.choice(np.array([0.0, 1.0, -0.5], dtype=np.float32)))
        kz = float(rng.choice(np.array([0.5, 2.0], dtype=np.float32)))
        P = fill(rng, (D, 1))
        for i, r in enumerate(rows):
            P[i, 0] = fl(r["act"])
        areal = np.asarray(jnp.tanh(jnp.asarray(P[:, 0])) * jnp.float32(scale) + jnp.float32(bias)).astype(np.float64)  # the head's own scaling
        crit = {}
        for j in (1, 2):
            v = fl(par[f"s{j}"]) / kz
            W = fill(rng, (D + 1, 1))
            W[D, 0] = v
            for i, r in enumerate(rows):
                W[i, 0] = np.float32(fl(r[f"q{j}"]) - v * (kz * areal[i]))
            crit[f"q{j}.kernel"] = W
        enc = {"zs.kernel": np.zeros((1, D), dtype=np.float32), "za.kernel": np.array([[kz]], dtype=np.float32),
               "zsa.kernel": np.eye(D + 1, dtype=np.float32), "model.kernel": np.zeros((D + 1, D + 2), dtype=np.float32)}
        c.leaves = [{"policy_net.kernel": P, "action_scale": np.array([scale], dtype=np.float32), "action_bias": np.array([bias], dtype=np.float32)}, crit, enc]
        c.groups = ["actor", "critic", "encoder"]
        c.arrays = dict(zs=oh(np.arange(n), D), aw=np.float32(fl(par["aw"])))
        c.aux["box"] = (bias - scale, bias + scale)
        c.exp_out.update(dpg=e["dpg"], reg=e["reg"])
        lo = np.zeros((D, 1))
        hi = np.zeros((D, 1))
        for i, r in enumerate(rows):
            t = 1.0 - math.tanh(fl(r["act"])) ** 2  # tanh'(activation): the named constant of the linear form g1 * tanh' + g0
            a, b = rng_pair(seq(e["g"])[i])
            g0 = fl(seq(e["g0"])[i])
            lo[i, 0], hi[i, 0] = a * t + g0, b * t + g0
        c.exp_grad[(0, "policy_net.kernel")] = (lo, hi)
        c.aux["gmag"] = np.array([max(abs(rng_pair(seq(e["g"])[i])[0]), abs(rng_pair(seq(e["g"])[i])[1]), abs(fl(seq(e["g0"])[i]))) for i in range(n)] + [0.0])[:, None]
        if inexact:
            c.gulps = ULP_TANH
        c.mag = c.mag + max(abs(fl(par["s1"])), abs(fl(par["s2"]))) * (scale + abs(bias))
    elif k == "sac":
        S = n + 1
        cv = np.array([fl(par["c"])], dtype=np.float32)
        pol = policy_tables(S, np.zeros((n, 1)), cv, [0.0] * n)
        A = pol["actions"]
        for i, r in enumerate(rows):
            pol["lp"][i] = np.float32(fl(r["lp"]) - float(A[i, 0]) * float(cv[0]))
        crit = {}
        for j in (1, 2):
            s = fl(par[f"s{j}"])
            W = fill(rng, (S + 1, 1))
            W[S, 0] = s
            for i, r in enumerate(rows):
                W[i, 0] = fl(r[f"q{j}"]) - s * float(A[i, 0])
            crit[f"q{j}.kernel"] = W
        c.leaves = [pol, crit]
        c.groups = ["actor", "critic"]
        c.arrays = dict(obs=oh(np.arange(n), S), alpha=np.float32(fl(par["alpha"])))
        c.exp_grad = {(0, kk): v for kk, v in zero_like(pol, ["ent", "vtable"]).items()}
        c.exp_grad[(0, "lp")] = per_row("g", S)
        c.exp_grad[(0, "actions")] = per_row("ga", S, 1)
        gc = exact_dot(seq(e["g"]), A[:n, 0])
        c.exp_grad[(0, "c")] = (np.array([gc]), np.array([gc]))
        rm = np.zeros((S, 1))
        rm[:n] = (abs(fl(par["alpha"]) * fl(par["c"])) + max(abs(fl(par["s1"])), abs(fl(par["s2"])))) / n  # two paths that may cancel
        c.aux["ref_mag"] = {(0, "actions"): rm}
    elif k == "temp":
        S = n + 1
        act = fill(rng, (S, 1))
        cv = fill(rng, (1,))
        pol = policy_tables(S, act[:n] * 0, cv, [0.0] * n)
        pol["actions"] = act
        for i, r in enumerate(rows):
            pol["lp"][i] = np.float32(fl(r["lp"]) - float(act[i, 0]) * float(cv[0]))
        alpha = fq(par["alpha"])
        la = 0.0 if alpha == 1 else float(np.float32(math.log(float(alpha))))
        c.leaves = [pol, {"log_alpha": np.array([la], dtype=np.float32)}]
        c.groups = ["actor", "alpha"]
        c.arrays = dict(obs=oh(np.arange(n), S), tgt=np.float32(fl(par["tgt"])))
        ga = fl(e["galpha"])
        c.exp_grad[(1, "log_alpha")] = (np.array([ga]), np.array([ga]))
        c.aux["ref_mag"] = {(1, "log_alpha"): np.array([c.mag])}  # a mean of signed terms
    elif k == "templa":
        S = n + 1
        act = fill(rng, (S, 1))
        cv = fill(rng, (1,))
        pol = policy_tables(S, act[:n] * 0, cv, [0.0] * n)
        pol["actions"] = act
        for i, r in enumerate(rows):
            pol["lp"][i] = np.float32(fl(r["lp"]) - float(act[i, 0]) * float(cv[0]))
        la = la_value(par["la"])  # the float32 parameter log_alpha = a + k ln 2
        ax = exp_atom(la)  # D3: the named constant Exp(log_alpha) at the parameter actually fed, float64
        c.leaves = [pol, {"log_alpha": np.array([la], dtype=np.float32)}]
        c.groups = ["actor", "alpha"]
        c.arrays = dict(obs=oh(np.arange(n), S), tgt=np.float32(fl(par["tgt"])))
        # loss and gradient are the linear forms  coefficient * Exp(log_alpha)  with TLC's exact coefficients
        c.exp_out["loss"] = fq(e["loss"]) * Fraction(ax)
        c.mag = fl(e["mag"]) * ax
        c.ulps = c.gulps = ULP_INEXACT
        ga = float(fq(e["galpha"]) * Fraction(ax))
        c.exp_grad[(1, "log_alpha")] = (np.array([ga]), np.array([ga]))
        c.aux["ref_mag"] = {(1, "log_alpha"): np.array([c.mag])}  # a mean of signed terms
        c.aux.update(la=float(la), atom=ax, lr=math.ldexp(1.0, int(e["lrexp"])), expulp=int(e["expulp"]))
    else:  # pragma: no cover
        raise tlc.MachineryError(f"unknown kind {k}")
    known = set(c.groups) | set(c.aux.get("shared", {}))
    missing = [g for g in list(vec["zero"]) + list(vec["untouched"]) + list(vec["moved"]) if g not in known]
    if missing:
        raise tlc.MachineryError(f"binding does not map the spec's parameter groups {missing} of {k}")
    for gname in vec["zero"]:  # groups the spec excludes from the objective's dependencies must be expected to be exactly zero
        for ref in c.aux.get("shared", {}).get(gname, []):
            lo, hi = c.exp_grad[ref]
            if np.any(lo != 0) or np.any(hi != 0):
                raise tlc.MachineryError(f"binding: group {gname} of {k} is not expected to be zero")
    return c


# ----------------------------------------------------------------- the real code
def build_modules(c: Case):
    from .. import stubs_actor as SA

    lv = c.leaves
    flat = c.vshape == "n"
    LT = SA.FlatTable if flat else stubs.LinearTable
    k = c.kind

    def pol(d):
        return SA.TablePolicy(d["lp"], d["c"], d["ent"], d["actions"], d["vtable"])

    if k in PG:
        return [pol(lv[0])]
    if k in ("ppo", "ppoupd"):
        return [pol(lv[0]), LT(lv[1]["kernel"])]
    if k == "dpg":
        return [stubs.LinearTable(lv[0]["kernel"]), LT(lv[1]["kernel"])]
    if k == "td7":
        SC = SA.FlatSaleCritic if flat else stubs.SaleCritic
        d = lv[2]
        return [
            stubs.make_sale(lv[0]["_state_embedding.kernel"], lv[0]["state_action_embedding.kernel"]),
            SA.SaleActor(lv[1]["p"], lv[1]["pz"]),
            stubs.make_double_q(SC(d["q1.k"], d["q1.ka"], d["q1.kb"]), SC(d["q2.k"], d["q2.ka"], d["q2.kb"])),
        ]
    if k == "mrq":
        import gymnasium as gym
        from rl_blox.blox.function_approximator.policy_head import DeterministicTanhPolicy

        lo, hi = c.aux["box"]
        box = gym.spaces.Box(low=np.array([lo], dtype=np.float32), high=np.array([hi], dtype=np.float32))
        e = lv[2]
        return [
            DeterministicTanhPolicy(stubs.LinearTable(lv[0]["policy_net.kernel"]), box),
            stubs.make_double_q(LT(lv[1]["q1.kernel"]), LT(lv[1]["q2.kernel"])),
            stubs.make_model_based_encoder(e["zs.kernel"], e["za.kernel"], e["zsa.kernel"], e["model.kernel"], c.n + 1),
        ]
    if k == "sac":
        return [pol(lv[0]), stubs.make_double_q(LT(lv[1]["q1.kernel"]), LT(lv[1]["q2.kernel"]))]
    if k in TEMP:
        import jax.numpy as jnp
        from rl_blox.algorithm.sac import EntropyCoefficient

        return [pol(lv[0]), EntropyCoefficient(jnp.asarray(lv[1]["log_alpha"]))]
    raise AssertionError(k)


def make_call(kind, static, flat):
    """fn(mods, arrays) -> (loss, {name: output}, own) calling the REAL rl_blox function; own = gradients the function
    itself returns (list per module, None entries allowed) or None when the driver differentiates the returned loss."""
    jax, jnp, nnx = _lazy()
    from .. import stubs_actor as SA

    if kind == "pg":
        from rl_blox.blox.losses import stochastic_policy_gradient_pseudo_loss

        return (lambda m, a: (stochastic_policy_gradient_pseudo_loss(a["obs"], a["act"], a["w"], m[0]), {}, None)), False
    if kind == "a2c":
        from rl_blox.algorithm.a2c import a2c_policy_gradient

        def fn(m, a):
            loss, g = a2c_policy_gradient(m[0], a["obs"], a["act"], a["w"])
            return loss, {}, [g]

        return fn, True
    if kind == "reinforce":
        from rl_blox.algorithm.reinforce import reinforce_gradient

        base, disc = static

        def fn(m, a):
            vf = SA.ValueView(m[0], flat) if base else None
            loss, g = reinforce_gradient(m[0], vf, a["obs"], a["act"], a["ret"], a["gd"] if disc else None)
            return loss, {}, [g]

        return fn, True
    if kind == "ac":
        from rl_blox.algorithm.actor_critic import actor_critic_policy_gradient

        def fn(m, a):
            loss, g = actor_critic_policy_gradient(m[0], SA.ValueView(m[0], flat), a["obs"], a["act"], a["nobs"], a["r"], a["gd"], a["gamma"])
            return loss, {}, [g]

        return fn, True
    if kind == "ppo":
        from rl_blox.algorithm.ppo import ppo_loss

        return (lambda m, a: (ppo_loss(m[0], m[1], a["old"], a["obs"], a["act"], a["adv"], a["ret"], a["eps"]), {}, None)), False
    if kind == "dpg":
        from rl_blox.blox.losses import deterministic_policy_gradient_loss

        return (lambda m, a: (deterministic_policy_gradient_loss(m[1], a["obs"], m[0]), {}, None)), False
    if kind == "td7":
        from rl_blox.algorithm.td7 import deterministic_policy_gradient_loss_sale

        return (lambda m, a: (deterministic_policy_gradient_loss_sale(m[0], m[2], a["obs"], m[1]), {}, None)), False
    if kind == "mrq":
        from rl_blox.algorithm.mrq import mrq_policy_loss

        def fn(m, a):
            loss, (dpg, reg) = mrq_policy_loss(m[0], m[1], m[2], a["zs"], a["aw"])
            return loss, {"dpg": dpg, "reg": reg}, None

        return fn, False
    if kind == "sac":
        from rl_blox.algorithm.sac import sac_actor_loss

        return (lambda m, a: (sac_actor_loss(m[0], m[1], a["alpha"], jax.random.key(0), a["obs"]), {}, None)), False
    if kind == "temp":
        from rl_blox.algorithm.sac import sac_exploration_loss

        return (lambda m, a: (sac_exploration_loss(m[0], a["tgt"], jax.random.key(0), a["obs"], m[1]), {}, None)), False
    if kind == "templa":  # also the parametrisation itself: alpha = EntropyCoefficient.__call__()
        from rl_blox.algorithm.sac import sac_exploration_loss

        return (lambda m, a: (sac_exploration_loss(m[0], a["tgt"], jax.random.key(0), a["obs"], m[1]), {"alpha": m[1]()}, None)), False
    raise AssertionError(kind)


def group_key(c: Case):
    shp = tuple((nm, np.shape(v)) for nm, v in sorted(c.arrays.items()))
    return (c.kind, c.n, c.vshape, c.static, shp)


def run_group(cases):
    """Evaluate the real objective (and its gradient w.r.t. every parameter leaf of every module) for all cases of one
    group (same kind / shapes / static arguments) in one vmapped, jitted call.  Returns [(outputs, gradients)] per case,
    or raises the exception of the code under test."""
    jax, jnp, nnx = _lazy()
    c0 = cases[0]
    mods = build_modules(c0)
    split = [nnx.split(m) for m in mods]
    gds = [s[0] for s in split]
    flat = [jax.tree_util.tree_flatten_with_path(s[1]) for s in split]
    keys = [list(leafdict(s[1])) for s in split]
    tdefs = [f[1] for f in flat]
    for mi, ks in enumerate(keys):
        if sorted(ks) != sorted(c0.leaves[mi]):
            raise tlc.MachineryError(f"stub module {mi} of {c0.kind} has leaves {ks}, realisation provides {sorted(c0.leaves[mi])}")
    fn, own = make_call(c0.kind, c0.static, c0.vshape == "n")

    def pure(leaves, arrays):
        ms = [nnx.merge(gd, jax.tree_util.tree_unflatten(td, lv)) for gd, td, lv in zip(gds, tdefs, leaves)]
        loss, outs, og = fn(ms, arrays)
        return loss, (outs, og)

    if own:
        def full(leaves, arrays):
            loss, (outs, og) = pure(leaves, arrays)
            return loss, outs, og
    else:
        def full(leaves, arrays):
            (loss, (outs, _)), grads = jax.value_and_grad(pure, argnums=0, has_aux=True)(leaves, arrays)
            return loss, outs, [jax.tree_util.tree_unflatten(td, g) for td, g in zip(tdefs, grads)]

    leaves = [[jnp.asarray(np.stack([np.asarray(c.leaves[mi][k], dtype=np.float32) for c in cases])) for k in ks] for mi, ks in enumerate(keys)]
    arrays = {nm: jnp.asarray(np.stack([c.arrays[nm] for c in cases])) for nm in c0.arrays}
    loss, outs, grads = jax.jit(jax.vmap(full))(leaves, arrays)
    loss = np.asarray(loss)
    outs = {k: np.asarray(v) for k, v in outs.items()}
    gl = [leafdict(gm) if gm is not None else None for gm in grads]
    res = []
    for ci in range(len(cases)):
        o = {"loss": loss[ci]} | {k: v[ci] for k, v in outs.items()}
        g = {}
        for mi, gm in enumerate(gl):
            if gm is not None:
                for k, v in gm.items():
                    g[(mi, k)] = v[ci]
        res.append((o, g))
    return res


def run_fn(c: Case):
    return run_group([c])[0]


_TX = {}


def run_update(c: Case):
    """One SGD(lr=1) step of the real update function; returns (outputs, {(module, leaf): old - new})."""
    jax, jnp, nnx = _lazy()
    import optax

    mods = build_modules(c)
    k = c.kind
    a = {kk: jnp.asarray(v) for kk, v in c.arrays.items()}
    if "sgd1" not in _TX:  # ONE transformation object: it is a static attribute of the optimizer (nnx.jit cache key)
        _TX["sgd1"] = optax.sgd(1.0)
    sgd = lambda m: nnx.Optimizer(m, _TX["sgd1"], wrt=nnx.Param)  # noqa: E731
    outs = {}
    if k == "dpg":
        from rl_blox.algorithm.ddpg import ddpg_update_actor

        outs["loss"] = ddpg_update_actor(mods[0], sgd(mods[0]), mods[1], a["obs"])
    elif k == "td7":
        from rl_blox.algorithm.td7 import td7_update_actor
        from rl_blox.blox.embedding.sale import DeterministicSALEPolicy

        policy = DeterministicSALEPolicy(mods[0], mods[1])
        outs["loss"] = td7_update_actor(policy, sgd(mods[1]), mods[2], a["obs"])
    elif k == "sac":
        from rl_blox.algorithm.sac import sac_update_actor

        outs["loss"] = sac_update_actor(mods[0], sgd(mods[0]), mods[1], jax.random.key(0), a["obs"], a["alpha"])
    elif k == "ppoupd":
        from rl_blox.algorithm.ppo import update_ppo

        outs["loss"] = update_ppo(mods[0], mods[1], sgd(mods[0]), sgd(mods[1]), a["obs"], a["act"], a["reward"], a["term"], a["nval"], epochs=1)
    elif k == "temp":
        from rl_blox.algorithm.sac import _update_entropy_coefficient

        loss, alpha = _update_entropy_coefficient(sgd(mods[1]), mods[0], a["tgt"], jax.random.key(0), a["obs"], mods[1])
        outs["loss"] = loss
        outs["alpha"] = alpha
    elif k == "templa":  # plain SGD with TLC's step size 2^lrexp: the step of log_alpha is visible at every parameter value
        from rl_blox.algorithm.sac import _update_entropy_coefficient

        loss, alpha = _update_entropy_coefficient(_sgd(mods[1], c.aux["lr"]), mods[0], a["tgt"], jax.random.key(0), a["obs"], mods[1])
        outs["loss"] = loss
        outs["alpha"] = alpha
    else:
        raise AssertionError(k)
    outs = {kk: np.asarray(v) for kk, v in outs.items()}
    moved = {}
    for mi, m in enumerate(mods):
        new = leafdict(nnx.state(m))
        for kk, old in c.leaves[mi].items():
            moved[(mi, kk)] = (np.asarray(old, dtype=np.float32), new[kk])
    return outs, moved


# ----------------------------------------------------------------- comparison with TLC's numbers
def _ctx(c: Case):
    return f"(batch size {c.n}, critic output shape {'(N,)' if c.vshape == 'n' else '(N,1)'}) par={ {kk: (str(fq(v)) if isinstance(v, list) else v) for kk, v in c.vec['par'].items()} } rows={json.dumps(c.vec['rows'])[:500]}"


def rinfo(c: Case, level):
    return {"vec": c.vec, "fill_seed": list(c.fill_seed), "vshape": c.vshape, "level": level}


def _spec(c: Case, x):
    if c.kind == "templa":  # a linear form: TLC's coefficient times the named constant Exp(log_alpha)
        return f"{fq(c.vec['exp']['loss'])} x exp(log_alpha = {c.aux['la']!r}) = {fl(x)!r}"
    return f"{fq(x)} = {fl(x)!r}"


def group_name(c: Case, ref):
    for g, refs in c.aux.get("shared", {}).items():
        if ref in refs:
            return g
    return c.groups[ref[0]]


def check_fn(c: Case, out, grads, rep, stats):
    """Function level: value of the objective and gradient w.r.t. every parameter the expectation covers."""
    fname = FNAME[c.kind]
    e = c.vec["exp"]
    ok = True
    bc_loss = False
    for name, x in c.exp_out.items():
        if name not in out:
            raise tlc.MachineryError(f"{fname}: output {name} not produced by the binding")
        if np.shape(out[name]) != ():
            ok = False
            rep.violation(f"{fname}:{name}:shape", f"{fname}: {name} has shape {np.shape(out[name])}, a scalar is documented {_ctx(c)}", rinfo(c, "fn"))
            continue
        if not val_ok(out[name], x, c.ulps, c.mag):
            ok = False
            key = f"{fname}:{name}"
            text = f"{fname}: {name} = {float(out[name])!r}, specification {_spec(c, x)}"
            if c.kind == "ppo" and name == "loss" and fq(e["val_bc"]) != fq(e["val"]) and val_ok(out[name], e["loss_bc"], max(c.ulps, 2), c.mag):
                key = BROADCAST_KEY
                bc_loss = True
                text += (f"; it equals the objective with the value term mean_ij (ret_j - v_i)^2 = {fq(e['val_bc'])} instead of the per-sample mean_i (ret_i - v_i)^2 = {fq(e['val'])}: "
                         "returns of shape (N,) are broadcast against critic outputs of shape (N,1)")
            rep.violation(key, f"{text} {_ctx(c)}", rinfo(c, "fn"))
    for ref, (lo, hi) in c.exp_grad.items():
        if ref not in grads:
            raise tlc.MachineryError(f"{fname}: no gradient for {ref}; have {sorted(grads)}")
        got = grads[ref]
        lo2, hi2 = np.asarray(lo, dtype=np.float64), np.asarray(hi, dtype=np.float64)
        if got.shape != lo2.shape and got.size == lo2.size:  # flat critic tables keep the (S,1) kernel
            lo2, hi2 = lo2.reshape(got.shape), hi2.reshape(got.shape)
        gu = c.aux.get("ref_ulps", {}).get(ref, c.gulps)
        rmag = c.aux.get("ref_mag", {}).get(ref)
        if rmag is not None:
            rmag = np.asarray(rmag).reshape(got.shape)
        bad = grad_bad(got, lo2, hi2, gu, rmag) if "gmag" not in c.aux or ref != (0, "policy_net.kernel") else _mrq_bad(got, lo2, hi2, c)
        if bad:
            ok = False
            g = group_name(c, ref)
            key = f"{fname}:grad:{g}"
            ix = bad[0]
            text = (f"{fname}: d objective / d {g}.{ref[1]}{list(ix)} = {float(got[ix])!r}, specification [{float(lo2[ix])!r}, {float(hi2[ix])!r}]" if ix and ix[0] != "shape"
                    else f"{fname}: gradient of {ref} has shape {got.shape}, expected {lo2.shape}")
            if c.kind == "ppo" and ref == (1, "kernel") and seq(e["gv_bc"]) != seq(e["gv"]) and not grad_bad(got, c.aux["gv_bc"].reshape(got.shape), c.aux["gv_bc"].reshape(got.shape), max(gu, 2)):
                key = BROADCAST_KEY
                text += "; it is the gradient of the broadcast value term mean_ij (ret_j - v_i)^2: every prediction is pulled towards the MEAN return"
            rep.violation(key, f"{text} {_ctx(c)}", rinfo(c, "fn"))
    stats["bc"] += int(bc_loss)
    if c.kind == "templa":
        ok = check_alpha(c, out, rep, stats) and ok
    return ok


def check_alpha(c: Case, out, rep, stats):
    """The parametrisation itself at the parameter value of the vector: alpha = Exp(log_alpha) (TLC's ulp count for the float32
    exponential), alpha = 2^k on float32 ordinals where log_alpha = k ln 2; records (TLC's position of alpha in the ordered
    lattice, float32 ordinal of alpha) for the order predicate 'alpha is strictly increasing in log_alpha'."""
    e = c.vec["exp"]
    if "alpha" not in out or np.size(out["alpha"]) != 1:
        rep.violation(f"{ALPHA_KEY}:shape", f"EntropyCoefficient() returned shape {np.shape(out.get('alpha'))} for a parameter of shape (1,) {_ctx(c)}", rinfo(c, "fn"))
        return False
    a32 = np.asarray(out["alpha"], dtype=np.float32).reshape(-1)[0]
    la, ax = c.aux["la"], c.aux["atom"]
    ok = True
    if not within_ulps32(a32, ax, c.aux["expulp"]):
        ok = False
        rep.violation(ALPHA_KEY, f"EntropyCoefficient with log_alpha = {la!r} (= {fq(c.vec['par']['la']['a'])} + {c.vec['par']['la']['k']} ln 2) returns alpha = {float(a32)!r}; "
                      f"specification alpha = exp(log_alpha) = {ax!r} (within {c.aux['expulp']} float32 steps) {_ctx(c)}", rinfo(c, "fn"))
    ao = list(e["aord"])
    if ao and math.isfinite(float(a32)):
        stats["alpha_pow2"] = stats.get("alpha_pow2", 0) + 1
        o = exact.ord32(a32)
        if not (int(ao[0]) <= o <= int(ao[1])) and ok:
            ok = False
            rep.violation(ALPHA_KEY, f"EntropyCoefficient with log_alpha = float32({c.vec['par']['la']['k']} ln 2) = {la!r} returns alpha = {float(a32)!r} (float32 ordinal {o}); "
                          f"specification alpha = 2^{c.vec['par']['la']['k']}: ordinal in [{ao[0]}, {ao[1]}] {_ctx(c)}", rinfo(c, "fn"))
    if math.isfinite(float(a32)):
        rec = stats.setdefault("alpha_ranks", {}).setdefault(int(e["arank"]), {"rank": int(e["rank"]), "lo": None, "hi": None, "la": la, "vec": c.vec, "fill_seed": list(c.fill_seed)})
        o = exact.ord32(a32)
        rec["lo"] = o if rec["lo"] is None else min(rec["lo"], o)
        rec["hi"] = o if rec["hi"] is None else max(rec["hi"], o)
    return ok


def check_alpha_order(rep, stats):
    """Order predicate on float32 ordinals: TLC's positions of alpha (arank; equal to the position of log_alpha by AlphaMonotone)
    are strictly increasing => the float32 ordinals of the alphas the code returns are strictly increasing."""
    recs = stats.get("alpha_ranks", {})
    order = sorted(recs)
    bad = 0
    for r1, r2 in zip(order[:-1], order[1:]):
        a, b = recs[r1], recs[r2]
        if recs[r1]["rank"] >= recs[r2]["rank"]:
            raise tlc.MachineryError("Actor.tla: positions of alpha and of log_alpha disagree (AlphaMonotone)")
        if not a["hi"] < b["lo"]:
            bad += 1
            if bad <= 2:
                rep.violation(f"{ALPHA_KEY}:monotone", f"alpha is not strictly increasing in log_alpha: log_alpha = {a['la']!r} gives alpha with float32 ordinal {a['hi']} "
                              f"(= {float(ord_to_float(a['hi']))!r}), the larger log_alpha = {b['la']!r} gives ordinal {b['lo']} (= {float(ord_to_float(b['lo']))!r})",
                              {"vec": b["vec"], "vec_lo": a["vec"], "fill_seed": b["fill_seed"], "vshape": "n1", "level": "order"})
    return len(order)


def ord_to_float(o):
    """D4, the inverse of exact.ord32."""
    o = int(o)
    v = np.array([abs(o)], dtype=np.int32).view(np.float32)[0]
    return np.float32(-v) if o < 0 else v


def _mrq_bad(got, lo, hi, c: Case):
    """MR.Q activation gradient = g1 * tanh'(act) + g0: tolerance relative to the larger of the two terms (they may cancel)."""
    got = np.asarray(got, dtype=np.float64)
    if got.shape != lo.shape:
        return [("shape", got.shape, lo.shape)]
    m = c.aux["gmag"].astype(np.float32)
    tol = c.gulps * np.spacing(np.where(m > 0, m, np.float32(1e-30))).astype(np.float64)
    tol = np.where((lo == 0) & (hi == 0) & (m == 0), 0.0, tol)
    bad = ~((got >= lo - tol) & (got <= hi + tol))
    return [tuple(int(v) for v in ix) for ix in np.argwhere(bad)]


def check_update(c: Case, outs, moved, rep, stats):
    """Update level: after one SGD(lr=1) step the intended parameters moved by TLC's gradient, every other module is bit-identical."""
    uname = UPD[c.kind]
    vec = c.vec
    e = vec["exp"]
    ok = True
    lr = float(c.aux.get("lr", 1.0))  # step size of the SGD optimiser (a power of two; 1 except for templa)
    if not val_ok(outs["loss"], c.exp_out["loss"], c.ulps, c.mag):
        ok = False
        key = f"{uname}:loss"
        text = f"{uname}: returned objective {float(outs['loss'])!r}, specification {_spec(c, c.exp_out['loss'])}"
        if c.kind == "ppoupd" and fq(e["val_bc"]) != fq(e["val"]) and val_ok(outs["loss"], e["loss_bc"], max(c.ulps, 2), c.mag):
            key = BROADCAST_KEY
            text += f"; it equals the objective with the broadcast value term mean_ij (ret_j - v_i)^2 = {fq(e['val_bc'])} (per-sample: {fq(e['val'])})"
        rep.violation(key, f"{text} {_ctx(c)}", rinfo(c, "upd"))
    for mi, gname in enumerate(c.groups):
        for kk in c.leaves[mi]:
            old, new = moved[(mi, kk)]
            if gname in vec["untouched"]:
                if old.tobytes() != np.asarray(new, dtype=np.float32).tobytes():
                    ok = False
                    rep.violation(f"{uname}:moves:{gname}", f"{uname} changed parameters '{kk}' of the {gname}, which the update must not touch {_ctx(c)}", rinfo(c, "upd"))
                continue
            if (mi, kk) not in c.exp_grad:
                continue
            lo, hi = c.exp_grad[(mi, kk)]
            lo = np.asarray(lo, dtype=np.float64).reshape(old.shape) * lr
            hi = np.asarray(hi, dtype=np.float64).reshape(old.shape) * lr
            d = old.astype(np.float64) - np.asarray(new, dtype=np.float64)  # = lr * gradient used by the step
            chk = ~np.isnan(lo)
            # new = fl(old - g): one rounding at the magnitude of the parameter, plus the gradient's own budget
            m = np.maximum(np.abs(np.where(chk, lo, 0)), np.abs(np.where(chk, hi, 0)))
            gm = c.aux["gmag"] if "gmag" in c.aux and (mi, kk) == (0, "policy_net.kernel") else m
            if (mi, kk) in c.aux.get("ref_mag", {}) and c.gulps:
                gm = np.maximum(gm, np.asarray(c.aux["ref_mag"][(mi, kk)], dtype=np.float64).reshape(old.shape) * lr)
            gu = c.aux.get("ref_ulps", {}).get((mi, kk), c.gulps)
            tol = gu * np.spacing(np.where(gm > 0, gm, 1e-30).astype(np.float32)).astype(np.float64)
            inex = (gu > 0) & (gm > 0)
            tol = np.where(inex, tol + np.spacing((np.abs(old) + m).astype(np.float32)).astype(np.float64), 0.0)
            bad = chk & ~((d >= lo - tol) & (d <= hi + tol))
            if bad.any():
                ok = False
                ix = tuple(int(v) for v in np.argwhere(bad)[0])
                key = f"{uname}:step:{gname}"
                text = f"{uname}: SGD(lr={lr!r}) moved {gname}.{kk}{list(ix)} by {-float(d[ix])!r}, specification: minus lr x the gradient, in [{float(lo[ix])!r}, {float(hi[ix])!r}]"
                if c.kind == "ppoupd" and (mi, kk) == (1, "kernel"):
                    gb = c.aux["gv_bc"].reshape(old.shape)
                    tb = max(c.gulps, 2) * np.spacing(np.maximum(np.abs(gb), 1e-30).astype(np.float32)).astype(np.float64) + 2 * np.spacing((np.abs(old) + np.abs(gb)).astype(np.float32)).astype(np.float64)
                    if seq(e["gv_bc"]) != seq(e["gv"]) and not (chk & ~((d >= gb - tb) & (d <= gb + tb))).any():
                        key = BROADCAST_KEY
                        text += "; the step follows the gradient of the broadcast value term (every prediction pulled towards the MEAN return)"
                rep.violation(key, f"{text} {_ctx(c)}", rinfo(c, "upd"))
    if c.kind == "templa":  # direction and the value law at the moved parameter, at every parameter value of the lattice
        la_old, la_new = moved[(1, "log_alpha")]
        lo_, ln_ = float(la_old[0]), float(np.asarray(la_new).reshape(-1)[0])
        dirn = "up" if ln_ > lo_ else ("down" if ln_ < lo_ else "stay")
        a_new = float(np.asarray(outs["alpha"]).reshape(-1)[0])
        a_old = c.aux["atom"]
        dira = "up" if a_new > a_old and not within_ulps32(a_new, a_old, c.aux["expulp"]) else ("down" if a_new < a_old and not within_ulps32(a_new, a_old, c.aux["expulp"]) else "stay")
        undecided = fq(e["galpha"]) == 0 and c.n not in (1, 2, 4)  # mean over 3 rows: the terms cancel up to rounding only
        if not undecided and (dirn != e["dir"] or dira != e["dir"]):
            ok = False
            rep.violation(f"{uname}:direction", f"{uname}: log_alpha = {lo_!r} (alpha = {a_old!r}), entropy estimate {fq(e['est'])}, target {fq(vec['par']['tgt'])}: alpha must go {e['dir']}; "
                          f"one SGD(lr=2^{e['lrexp']}) step moved log_alpha {dirn} ({lo_!r} -> {ln_!r}) and returned alpha {a_new!r} ({dira}) {_ctx(c)}", rinfo(c, "upd"))
        if math.isfinite(ln_) and abs(ln_) < 87.0 and not within_ulps32(a_new, exp_atom(ln_), c.aux["expulp"]):
            ok = False
            rep.violation(ALPHA_KEY, f"{uname} returned alpha = {a_new!r} with the updated parameter log_alpha = {ln_!r}; specification alpha = exp(log_alpha) = {exp_atom(ln_)!r} {_ctx(c)}", rinfo(c, "upd"))
    if c.kind == "temp":
        alpha0 = float(np.exp(np.float64(c.leaves[1]["log_alpha"][0])))
        la_old, la_new = moved[(1, "log_alpha")]
        dirn = "up" if float(la_new[0]) > float(la_old[0]) else ("down" if float(la_new[0]) < float(la_old[0]) else "stay")
        a_new = float(np.asarray(outs["alpha"]).reshape(-1)[0])
        dira = "up" if a_new > alpha0 * (1 + 1e-6) else ("down" if a_new < alpha0 * (1 - 1e-6) else "stay")
        undecided = c.gulps > 0 and fq(e["galpha"]) == 0  # inexact arithmetic exactly at the target: any rounding-sized move
        if not undecided and (dirn != e["dir"] or (dira != e["dir"] and abs(fl(e["galpha"])) > 1e-3)):
            ok = False
            rep.violation(f"{uname}:direction", f"{uname}: entropy estimate {fq(e['est'])}, target {fq(vec['par']['tgt'])}: alpha must go {e['dir']}, log_alpha went {dirn} ({float(la_old[0])!r} -> {float(la_new[0])!r}), returned alpha {a_new!r} (before {alpha0!r}) {_ctx(c)}", rinfo(c, "upd"))
    return ok


# ----------------------------------------------------------------- replaying vectors
def new_stats():
    return {"fn": 0, "upd": 0, "per_kind": {}, "batch1": {}, "failed": set(), "bc": 0, "kinks": 0, "ties": 0, "real": {},
            "ep_eval": 0, "ep_runs": 0, "ep_classes": set(), "ep_clipped": 0}


def canon(vec):
    return json.dumps([vec["kind"], vec["n"], vec["par"], vec["rows"]], sort_keys=True)


def shapes_for(kind):
    return ("n1", "n") if kind in HAS_CRITIC else ("n1",)


def evaluate(rep, vectors, stats, upd_every=1):
    """Replay every vector at function level (both critic output shapes; one vmapped call per group) and, for kinds with
    an update function, every `upd_every`-th vector through one real update step."""
    total = 0
    groups = {}
    upd = []
    for vi, vec in enumerate(vectors):
        k = vec["kind"]
        fs = (rep.seed, 1212, vi)
        for vs in shapes_for(k):
            if vs == "n" and k == "reinforce" and not vec["par"]["base"]:
                continue  # no value function in the call
            c = realise(vec, fs, vs)
            if k != "ppoupd":
                groups.setdefault(group_key(c), []).append(c)
            if k in UPD and (vi % upd_every == 0 or k == "ppoupd"):
                upd.append(c)
        stats["per_kind"][k] = stats["per_kind"].get(k, 0) + 1
        if k == "ppo":
            stats["kinks"] += sum(1 for x in seq(vec["exp"]["kink"]) if x)
        if k in ("mrq", "sac"):
            stats["ties"] += sum(1 for g in seq(vec["exp"]["g" if k == "mrq" else "ga"]) if fq(g[0]) != fq(g[1]))

    def rejected(c, name, level, ex):
        msg = f"{type(ex).__name__}: {str(ex).splitlines()[0][:200] if str(ex) else ''}"
        if c.n == 1:
            stats["batch1"][f"{name} {c.vshape}"] = f"rejects batch size 1 loudly ({msg})"
            return
        stats["failed"].add(canon(c.vec))
        rep.violation(f"{name}:exception", f"{name} raised {msg} where the specification defines a result {_ctx(c)}", rinfo(c, level) | {"traceback": traceback.format_exc()[-1500:]})

    for gk, cases in groups.items():
        name = FNAME[gk[0]]
        try:
            res = run_group(cases)
        except tlc.MachineryError:
            raise
        except Exception as ex:  # raised by the code under test
            rejected(cases[0], name, "fn", ex)
            continue
        if gk[1] == 1:
            stats["batch1"].setdefault(f"{name} {gk[2]}", "accepts batch size 1 (compared with the per-sample value)")
        for c, r in zip(cases, res):
            total += 1
            stats["fn"] += 1
            if not check_fn(c, r[0], r[1], rep, stats):
                stats["failed"].add(canon(c.vec))
    for c in upd:
        name = UPD[c.kind]
        try:
            res = run_update(c)
        except tlc.MachineryError:
            raise
        except Exception as ex:
            rejected(c, name, "upd", ex)
            continue
        if c.n == 1:
            stats["batch1"].setdefault(f"{name} {c.vshape}", "accepts batch size 1 (compared with the per-sample value)")
        total += 1
        stats["upd"] += 1
        if not check_update(c, res[0], res[1], rep, stats):
            stats["failed"].add(canon(c.vec))
    return total


def nontrivial(vec):
    e = vec["exp"]
    if fq(e["loss"]) != 0:
        return True
    return any(fq(g[0]) != 0 or fq(g[1]) != 0 for g in seq(e.get("g", [])))


# ----------------------------------------------------------------- the repository's own heads: gradient support and sign
def real_heads(rep, vectors, stats, scale=1):
    """Objectives on top of the repository's policy heads (softmax, Gaussian, tanh-Gaussian, deterministic tanh, SALE actor)
    over per-state table networks: the gradient of row i of a table is (TLC's coefficient of sample i) x (the head's own
    Jacobian), so its SIGN and SUPPORT are decided by the specification; magnitudes are transcendental and not compared."""
    jax, jnp, nnx = _lazy()
    import gymnasium as gym
    import optax

    from rl_blox.blox.function_approximator import policy_head as PH

    from .. import stubs_actor as SA

    rng = np.random.default_rng([rep.seed, 1213])
    TH = 1e-5  # |Jacobian| below this: sign not asserted
    count = {}

    def pick(kind, pred=lambda v: True, cap=12):
        vs = [v for v in vectors if v["kind"] == kind and v["n"] in (2, 4) and pred(v)]
        idx = rng.permutation(len(vs))[: cap * scale]
        return [vs[i] for i in idx]

    def sign(x):
        return int(x > 0) - int(x < 0)

    def report(key, text, scen, vec, extra=None):
        rep.violation(key, text, {"vec": vec, "level": "real", "scenario": scen, "seed": rep.seed} | (extra or {}))

    def coef_sign(g):
        a, b = fq(g[0]), fq(g[1])
        return sign(a) if sign(a) == sign(b) else None

    def check_rows(scen, fname, vec, grad, jac, coefs, n, group="actor", extra_rows_zero=True):
        """grad, jac: (S, d) arrays; row i < n must have sign coef_i * sign(jac_i); rows >= n exactly 0."""
        count[scen] = count.get(scen, 0) + 1
        grad = np.asarray(grad, dtype=np.float64)
        jac = np.asarray(jac, dtype=np.float64)
        if extra_rows_zero and np.any(grad[n:] != 0):
            report(f"{fname}:real:{scen}:support", f"{fname} with the {scen} head: parameters of states outside the batch receive gradient {grad[n:].tolist()}", scen, vec)
            return
        for i in range(n):
            cs = coefs[i]
            if cs is None:
                continue
            for d in range(grad.shape[1]):
                if cs == 0:
                    if grad[i, d] != 0:
                        report(f"{fname}:real:{scen}:support", f"{fname} with the {scen} head: sample {i} has coefficient 0 in the specification but its parameters receive gradient {grad[i].tolist()}", scen, vec)
                        return
                elif abs(jac[i, d]) > TH and sign(grad[i, d]) != cs * sign(jac[i, d]):
                    report(f"{fname}:real:{scen}:sign", f"{fname} with the {scen} head: d objective / d {group} parameter [{i},{d}] = {grad[i, d]!r}; specification: sign {cs} x sign of the head's own Jacobian {jac[i, d]!r}", scen, vec)
                    return

    def jac_logp(policy, obs, act):
        """Per-sample Jacobian of the head's log-probability w.r.t. its parameters (row i of each table <- sample i)."""
        gd, st = nnx.split(policy)

        def f(st_):
            return nnx.merge(gd, st_).log_probability(obs, act).sum()

        return leafdict(jax.grad(f)(st))

    def grads_of(fn, mods, wrt):
        gd_st = [nnx.split(m) for m in mods]

        def f(sts):
            ms = [nnx.merge(gd, s) for (gd, _), s in zip(gd_st, sts)]
            return fn(ms)

        g = jax.grad(f)([s for _, s in gd_st])
        return [leafdict(x) for x in g]

    from rl_blox.algorithm.a2c import a2c_policy_gradient
    from rl_blox.algorithm.ppo import ppo_loss
    from rl_blox.algorithm.reinforce import reinforce_gradient
    from rl_blox.algorithm.sac import EntropyControl, sac_actor_loss, sac_exploration_loss
    from rl_blox.blox.losses import deterministic_policy_gradient_loss, stochastic_policy_gradient_pseudo_loss

    # --- policy-gradient family: softmax and Gaussian heads
    for vec in pick("pg") + pick("a2c", cap=6) + pick("reinforce", lambda v: v["par"]["base"], cap=6):
        n = vec["n"]
        S = n + 1
        obs = jnp.asarray(stubs.onehot(np.arange(n), S))
        coefs = [coef_sign(g) for g in seq(vec["exp"]["g"])]
        w = jnp.asarray(f32([fl(x) for x in seq(vec["exp"]["w"])]))
        for scen in ("softmax", "gaussian"):
            if scen == "softmax":
                policy = PH.SoftmaxPolicy(stubs.LinearTable(rng.normal(size=(S, 3)).astype(np.float32)))
                act = jnp.asarray(rng.integers(0, 3, size=n))
            else:
                policy = PH.GaussianPolicy(SA.GaussTable(rng.normal(size=(S, 2)).astype(np.float32), rng.normal(size=(S, 2)).astype(np.float32)))
                act = jnp.asarray(rng.normal(size=(n, 2)).astype(np.float32))
            J = jac_logp(policy, obs, act)
            if vec["kind"] == "pg":
                fname = FNAME["pg"]
                G = grads_of(lambda ms: stochastic_policy_gradient_pseudo_loss(obs, act, w, ms[0]), [policy], 0)[0]
            elif vec["kind"] == "a2c":
                fname = FNAME["a2c"]
                G = leafdict(a2c_policy_gradient(policy, obs, act, w)[1])
            else:  # weights through the real baseline path: returns - v(o), gamma^t
                fname = FNAME["reinforce"]
                rows = vec["rows"]
                vf = stubs.LinearTable(np.array([[fl(r["b"])] for r in rows] + [[0.5]], dtype=np.float32))
                gd = jnp.asarray(f32([fl(r["gd"]) for r in rows])) if vec["par"]["disc"] else None
                G = leafdict(reinforce_gradient(policy, vf, obs, act, jnp.asarray(f32([fl(r["ret"]) for r in rows])), gd)[1])
            for kk in J:
                check_rows(f"{scen}", fname, vec, G[kk], J[kk], coefs, n)

    # --- PPO at unchanged parameters (ratio == 1 through EQUAL log-probabilities) with the Gaussian head: mean parameters
    for vec in pick("ppo", lambda v: all(fq(x) == 1 for x in seq(v["exp"]["ratio"])), cap=12):
        n = vec["n"]
        S = n + 1
        e = vec["exp"]
        obs = jnp.asarray(stubs.onehot(np.arange(n), S))
        policy = PH.GaussianPolicy(SA.GaussTable(rng.normal(size=(S, 2)).astype(np.float32), rng.normal(size=(S, 2)).astype(np.float32)))
        act = jnp.asarray(rng.normal(size=(n, 2)).astype(np.float32))
        old = policy.log_probability(obs, act)
        V = np.array([[fl(r["v"])] for r in vec["rows"]] + [[0.5]], dtype=np.float32)
        critic = SA.FlatTable(V)
        adv = jnp.asarray(f32([fl(x) for x in seq(e["adv"])]))
        ret = jnp.asarray(f32([fl(x) for x in seq(e["ret"])]))
        eps = fl(vec["par"]["eps"])
        G = grads_of(lambda ms: ppo_loss(ms[0], ms[1], old, obs, act, adv, ret, eps), [policy, critic], 0)
        J = jac_logp(policy, obs, act)
        coefs = [coef_sign(g) for g in seq(e["g"])]
        # the entropy bonus does not depend on the mean: only the surrogate acts on it
        check_rows("gaussian", FNAME["ppo"], vec, G[0]["net.mean"], J["net.mean"], coefs, n)
        gv = np.array([fl(x) for x in seq(e["gv"])] + [0.0])
        count["ppo critic (N,)"] = count.get("ppo critic (N,)", 0) + 1
        if grad_bad(G[1]["kernel"][:, 0], gv, gv, 0 if n in (1, 2, 4) else ULP_N3):
            report(f"{FNAME['ppo']}:grad:critic", f"ppo_loss with the Gaussian head and a critic of output shape (N,): critic gradient {G[1]['kernel'][:, 0].tolist()}, specification {gv.tolist()}", "gaussian", vec)

    # --- deterministic policy gradient with the deterministic tanh head
    box = gym.spaces.Box(low=np.array([-1.0], dtype=np.float32), high=np.array([3.0], dtype=np.float32))
    for vec in pick("dpg", cap=12):
        n = vec["n"]
        S = n + 1
        obs = jnp.asarray(stubs.onehot(np.arange(n), S))
        P = rng.normal(size=(S, 1)).astype(np.float32)
        policy = PH.DeterministicTanhPolicy(stubs.LinearTable(P), box)
        a = np.asarray(policy(obs))[:, 0].astype(np.float64)
        s = fl(vec["par"]["s1"])
        W = np.array([[fl(r["q"]) - s * a[i]] for i, r in enumerate(vec["rows"])] + [[0.25], [s]], dtype=np.float32)
        q = stubs.LinearTable(W)
        G = grads_of(lambda ms: deterministic_policy_gradient_loss(ms[1], obs, ms[0]), [policy, q], 0)[0]
        coefs = [coef_sign(g) for g in seq(vec["exp"]["g"])]
        check_rows("deterministic tanh", FNAME["dpg"], vec, G["policy_net.kernel"], np.ones((S, 1)), coefs, n)

    # --- TD7 with the real ActorSALE: the gradient of the output layer is sum_i (TLC's coefficient of sample i) x (the actor's
    #     own features of sample i); the update applies minus that gradient to the actor and to nothing else
    from rl_blox.algorithm.td7 import deterministic_policy_gradient_loss_sale, td7_update_actor
    from rl_blox.blox.embedding.sale import ActorSALE, DeterministicSALEPolicy
    from rl_blox.blox.function_approximator.norm import avg_l1_norm

    lr = 1e-2
    if "sgd_small" not in _TX:
        _TX["sgd_small"] = optax.sgd(lr)
    for vec in pick("td7", cap=8):
        n = vec["n"]
        c = realise(vec, (rep.seed, 1214, count.get("td7 ActorSALE", 0)), "n1")
        mods = build_modules(c)
        actor = ActorSALE(stubs.LinearTable(rng.normal(size=(4 + 2, 1)).astype(np.float32)), n + 1, 4, nnx.Rngs(int(rng.integers(1 << 30))))
        policy = DeterministicSALEPolicy(mods[0], actor)
        obs = jnp.asarray(c.arrays["obs"])
        G = grads_of(lambda ms: deterministic_policy_gradient_loss_sale(ms[0], ms[2], obs, ms[1]), [mods[0], actor, mods[2]], 1)[1]
        he = np.concatenate([np.asarray(avg_l1_norm(actor.l0(obs))), np.asarray(mods[0].state_embedding(obs))], axis=1).astype(np.float64)  # the actor's own features
        gs = [rng_pair(g) for g in seq(vec["exp"]["g"])]
        exp_lo = sum(g[0] * he[i] for i, g in enumerate(gs))
        got = np.asarray(G["policy_net.kernel"], dtype=np.float64)[:, 0]
        count["td7 ActorSALE"] = count.get("td7 ActorSALE", 0) + 1
        for d in range(len(got)):
            if abs(exp_lo[d]) > 1e-4 and sign(got[d]) != sign(exp_lo[d]):
                report(f"{FNAME['td7']}:real:ActorSALE:sign", f"{FNAME['td7']} with the real ActorSALE: d objective / d output-layer weight {d} = {got[d]!r}; specification: sign of sum_i coefficient_i x feature_i = {exp_lo[d]!r}", "ActorSALE", vec)
                break
        flat_critic = fq(vec["par"]["s1"]) + fq(vec["par"]["s2"]) == 0
        # the action enters the critic twice (directly and through the state-action embedding); with the real actor's
        # non-dyadic Jacobian the two contributions cancel only up to rounding
        if flat_critic and any(np.any(np.abs(v) > 1e-6) for v in G.values()):
            report(f"{FNAME['td7']}:real:ActorSALE:support", "the actor receives gradient although the mean critic does not depend on the action", "ActorSALE", vec)
        before = [leafdict(nnx.state(m)) for m in (mods[0], mods[2], actor)]
        td7_update_actor(policy, nnx.Optimizer(actor, _TX["sgd_small"], wrt=nnx.Param), mods[2], obs)
        after = [leafdict(nnx.state(m)) for m in (mods[0], mods[2], actor)]
        for nm, b_, a_ in (("embedding", before[0], after[0]), ("critic", before[1], after[1])):
            if any(b_[kk].tobytes() != a_[kk].tobytes() for kk in b_):
                report(f"td7_update_actor:moves:{nm}", f"td7_update_actor changed the {nm} (real ActorSALE)", "ActorSALE", vec)
        # the step is minus lr times the gradient of the objective: cosine between the move and the gradient is -1
        dv = np.concatenate([(after[2][kk].astype(np.float64) - before[2][kk]).reshape(-1) for kk in sorted(before[2])])
        gv = np.concatenate([np.asarray(G[kk], dtype=np.float64).reshape(-1) for kk in sorted(before[2])])
        ng, nd = float(np.linalg.norm(gv)), float(np.linalg.norm(dv))
        if ng > 1e-3 and not (nd > 0 and float(dv @ gv) / (ng * nd) < -0.99):
            report("td7_update_actor:real:ActorSALE:sign", f"td7_update_actor with the real ActorSALE: the SGD(lr={lr}) step is not along minus the gradient of the objective (cosine {float(dv @ gv) / (ng * nd) if nd else 0.0!r})", "ActorSALE", vec)
        if ng <= 1e-6 and nd > 1e-6:
            report("td7_update_actor:real:ActorSALE:support", "td7_update_actor moved the actor although its gradient is zero", "ActorSALE", vec)

    # --- SAC actor and temperature with the tanh-Gaussian head
    box2 = gym.spaces.Box(low=np.array([-2.0], dtype=np.float32), high=np.array([2.0], dtype=np.float32))
    # (entropy coefficients <= 1 and moderate Q-values: the absolute noise threshold below is sized for them; the huge values of the full
    #  lattice are decided exactly with the stub policy)
    for vec in pick("sac", lambda v: all(fq(r["q1"]) != fq(r["q2"]) for r in v["rows"]) and fq(v["par"]["alpha"]) <= 1
                    and all(abs(fq(r[qq])) <= 3 for r in v["rows"] for qq in ("q1", "q2")), cap=12):
        n = vec["n"]
        S = n + 1
        par = vec["par"]
        obs = jnp.asarray(stubs.onehot(np.arange(n), S))
        policy = PH.GaussianTanhPolicy(SA.GaussTable(rng.normal(size=(S, 1)).astype(np.float32), rng.normal(size=(S, 1)).astype(np.float32)), box2)
        key = jax.random.key(int(rng.integers(1 << 30)))
        a = np.asarray(policy.sample(obs, key))[:, 0].astype(np.float64)
        ws = []
        for j in (1, 2):
            s = fl(par[f"s{j}"])
            ws.append(np.array([[fl(r[f"q{j}"]) - s * a[i]] for i, r in enumerate(vec["rows"])] + [[0.25], [s]], dtype=np.float32))
        q = stubs.make_double_q(stubs.LinearTable(ws[0]), stubs.LinearTable(ws[1]))
        alpha = fl(par["alpha"])
        G = grads_of(lambda ms: sac_actor_loss(ms[0], ms[1], alpha, key, obs), [policy, q], 0)[0]
        # reparametrised sample a = mean + eps * std: d log pi / d mean vanishes, the mean is moved by -dQ/da only
        act_slope = [fl(par["s1"]) if fq(r["q1"]) < fq(r["q2"]) else fl(par["s2"]) for r in vec["rows"]]
        coefs = [-sign(s) for s in act_slope]
        g = np.asarray(G["net.mean"], dtype=np.float64).copy()
        g[np.abs(g) < 1e-6] = 0.0  # cancellation noise of the two log-probability paths
        check_rows("tanh-Gaussian", FNAME["sac"], vec, g, np.ones((S, 1)), coefs, n)

    # direction table of the specification: sign(target - entropy estimate) -> direction of alpha
    table = {}
    for v in vectors:
        if v["kind"] in TEMP:
            if table.setdefault(v["exp"]["cmp"], v["exp"]["dir"]) != v["exp"]["dir"]:
                raise tlc.MachineryError("specification: direction of the temperature move is not a function of sign(target - estimate)")
    if set(table) != {-1, 0, 1}:
        raise tlc.MachineryError(f"temperature vectors do not cover all three cases: {table}")

    class _Env:
        action_space = box2

    for trial in range(6 * scale):
        S = 5
        obs = jnp.asarray(stubs.onehot(np.arange(4), S))
        policy = PH.GaussianTanhPolicy(SA.GaussTable(rng.normal(size=(S, 1)).astype(np.float32), rng.normal(size=(S, 1)).astype(np.float32)), box2)
        key = jax.random.key(int(rng.integers(1 << 30)))
        est = -float(np.mean(np.asarray(policy.log_probability(obs, policy.sample(obs, key)))))
        ec = EntropyControl(_Env(), 1.0, True, 1e-3)
        ec.target_entropy = est + (0.75 if trial % 2 == 0 else -0.75)
        cmp = sign(ec.target_entropy - est)
        a0 = float(np.asarray(ec.alpha_).reshape(-1)[0])
        pbefore = leafdict(nnx.state(policy))
        loss = ec.update(policy, obs, key)
        a1 = float(np.asarray(ec.alpha_).reshape(-1)[0])
        dirn = "up" if a1 > a0 else ("down" if a1 < a0 else "stay")
        count["entropy coefficient (Adam)"] = count.get("entropy coefficient (Adam)", 0) + 1
        if dirn != table[cmp]:
            report("_update_entropy_coefficient:real:direction", f"EntropyControl.update (Adam, tanh-Gaussian head): entropy estimate {est!r}, target {ec.target_entropy!r}: alpha must go {table[cmp]}, went {a0!r} -> {a1!r} (loss {float(loss)!r})", "tanh-Gaussian", {"kind": "temp", "trial": trial})
        pafter = leafdict(nnx.state(policy))
        if any(pbefore[kk].tobytes() != pafter[kk].tobytes() for kk in pbefore):
            report("_update_entropy_coefficient:moves:actor", "EntropyControl.update changed the policy", "tanh-Gaussian", {"kind": "temp", "trial": trial})
        # gradient sign of the loss itself w.r.t. log_alpha
        from rl_blox.algorithm.sac import EntropyCoefficient

        # ... at the default parameter value and at two values of the specification's parameter lattice (kind templa: the whole float32 range)
        las = [v["par"]["la"] for v in vectors if v["kind"] == "templa"]
        pick_la = [las[int(i)] for i in rng.integers(0, len(las), size=2)] if las else []
        for la in [None] + pick_la:
            la32 = np.float32(0.0) if la is None else la_value(la)
            am = EntropyCoefficient(jnp.asarray(np.array([la32], dtype=np.float32)))
            G = grads_of(lambda ms: sac_exploration_loss(ms[0], ec.target_entropy, key, obs, ms[1]), [policy, am], 1)[1]
            gd = "up" if float(G["log_alpha"][0]) < 0 else ("down" if float(G["log_alpha"][0]) > 0 else "stay")
            count["temperature gradient sign"] = count.get("temperature gradient sign", 0) + 1
            if gd != table[cmp]:
                report("sac_exploration_loss:real:direction", f"sac_exploration_loss (tanh-Gaussian head) at log_alpha = {float(la32)!r}: d loss / d log_alpha = {float(G['log_alpha'][0])!r} with estimate {est!r}, target {ec.target_entropy!r}: descent must move alpha {table[cmp]}", "tanh-Gaussian", {"kind": "temp", "trial": trial})
    stats["real"] = count
    return sum(count.values())


# ----------------------------------------------------------------- update_ppo over several epochs (spec/ActorEpochs.tla)
EP_INVS = ["EpTypeOK", "EpDecidable", "EpRefFixed", "EpClippedZero", "EpFirstUnclipped", "EpObjective", "EpAbsorbing", "EpCritic"]
EP = "update_ppo:epochs"
EP_CLIPPED_KEY = f"{EP}:clipped_gradient"
# float32 budget per epoch that took a step at a ratio other than 1: exp of the float32 log-ratio (<= 2 ulp of a ratio <= 1.25
# times a step <= 1/4 of the parameter), three products (1/N, advantage, learning rate) at the size of the step, one rounding of
# the parameter itself, and the error of the previous displacement carried through exp (factor |c| * ratio < 1/3): <= 5 ulp of a step that is
# at most half the parameter scale, + 1 + carry                                                                        -> 4 ulp of the parameter
ULP_EPOCH = 4
# returned objective after the first epoch: float32 difference of two log-probabilities of size <= 4 (<= 4 ulp of the ratio), exp (2), product with
# the advantage / the float32 clip bound 1.2f, mean, 0.5 * value term, 0.01 * entropy (2 roundings each)                                   -> 16
ULP_EP_LOSS = 16
REGION_LETTER = {"one": "1", "above": "A", "below": "B", "in_up": "u", "in_dn": "d"}


def region_hist(vec, i):
    """Region history of sample i, e.g. '1uA' = ratio 1, then inside above 1, then clipped above."""
    return "".join(REGION_LETTER.get(h["region"][i], "?") for h in vec["hist"])


def _sgd(module, lr):
    """nnx.Optimizer with plain SGD whose learning rate is a LEAF of the optimiser state (optax.inject_hyperparams): one
    transformation object for every learning rate of the lattice, so update_ppo is compiled once per shape and epoch count."""
    jax, jnp, nnx = _lazy()
    import optax

    if "sgd_h" not in _TX:
        _TX["sgd_h"] = optax.inject_hyperparams(optax.sgd)(learning_rate=1.0)
    opt = nnx.Optimizer(module, _TX["sgd_h"], wrt=nnx.Param)
    opt.opt_state.hyperparams["learning_rate"].value = jnp.asarray(lr, dtype=jnp.float32)
    return opt


def realise_epochs(vec, fill_seed, vshape="n1") -> Case:
    """Entry parameters theta_0 of ActorEpochs.tla: per-sample log-probability / entropy / value tables, the sampled actions are 0
    so that the shared slope `c` of the stub policy receives no gradient and every sample has its own parameters."""
    rng = np.random.default_rng(list(fill_seed))
    n, rows = vec["n"], vec["rows"]
    S = n + 1
    c = Case(vec=vec, kind="ppoep", n=n, vshape=vshape, fill_seed=tuple(fill_seed), leaves=[], arrays={}, groups=["actor", "critic"])
    pol = {"lp": fill(rng, (S,)), "c": fill(rng, (1,)), "ent": fill(rng, (S,)), "actions": fill(rng, (S, 1)), "vtable": fill(rng, (S, 1))}
    V = fill(rng, (S, 1))
    for i, r in enumerate(rows):
        pol["ent"][i] = fl(r["ent"])
        V[i, 0] = fl(r["v"])
    c.leaves = [pol, {"kernel": V}]
    c.arrays = dict(obs=stubs.onehot(np.arange(n), S), act=np.zeros((n, 1), dtype=np.float32), reward=f32([fl(r["r"]) for r in rows]),
                    term=np.ones(n, dtype=np.float32), nval=fill(rng, (n,)))
    c.aux["lra"], c.aux["lrc"] = fl(vec["par"]["lra"]), fl(vec["par"]["lrc"])
    return c


def run_epochs(c: Case, epochs: int):
    """The REAL update_ppo(epochs=...) from the entry parameters; returns (returned loss, [leaf dict per module])."""
    jax, jnp, nnx = _lazy()
    from rl_blox.algorithm.ppo import update_ppo

    mods = build_modules(Case(vec=c.vec, kind="ppoupd", n=c.n, vshape=c.vshape, fill_seed=c.fill_seed, leaves=c.leaves, arrays=c.arrays, groups=c.groups))
    a = {kk: jnp.asarray(v) for kk, v in c.arrays.items()}
    loss = update_ppo(mods[0], mods[1], _sgd(mods[0], c.aux["lra"]), _sgd(mods[1], c.aux["lrc"]), a["obs"], a["act"], a["reward"], a["term"], a["nval"], epochs=epochs)
    return np.asarray(loss), [leafdict(nnx.state(m)) for m in mods]


def probe_reference(c: Case, epochs: int):
    """Diagnostic only: run update_ppo eagerly with the module-level name ppo_loss interposed and record the `old_logps` each
    epoch hands to the objective.  Returns (entry log-probabilities, [reference of epoch 1, 2, ...]) or None."""
    jax, jnp, nnx = _lazy()
    import rl_blox.algorithm.ppo as P

    rec = []
    orig = P.ppo_loss

    def spy(actor, critic, old_logps, *args, **kw):
        try:
            rec.append(np.asarray(old_logps, dtype=np.float64).tolist())
        except Exception:
            rec.append(None)
        return orig(actor, critic, old_logps, *args, **kw)

    try:
        P.ppo_loss = spy
        with jax.disable_jit():
            run_epochs(c, epochs)
    except Exception:
        return None
    finally:
        P.ppo_loss = orig
    entry = (np.asarray(c.leaves[0]["lp"], dtype=np.float64)[: c.n]).tolist()  # actions are 0: log pi_theta_0(a_i|o_i) = lp[i]
    return entry, rec


def _ulp_ok(got, want, ulps, mag):
    got, want = float(got), float(want)
    if got == want:
        return True
    return bool(ulps) and math.isfinite(got) and abs(got - want) <= ulps * spacing32(max(abs(mag), abs(want)))


def check_epochs(c: Case, results, rep, stats, probe=True):
    """results[j-1] = (loss, leaves) of update_ppo(epochs=j), j = 1..K, all from the same entry parameters: the difference of two
    consecutive results is the step of epoch j.  Everything is compared with the state ActorEpochs.tla reaches after epoch j."""
    vec = c.vec
    n, hist = vec["n"], vec["hist"]
    F = int(vec["unit"])
    dy = n in (1, 2, 4)  # 1/N and every step at ratio 1 are dyadic
    lp0 = np.asarray(c.leaves[0]["lp"], dtype=np.float64)
    ent0 = np.asarray(c.leaves[0]["ent"], dtype=np.float64)
    dpy = [0.0] * n  # the linear forms c * Exp(log ratio) evaluated along the schedule (float64)
    inex = [0] * n  # epochs in which sample i stepped at a ratio other than 1
    ok = True
    downstream = False  # the actor left the model's state: later actor states of this case are consequences, not compared

    def info(j):
        return {"vec": vec, "fill_seed": list(c.fill_seed), "vshape": c.vshape, "level": "epochs", "epoch": j}

    def ctx(j):
        par = vec["par"]
        return (f"(update_ppo(epochs={j}) vs update_ppo(epochs={j - 1}); batch size {n}, SGD lr actor {fq(par['lra'])} critic {fq(par['lrc'])}, critic output shape "
                f"{'(N,)' if c.vshape == 'n' else '(N,1)'}, advantages {[str(fq(x)) for x in seq(vec['adv'])]}, region of each sample per epoch {[region_hist(vec, i) for i in range(n)]})")

    prev = [dict((kk, np.asarray(v, dtype=np.float32)) for kk, v in d.items()) for d in c.leaves]
    for j, h in enumerate(hist, start=1):
        if h["refk"] != "entry":
            raise tlc.MachineryError("ActorEpochs: the emitted schedule does not use the entry reference")
        loss, leaves = results[j - 1]
        # ---- returned objective: that of the last epoch, at theta_{j-1}
        lexp = fl(h["lconst"]) + (j - 1) * fl(h["lentk"])  # the entropy parameters have risen (j - 1) times
        mag = abs(0.5 * fl(h["lval"])) + abs(0.01 * fl(h["lent"]))
        for i in range(n):
            co = fl(seq(h["lcoef"])[i])
            lexp += co * math.exp(dpy[i])
            mag += abs(fl(seq(h["sur"])[i])) * 1.25 / n
        exact_loss = dy and j == 1 and fq(h["lent"]) == 0
        stats["ep_eval"] += 1
        if np.shape(loss) != () or not _ulp_ok(loss, lexp, 0 if exact_loss else (ULP_INEXACT if j == 1 else ULP_EP_LOSS + ULP_EPOCH * max(inex)), mag):
            ok = False
            rep.violation(f"{EP}:loss", f"update_ppo(epochs={j}) returned the objective {np.asarray(loss).tolist()!r}; specification (objective of epoch {j} at the parameters after {j - 1} epochs, reference = entry log-probabilities): {lexp!r} {ctx(j)}", info(j))
        # ---- actor: per-sample log-probability table
        lp = np.asarray(leaves[0]["lp"], dtype=np.float64)
        plp = np.asarray(prev[0]["lp"], dtype=np.float64)
        moved_clipped = [i for i in range(n) if h["fav"][i] and lp[i] != plp[i]] if not downstream else []
        if moved_clipped:
            ok = False
            i = moved_clipped[0]
            text = (f"update_ppo: in epoch {j} sample {i} (advantage {fq(seq(vec['adv'])[i])}) has log pi_theta_{j - 1} - log pi_theta_0 = {float(plp[i] - lp0[i])!r}, i.e. its ratio to the policy that entered the update "
                    f"is {math.exp(float(plp[i] - lp0[i]))!r}, outside [0.8, 1.2] on the side its advantage favours; the specification gives it zero policy gradient, but epoch {j} moved its log-probability by {float(lp[i] - plp[i])!r}")
            if probe and not stats.get("ep_probed"):
                stats["ep_probed"] = True
                pr = probe_reference(c, j)
                if pr is not None and len(pr[1]) == j and pr[1][j - 1] is not None:
                    if pr[1][j - 1] != pr[0]:
                        text += (f"; ppo_loss was handed old_logps = {pr[1][j - 1]} in epoch {j}, the log-probabilities of the already updated actor, instead of the entry "
                                 f"log-probabilities {pr[0]} (the reference is not held fixed over the epochs, so the ratio is 1 in every epoch and clipping never activates)")
                    else:
                        text += f"; ppo_loss was handed the entry log-probabilities {pr[0]} as old_logps in epoch {j}"
            rep.violation(EP_CLIPPED_KEY, f"{text} {ctx(j)}", info(j))
            downstream = True
        for i in range(n):
            co = fl(seq(h["c"])[i])
            if h["expo"][i]:
                dpy[i] = dpy[i] + co * math.exp(dpy[i])
                inex[i] += 1
            else:
                dpy[i] = dpy[i] + co
            a = seq(h["after"])[i]
            if a["ex"]:
                if Fraction(dpy[i]) != fq(a["q"]) and dy:
                    raise tlc.MachineryError(f"ActorEpochs: exact displacement {fq(a['q'])} disagrees with the evaluated schedule {dpy[i]!r}")
                dpy[i] = fl(a["q"])
            elif not (a["lo"] / F <= dpy[i] <= a["hi"] / F):
                raise tlc.MachineryError(f"ActorEpochs: evaluated linear form {dpy[i]!r} outside the model's enclosure [{a['lo'] / F}, {a['hi'] / F}]")
        for i in range(n):
            if downstream:
                break
            a = seq(h["after"])[i]
            want = lp0[i] + dpy[i]
            ul = ULP_EPOCH * inex[i] + (0 if dy else ULP_N3 * j)
            slack = ul * spacing32(max(abs(lp0[i]), abs(want), 0.5))
            encl_ok = a["ex"] or (a["lo"] / F - slack <= lp[i] - lp0[i] <= a["hi"] / F + slack)  # the model's own (coarse) enclosure
            if not (_ulp_ok(lp[i], want, ul, max(abs(lp0[i]), 0.5)) and encl_ok):
                ok = False
                rep.violation(f"{EP}:step:actor", f"update_ppo: after epoch {j} sample {i} has log pi_theta_{j} - log pi_theta_0 = {float(lp[i] - lp0[i])!r}; specification {dpy[i]!r} "
                              f"(step of epoch {j}: {fq(seq(h['c'])[i])} x {'ratio' if h['expo'][i] else '1'}, region '{h['region'][i]}') {ctx(j)}", info(j))
                downstream = True
                break
        # ---- entropy table: -lr * d(-0.01 mean entropy)
        ent = np.asarray(leaves[0]["ent"], dtype=np.float64)
        es = fl(h["entstep"])
        for i in range(n):
            if not _ulp_ok(ent[i], ent0[i] + j * es, 4 * j, max(abs(ent0[i]), j * es)):
                ok = False
                rep.violation(f"{EP}:step:actor", f"update_ppo: after epoch {j} the entropy parameter of sample {i} is {float(ent[i])!r}; specification {float(ent0[i])!r} + {j} x {fq(h['entstep'])} {ctx(j)}", info(j))
                break
        # ---- critic: regression on the ENTRY returns
        V = np.asarray(leaves[1]["kernel"], dtype=np.float64).reshape(-1)
        for i in range(n):
            want = fl(seq(h["v"])[i])
            if not _ulp_ok(V[i], want, 0 if dy else ULP_N3 * j, max(abs(want), abs(fl(seq(vec["ret"])[i])))):
                ok = False
                rep.violation(f"{EP}:step:critic", f"update_ppo: after epoch {j} the critic predicts {float(V[i])!r} for sample {i}; specification {fq(seq(h['v'])[i])} (entry prediction {fq(vec['rows'][i]['v'])}, "
                              f"return {fq(seq(vec['ret'])[i])} estimated once at entry) {ctx(j)}", info(j))
                break
        # ---- everything else is bit-identical to the entry parameters
        for mi, d in enumerate(c.leaves):
            for kk, old in d.items():
                new = np.asarray(leaves[mi][kk], dtype=np.float32)
                old = np.asarray(old, dtype=np.float32).reshape(new.shape)
                keep = np.ones(new.shape, dtype=bool)
                if (mi, kk) in ((0, "lp"), (0, "ent"), (1, "kernel")):
                    keep.reshape(-1)[:n] = False  # rows of the batch
                if (old[keep].tobytes() != new[keep].tobytes()):
                    ok = False
                    rep.violation(f"{EP}:moves:{c.groups[mi]}", f"update_ppo changed '{kk}' of the {c.groups[mi]} outside the parameters of the batch (no gradient reaches them) {ctx(j)}", info(j))
        prev = [dict((kk, np.asarray(v, dtype=np.float32)) for kk, v in d.items()) for d in leaves]
    return ok


def epoch_classes(vec):
    return {region_hist(vec, i)[:3] for i in range(vec["n"])}


def evaluate_epochs(rep, vectors, stats, flat_every=2, flat_ns=(2,)):
    """Replay every schedule: update_ppo(epochs=j) for j = 1..K from identical entry parameters (critic output shape (N,1), and
    (N,) for every `flat_every`-th vector with a batch size in `flat_ns`; every (batch size, shape, j) is one compilation)."""
    total = 0
    for vi, vec in enumerate(vectors):
        K = len(vec["hist"])
        for vs in ("n1", "n") if vi % flat_every == 0 and vec["n"] in flat_ns else ("n1",):
            c = realise_epochs(vec, (rep.seed, 1215, vi), vs)
            try:
                results = [run_epochs(c, j) for j in range(1, K + 1)]
            except tlc.MachineryError:
                raise
            except Exception as ex:  # raised by the code under test
                msg = f"{type(ex).__name__}: {str(ex).splitlines()[0][:200] if str(ex) else ''}"
                if c.n == 1:
                    stats["batch1"][f"update_ppo epochs {vs}"] = f"rejects batch size 1 loudly ({msg})"
                    continue
                stats["failed"].add(canon_ep(vec))
                rep.violation("update_ppo:exception", f"update_ppo(epochs<={K}) raised {msg} where the specification defines a result (batch size {c.n})",
                              {"vec": vec, "fill_seed": list(c.fill_seed), "vshape": vs, "level": "epochs", "traceback": traceback.format_exc()[-1500:]})
                continue
            total += K
            stats["ep_runs"] += K
            if not check_epochs(c, results, rep, stats):
                stats["failed"].add(canon_ep(vec))
        stats["ep_classes"] |= epoch_classes(vec)
        for h in vec["hist"]:
            stats["ep_clipped"] += sum(1 for x in h["fav"] if x)
    return total


def real_epochs(rep, vectors, stats, scale=1):
    """The repository's own heads and networks (softmax over a shared MLP, Gaussian over per-state tables; rollouts that are
    not all terminated): update_ppo(epochs=K) must equal the model's SCHEDULE executed with the real functions - advantages and
    returns from the real compute_gae at entry, reference = entry log-probabilities, then K times one SGD step on the real
    ppo_loss with that reference.  Both sides are real code; the schedule (how many steps, which reference each epoch uses,
    what is estimated once) is ActorEpochs.tla's.  Same float32 operations on both sides; XLA may fuse them differently inside
    the compiled update: a few ulp per operation on the ~10-operation path of a parameter, per epoch."""
    rng = np.random.default_rng([rep.seed, 1218])
    cand = {K: [v for v in vectors if v["n"] == 4 and len(v["hist"]) == K and any(fq(x) > 0 for x in seq(v["adv"])) and any(fq(x) < 0 for x in seq(v["adv"]))] for K in (2, 3)}
    plan = [("softmax over a shared MLP", 3), ("Gaussian over per-state tables", 2)] * scale
    count = 0
    for head, K in plan:
        seed = int(rng.integers(1 << 30))
        pick = float(rng.random())
        if not cand[K]:
            continue
        real_epochs_one(rep, head, cand[K][int(pick * len(cand[K]))], seed)
        count += 1
    stats["real"]["update_ppo over epochs (own heads)"] = count
    return count


def real_epochs_one(rep, head, vec, seed):
    jax, jnp, nnx = _lazy()
    from rl_blox.algorithm.ppo import ppo_loss, update_ppo
    from rl_blox.blox.function_approximator import policy_head as PH
    from rl_blox.blox.function_approximator.mlp import MLP
    from rl_blox.blox.gae import compute_gae

    from .. import stubs_actor as SA

    ULP_STEP = 16  # per epoch, in ulp of the largest parameter / single step of the leaf
    n, K = vec["n"], len(vec["hist"])
    lra, lrc = fl(vec["par"]["lra"]), fl(vec["par"]["lrc"])

    def make():
        r = np.random.default_rng(seed)
        if head.startswith("softmax"):
            actor = PH.SoftmaxPolicy(MLP(3, 3, [8], "tanh", nnx.Rngs(seed)))
            critic = MLP(3, 1, [8], "tanh", nnx.Rngs(seed + 1))
            obs = jnp.asarray(r.normal(size=(n, 3)).astype(np.float32))
            act = jnp.asarray(r.integers(0, 3, size=n))
        else:
            actor = PH.GaussianPolicy(SA.GaussTable(r.normal(size=(n + 1, 2)).astype(np.float32), r.normal(size=(n + 1, 2)).astype(np.float32)))
            critic = SA.FlatTable(r.normal(size=(n + 1, 1)).astype(np.float32))
            obs = jnp.asarray(stubs.onehot(np.arange(n), n + 1))
            act = jnp.asarray(r.normal(size=(n, 2)).astype(np.float32))
        term = jnp.asarray((np.arange(n) % 2).astype(np.float32))  # every second row ends an episode
        nval = jnp.asarray(r.choice(FILL, size=n).astype(np.float32))
        return actor, critic, obs, act, term, nval

    reward = jnp.asarray(f32([fl(r["r"]) for r in vec["rows"]]))
    actor, critic, obs, act, term, nval = make()
    update_ppo(actor, critic, _sgd(actor, lra), _sgd(critic, lrc), obs, act, reward, term, nval, epochs=K)
    # the schedule of the specification, executed with the real functions
    ra, rc, _, _, _, _ = make()
    oa, oc = _sgd(ra, lra), _sgd(rc, lrc)
    gae = compute_gae(reward, rc(obs).reshape(-1), nval, term)  # Enter: estimated once, from the entry critic
    entry_logp = ra.log_probability(obs, act)  # Enter: the reference
    grad_fn = nnx.value_and_grad(ppo_loss, argnums=(0, 1))
    scale = {}  # per leaf: the largest parameter and the largest single step seen along the schedule

    def track(before):
        now = {"actor": leafdict(nnx.state(ra, nnx.Param)), "critic": leafdict(nnx.state(rc, nnx.Param))}
        for g_, d in now.items():
            for kk, v in d.items():
                m = float(np.max(np.abs(v)))
                if before is not None:
                    m = max(m, float(np.max(np.abs(v.astype(np.float64) - before[g_][kk]))))
                scale[(g_, kk)] = max(scale.get((g_, kk), 0.0), m)
        return now

    state = track(None)
    for h in vec["hist"]:
        if h["refk"] != "entry":
            raise tlc.MachineryError("ActorEpochs: the emitted schedule does not use the entry reference")
        _, (ga, gc) = grad_fn(ra, rc, entry_logp, obs, act, gae.advantages, gae.returns)  # Epoch
        oa.update(ra, ga)
        oc.update(rc, gc)
        state = track(state)
    ratios = np.exp(np.asarray(ra.log_probability(obs, act) - entry_logp, dtype=np.float64))
    for gname, m, rm in (("actor", actor, ra), ("critic", critic, rc)):
        got, want = leafdict(nnx.state(m, nnx.Param)), leafdict(nnx.state(rm, nnx.Param))
        for kk in want:
            if not (np.all(np.isfinite(want[kk])) and math.isfinite(scale[(gname, kk)])):
                continue  # the schedule itself overflows float32 with these networks: nothing to compare
            tol = ULP_STEP * K * spacing32(scale[(gname, kk)])
            dev = float(np.max(np.abs(got[kk].astype(np.float64) - want[kk].astype(np.float64))))
            if not dev <= tol:
                rep.violation(f"{EP}:real:{gname}", f"update_ppo(epochs={K}) with the repository's own networks ({head}; batch size {n}, SGD lr actor {lra} critic {lrc}) leaves the {gname} parameter '{kk}' "
                              f"{dev!r} away from {K} SGD steps on ppo_loss with the ENTRY log-probabilities as reference and advantages / returns estimated once at entry (tolerance {tol!r}); "
                              f"final ratios to the entry policy {ratios.round(4).tolist()}, advantages {np.asarray(gae.advantages).round(4).tolist()}",
                              {"vec": vec, "level": "real_epochs", "head": head, "scenario_seed": seed})
                break


def canon_ep(vec):
    return json.dumps(["ppoep", vec["n"], vec["par"], vec["rows"]], sort_keys=True)


EP_REQUIRED = {"1AA", "1BB", "1uA", "1dB", "1uu", "1dd", "111"}


def epochs_binding_canary(rep, vectors, failed):
    """(1) a recorded state in which a clipped sample moved in epoch 2, (2) a corrupted coefficient of the schedule: both must be noticed."""
    from ..report import Report

    v = next((v for v in vectors if v["n"] == 2 and len(v["hist"]) >= 2 and canon_ep(v) not in failed and any(v["hist"][1]["fav"])), None)
    if v is None:
        if failed:
            return
        raise tlc.MachineryError("epochs binding canary: no schedule with a clipped sample in epoch 2")
    c = realise_epochs(v, (rep.seed, 1216, 0), "n1")
    K = len(v["hist"])
    results = [run_epochs(c, j) for j in range(1, K + 1)]
    i = [x for x in range(2) if v["hist"][1]["fav"][x]][0]
    bad = [(l, [dict(d) for d in lv]) for l, lv in results]
    lp = np.array(bad[1][1][0]["lp"], dtype=np.float32)
    lp[i] += np.float32(fl(seq(v["hist"][0]["c"])[i]))  # the clipped sample takes the step of epoch 1 once more
    bad[1][1][0]["lp"] = lp
    scratch = Report("C12", rep.tier, rep.seed)
    check_epochs(c, bad, scratch, new_stats(), probe=False)
    if EP_CLIPPED_KEY not in [x["key"] for x in scratch.violations]:
        raise tlc.MachineryError(f"epochs binding canary: a clipped sample that moved was not noticed; got {[x['key'] for x in scratch.violations]}")
    v2 = next((u for u in vectors if u["n"] == 2 and len(u["hist"]) >= 2 and canon_ep(u) not in failed and any(u["hist"][1]["expo"])), None)
    if v2 is None:
        if failed:
            return
        raise tlc.MachineryError("epochs binding canary: no schedule with a step at a ratio other than 1")
    b = json.loads(json.dumps(v2))
    i = [x for x in range(2) if b["hist"][1]["expo"][x]][0]
    q = fq(seq(b["hist"][1]["c"])[i]) * Fraction(17, 16)
    b["hist"][1]["c"][i] = [q.numerator, q.denominator]
    b["hist"] = b["hist"][:2]
    b["hist"][1]["after"][i]["lo"] -= 4096
    b["hist"][1]["after"][i]["hi"] += 4096
    c2 = realise_epochs(b, (rep.seed, 1216, 1), "n1")
    scratch = Report("C12", rep.tier, rep.seed)
    check_epochs(c2, [run_epochs(c2, j) for j in (1, 2)], scratch, new_stats(), probe=False)
    if f"{EP}:step:actor" not in [x["key"] for x in scratch.violations]:
        raise tlc.MachineryError(f"epochs binding canary: a corrupted step coefficient was not noticed; got {[x['key'] for x in scratch.violations]}")


# ----------------------------------------------------------------- the temperature over a history of updates (spec/ActorTemp.tla)
HIST_INVS = ["HTypeOK", "HistDirection", "HistMomentum", "AlphaFollows"]
HIST = "_update_entropy_coefficient:history"
CTRL = "EntropyControl.update"


def canon_hist(vec):
    return json.dumps(["temphist", vec["par"], [h["tgt"] for h in vec["hist"]]], sort_keys=True)


def run_hist(vec, fill_seed):
    """One LIVE temperature parameter driven through the history of ActorTemp.tla.  mode 'sgd': EntropyCoefficient(la0) and one plain-SGD
    optimiser (step size 2^lre from TLC) through the real _update_entropy_coefficient; mode 'control': the real EntropyControl (its own Adam,
    learning rate 2^lre) through EntropyControl.update with target_entropy set per update.  Returns the recorded steps
    [{la_before, la_after, loss, alpha_before, alpha}] (projection of the real objects) and whether the policy stayed bit-identical."""
    jax, jnp, nnx = _lazy()
    import gymnasium as gym
    from rl_blox.algorithm.sac import EntropyCoefficient, EntropyControl, _update_entropy_coefficient

    from .. import stubs_actor as SA

    rng = np.random.default_rng(list(fill_seed))
    par, rows = vec["par"], vec["rows"]
    n = len(rows)
    S = n + 1
    act = fill(rng, (S, 1))
    cv = fill(rng, (1,))
    lp = fill(rng, (S,))
    for i, r in enumerate(rows):
        lp[i] = np.float32(fl(r["lp"]) - float(act[i, 0]) * float(cv[0]))
    pol = SA.TablePolicy(lp, cv, fill(rng, (S,)), act, fill(rng, (S, 1)))
    obs = jnp.asarray(stubs.onehot(np.arange(n), S))
    key = jax.random.key(int(rng.integers(1 << 30)))
    before = leafdict(nnx.state(pol))
    lr = math.ldexp(1.0, int(par["lre"]))
    one = lambda x: float(np.asarray(x, dtype=np.float32).reshape(-1)[0])  # noqa: E731
    steps = []
    if par["mode"] == "sgd":
        ec = EntropyCoefficient(jnp.asarray(np.array([la_value(par["la0"])], dtype=np.float32)))
        opt = _sgd(ec, lr)
        la_of = lambda: one(ec.log_alpha.value)  # noqa: E731
        a_prev = one(ec())
        for h in vec["hist"]:
            la_b = la_of()
            loss, alpha = _update_entropy_coefficient(opt, pol, jnp.asarray(np.float32(fl(h["tgt"]))), key, obs, ec)
            steps.append(dict(la_before=la_b, la_after=la_of(), loss=np.asarray(loss).tolist(), alpha_before=a_prev, alpha=one(alpha)))
            a_prev = one(alpha)
    else:
        class _Env:
            action_space = gym.spaces.Box(low=np.array([-2.0], dtype=np.float32), high=np.array([2.0], dtype=np.float32))

        ctl = EntropyControl(_Env(), 1.0, True, lr)
        param = getattr(getattr(ctl, "_alpha", None), "log_alpha", None)  # projection: the parameter behind alpha_
        la_of = (lambda: one(param.value)) if param is not None else (lambda: None)
        a_prev = one(ctl.alpha_)
        for h in vec["hist"]:
            ctl.target_entropy = fl(h["tgt"])
            la_b = la_of()
            loss = ctl.update(pol, obs, key)
            steps.append(dict(la_before=la_b, la_after=la_of(), loss=np.asarray(loss).tolist(), alpha_before=a_prev, alpha=one(ctl.alpha_)))
            a_prev = one(ctl.alpha_)
    after = leafdict(nnx.state(pol))
    return steps, all(before[kk].tobytes() == after[kk].tobytes() for kk in before)


def check_hist(vec, steps, untouched, rep, stats, fill_seed):
    """Every update of the history against ActorTemp.tla: direction from TLC; loss / step as the linear forms c_t x Exp(log_alpha_t),
    lr x gc_t x Exp(log_alpha_t) with TLC's coefficients and Exp at the parameter the update found; alpha = Exp(log_alpha) after it."""
    par = vec["par"]
    sgd = par["mode"] == "sgd"
    name = HIST if sgd else CTRL
    lr = math.ldexp(1.0, int(par["lre"]))
    ok = True

    def info(t):
        return {"vec": vec, "fill_seed": list(fill_seed), "level": "hist", "update": t}

    def ctx(t):
        return (f"({'EntropyCoefficient(log_alpha = ' + repr(float(la_value(par['la0']))) + ') + SGD(lr=2^' + str(par['lre']) + ') through _update_entropy_coefficient' if sgd else 'EntropyControl(learning_rate=' + repr(lr) + ') through update'}; "
                f"update {t} of {len(vec['hist'])}; entropy estimate {fq(vec['est'])}, targets {[str(fq(h['tgt'])) for h in vec['hist']]}, log_alpha before each update {[s['la_before'] for s in steps]})")

    if not untouched:
        ok = False
        rep.violation("_update_entropy_coefficient:moves:actor", f"a temperature update changed the policy {ctx(len(steps))}", info(len(steps)))
    for t, (h, o) in enumerate(zip(vec["hist"], steps), start=1):
        stats["hist_steps"] = stats.get("hist_steps", 0) + 1
        eu = int(h["expulp"])
        la_b, la_a = o["la_before"], o["la_after"]
        if la_b is not None and abs(la_b) > 2.0:
            stats["hist_far"] = stats.get("hist_far", 0) + 1
        if la_b is not None and math.isfinite(la_b) and abs(la_b) < 87.0:
            ax = exp_atom(la_b)
            mag = fl(h["mag"]) * ax
            if np.shape(o["loss"]) != () or not val_ok(o["loss"], fq(h["c"]) * Fraction(ax), ULP_INEXACT, mag):
                ok = False
                rep.violation(f"{name}:loss", f"returned temperature loss {o['loss']!r}; specification {fq(h['c'])} x exp(log_alpha = {la_b!r}) = {float(fq(h['c'])) * ax!r} {ctx(t)}", info(t))
            if sgd:
                want = lr * float(fq(h["gc"])) * ax
                tol = ULP_INEXACT * spacing32(lr * mag) + spacing32(abs(la_b) + abs(want))
                if not (math.isfinite(la_a) and abs((la_b - la_a) - want) <= tol):
                    ok = False
                    rep.violation(f"{name}:step", f"log_alpha moved by {la_a - la_b!r} ({la_b!r} -> {la_a!r}); specification -lr x {fq(h['gc'])} x exp(log_alpha) = {-want!r} {ctx(t)}", info(t))
        if h["dir"] != "any":
            d = exact.ord32(o["alpha"]) - exact.ord32(o["alpha_before"]) if math.isfinite(o["alpha"]) and math.isfinite(o["alpha_before"]) else (1 if o["alpha"] > o["alpha_before"] else -1)
            dira = "up" if d > eu else ("down" if d < -eu else "stay")
            dirn = dira if la_b is None else ("up" if la_a > la_b else ("down" if la_a < la_b else "stay"))
            if dira != h["dir"] or dirn != h["dir"]:
                ok = False
                rep.violation(f"{name}:direction", f"entropy estimate {fq(vec['est'])}, target {fq(h['tgt'])}"
                              + (f" (first moment of Adam has the sign of the gradients seen so far: {h['msign']})" if not sgd else "")
                              + f": alpha must go {h['dir']}; log_alpha went {dirn} ({la_b!r} -> {la_a!r}), alpha went {dira} ({o['alpha_before']!r} -> {o['alpha']!r}) {ctx(t)}", info(t))
        if la_a is not None and math.isfinite(la_a) and abs(la_a) < 87.0 and not within_ulps32(o["alpha"], exp_atom(la_a), eu):
            ok = False
            rep.violation(ALPHA_KEY if sgd else f"{name}:alpha", f"alpha = {o['alpha']!r} after the update with log_alpha = {la_a!r}; specification alpha = exp(log_alpha) = {exp_atom(la_a)!r} {ctx(t)}", info(t))
    return ok


def select_hist(rep, vectors, quick):
    """Histories replayed: 'sgd' all (quick: those of length 3 - every start value, every sequence of below / at / above target); 'control' is one
    compilation per EntropyControl object: the same-sign histories (alpha must keep moving) of every learning rate and a seeded sample of the rest."""
    rng = np.random.default_rng([rep.seed, 1219])
    sgd = [v for v in vectors if v["par"]["mode"] == "sgd" and (not quick or v["par"]["H"] == 3)]
    ctl = [v for v in vectors if v["par"]["mode"] == "control"]
    same = [v for v in ctl if len({h["gsign"] for h in v["hist"]}) == 1 and v["hist"][0]["gsign"] != 0 and v["par"]["H"] == max(u["par"]["H"] for u in ctl)]
    rest = [v for v in ctl if v not in same and any(h["dir"] not in ("any", "stay") for h in v["hist"])]
    idx = rng.permutation(len(rest))[: 4 if quick else 40]
    return sgd, same + [rest[i] for i in idx]


def evaluate_hist(rep, vectors, stats):
    total = 0
    for vi, vec in enumerate(vectors):
        fs = (rep.seed, 1220, vi)
        try:
            steps, untouched = run_hist(vec, fs)
        except tlc.MachineryError:
            raise
        except Exception as ex:  # raised by the code under test
            msg = f"{type(ex).__name__}: {str(ex).splitlines()[0][:200] if str(ex) else ''}"
            stats["failed"].add(canon_hist(vec))
            rep.violation(f"{HIST if vec['par']['mode'] == 'sgd' else CTRL}:exception", f"a temperature update raised {msg} where the specification defines a result (par {vec['par']})",
                          {"vec": vec, "fill_seed": list(fs), "level": "hist", "traceback": traceback.format_exc()[-1500:]})
            continue
        total += len(steps)
        stats["hist_runs"] = stats.get("hist_runs", 0) + 1
        stats.setdefault("hist_modes", {}).setdefault(vec["par"]["mode"], 0)
        stats["hist_modes"][vec["par"]["mode"]] += 1
        if not check_hist(vec, steps, untouched, rep, stats, fs):
            stats["failed"].add(canon_hist(vec))
    return total


def hist_binding_canary(rep, vectors, failed):
    """A recorded history in which (1) the parameter did not move where TLC says 'up' / 'down', (2) TLC's step coefficient is corrupted: both must be noticed."""
    from ..report import Report

    v = next((v for v in vectors if v["par"]["mode"] == "sgd" and canon_hist(v) not in failed and v["hist"][0]["dir"] in ("up", "down")), None)
    if v is None:
        if failed:
            return
        raise tlc.MachineryError("history binding canary: no sgd history with a decided first update")
    fs = (rep.seed, 1221, 0)
    steps, untouched = run_hist(v, fs)
    frozen = [dict(s) for s in steps]
    frozen[0]["la_after"] = frozen[0]["la_before"]
    frozen[0]["alpha"] = frozen[0]["alpha_before"]
    scratch = Report("C12", rep.tier, rep.seed)
    check_hist(v, frozen, untouched, scratch, {}, fs)
    if f"{HIST}:direction" not in [x["key"] for x in scratch.violations]:
        raise tlc.MachineryError(f"history binding canary: a temperature that did not move was not noticed; got {[x['key'] for x in scratch.violations]}")
    b = json.loads(json.dumps(v))
    q = fq(b["hist"][0]["gc"]) * Fraction(17, 16)
    b["hist"][0]["gc"] = [q.numerator, q.denominator]
    scratch = Report("C12", rep.tier, rep.seed)
    check_hist(b, steps, untouched, scratch, {}, fs)
    if f"{HIST}:step" not in [x["key"] for x in scratch.violations]:
        raise tlc.MachineryError(f"history binding canary: a corrupted step coefficient was not noticed; got {[x['key'] for x in scratch.violations]}")


# ----------------------------------------------------------------- canaries
CANARIES = [
    ("pgsign", {"pg"}, "PGAscent"),
    ("nosg", {"reinforce"}, "WeightsConstant"),
    ("wrtall", {"dpg"}, "GradSupport"),
    ("maxclip", {"ppo"}, "PPOClippedZero"),
    ("broadcast", {"ppo"}, "PerSample"),
    ("tempsign", {"temp"}, "TempDirection"),
    ("tempclip", {"templa"}, "TempLaDirection"),
    ("mindpg", {"td7"}, "DPGAscent"),
]


def spec_canaries(pool):
    futs = []
    for dev, kinds, inv in CANARIES:
        c = dict(EMIT=False, Kinds=kinds, NSet={2}, LAT="small", DEV=dev)
        futs.append((dev, inv, pool.submit(tlc.run, "Actor", tlc.cfg_text(constants=c, invariants=[inv]), workers=1, tag=f"actor-{dev}")))
    return futs


def finish_canaries(futs):
    for dev, inv, f in futs:
        r = f.result()
        if r.violated != inv:
            raise tlc.MachineryError(f"canary: deviation '{dev}' is not refuted by {inv} (got {r.violated})")


def binding_canary(rep, vectors, failed):
    """Corrupt one expected value, one expected actor coefficient and one recorded parameter move; the comparison must notice."""
    from ..report import Report

    def corrupt(x):
        x = fq(x)
        y = x * 2 + Fraction(1, 4)
        return [y.numerator, y.denominator]

    want = {"pg": "stochastic_policy_gradient_pseudo_loss", "ppo": "ppo_loss", "sac": "sac_actor_loss"}
    for kind, fname in want.items():
        v = next((v for v in vectors if v["kind"] == kind and v["n"] == 2 and canon(v) not in failed and fq(v["exp"]["loss"]) != 0
                  and all(fq(g[0]) == fq(g[1]) != 0 for g in seq(v["exp"]["g"]))), None)
        if v is None:
            if failed:
                continue
            raise tlc.MachineryError(f"binding canary: no suitable {kind} vector")
        b1 = json.loads(json.dumps(v))
        b1["exp"]["loss"] = corrupt(b1["exp"]["loss"])
        b2 = json.loads(json.dumps(v))
        g = seq(b2["exp"]["g"])
        g[0] = [corrupt(g[0][0]), corrupt(g[0][0])]
        b2["exp"]["g"] = g
        scratch = Report("C12", rep.tier, rep.seed)
        evaluate(scratch, [b1, b2], new_stats(), upd_every=10**9)
        keys = [x["key"] for x in scratch.violations]
        for w in (f"{fname}:loss", f"{fname}:grad:actor"):
            if w not in keys:
                raise tlc.MachineryError(f"binding canary: corrupted expectation ({w}) not noticed; got {keys}")
    # the temperature at a parameter value far from 0: a corrupted coefficient of the linear form / a corrupted position of alpha must be noticed
    v = next((v for v in vectors if v["kind"] == "templa" and v["n"] == 2 and canon(v) not in failed and fq(v["exp"]["galpha"]) != 0 and abs(fq(v["par"]["la"]["a"])) >= 10), None)
    if v is None and not failed:
        raise tlc.MachineryError("binding canary: no suitable templa vector")
    if v is not None:
        b1 = json.loads(json.dumps(v))
        b1["exp"]["loss"] = corrupt(b1["exp"]["loss"])
        b2 = json.loads(json.dumps(v))
        b2["exp"]["galpha"] = corrupt(b2["exp"]["galpha"])
        scratch = Report("C12", rep.tier, rep.seed)
        st = new_stats()
        evaluate(scratch, [b1, b2], st, upd_every=1)
        keys = [x["key"] for x in scratch.violations]
        for w in ("sac_exploration_loss:loss", "sac_exploration_loss:grad:alpha", "_update_entropy_coefficient:step:alpha"):
            if w not in keys:
                raise tlc.MachineryError(f"binding canary: corrupted expectation ({w}) not noticed; got {keys}")
        u = next((u for u in vectors if u["kind"] == "templa" and u["exp"]["arank"] > v["exp"]["arank"] and canon(u) not in failed), None) or \
            next((u for u in vectors if u["kind"] == "templa" and u["exp"]["arank"] < v["exp"]["arank"] and canon(u) not in failed), None)
        if u is not None:
            b3 = json.loads(json.dumps(u))
            b3["exp"]["arank"], b3["exp"]["rank"] = v["exp"]["arank"], v["exp"]["rank"]
            b4 = json.loads(json.dumps(v))
            b4["exp"]["arank"], b4["exp"]["rank"] = u["exp"]["arank"], u["exp"]["rank"]
            scratch = Report("C12", rep.tier, rep.seed)
            st = new_stats()
            evaluate(scratch, [b3, b4], st, upd_every=10**9)
            check_alpha_order(scratch, st)
            if f"{ALPHA_KEY}:monotone" not in [x["key"] for x in scratch.violations]:
                raise tlc.MachineryError(f"binding canary: swapped positions of two alphas not noticed; got {[x['key'] for x in scratch.violations]}")
    # an update that moves a module the specification leaves untouched must be noticed
    v = next((v for v in vectors if v["kind"] == "dpg" and v["n"] == 2 and canon(v) not in failed), None)
    if v is not None:
        c = realise(v, (rep.seed, 1212, 0), "n1")
        outs, moved = run_update(c)
        old, new = moved[(1, "kernel")]
        moved[(1, "kernel")] = (old, new + np.float32(0.5))
        scratch = Report("C12", rep.tier, rep.seed)
        check_update(c, outs, moved, scratch, new_stats())
        if "ddpg_update_actor:moves:critic" not in [x["key"] for x in scratch.violations]:
            raise tlc.MachineryError("binding canary: a moved critic was not noticed")


# ----------------------------------------------------------------- driver
def run(rep):
    import os
    import time
    from concurrent.futures import ThreadPoolExecutor

    quick = rep.tier == "quick"
    t0 = time.time()
    tm = {}
    tlc.sany("Actor")
    tlc.sany("ActorEpochs")
    workers = int(os.environ.get("VERIF_TLC_WORKERS", "16"))
    base = dict(EMIT=False, Kinds=set(ALL_KINDS), NSet={1, 2}, LAT="small", DEV="")
    sims = [dict(NSet={2, 4}, LAT="full", num=700 if quick else 16000), dict(NSet={1, 3}, LAT="full", num=250 if quick else 6000)]
    with ThreadPoolExecutor(max_workers=16 + len(sims)) as pool:
        can = spec_canaries(pool)
        # 0. update_ppo over several epochs (ActorEpochs.tla): deviation canary, the small lattice exhaustively (invariants + schedules),
        #    seeded random walks over the full lattice; thorough: the full lattice exhaustively for batch sizes 1 (with schedules) and 2
        ep0 = dict(EMIT=True, NSet={2}, KSet={3}, LAT="small", DEV="")
        f_epdev = pool.submit(tlc.run, "ActorEpochs", tlc.cfg_text(constants=dict(ep0, EMIT=False, KSet={2}, DEV="refresh"), invariants=["EpClippedZero"]), workers=1, tag="actorep-refresh")
        f_epsmall = pool.submit(tlc.run, "ActorEpochs", tlc.cfg_text(constants=ep0, invariants=EP_INVS), workers=1, tag="actorep-small", timeout=1500)
        eps = dict(ep0, NSet={1, 2, 4} if quick else {1, 2, 3, 4}, KSet={2, 3} if quick else {2, 3, 4}, LAT="full")
        f_epsim = pool.submit(tlc.run, "ActorEpochs", tlc.cfg_text(constants=eps, invariants=EP_INVS), workers=1, simulate=f"num={60 if quick else 1200}", depth=14,
                              seed=rep.seed * 7 + 5, tag="actorep-sim", timeout=1500)
        f_epfull1 = f_epfull2 = None
        if not quick:
            f_epfull1 = pool.submit(tlc.run, "ActorEpochs", tlc.cfg_text(constants=dict(ep0, NSet={1}, KSet={2, 3, 4}, LAT="full"), invariants=EP_INVS), workers=1, tag="actorep-full1", timeout=3000)
            f_epfull2 = pool.submit(tlc.run, "ActorEpochs", tlc.cfg_text(constants=dict(ep0, EMIT=False, LAT="full"), invariants=EP_INVS), workers=workers, tag="actorep-full2", timeout=3000)
        # 0b. the temperature parameter over a history of updates (ActorTemp.tla): deviation canary, the small lattice exhaustively
        #     (invariants + histories); thorough: the full lattice exhaustively (invariants) and by seeded random walks (histories)
        h0 = dict(EMIT=True, LAT="small", HSet={3, 4}, Modes={"sgd", "control"}, DEV="")
        f_hdev = pool.submit(tlc.run, "ActorTemp", tlc.cfg_text(constants=dict(h0, EMIT=False, HSet={1}, Modes={"sgd"}, DEV="tempclip"), invariants=["HistDirection"]), workers=1, tag="actortemp-clip")
        f_hsmall = pool.submit(tlc.run, "ActorTemp", tlc.cfg_text(constants=h0, invariants=HIST_INVS), workers=1, tag="actortemp-small", timeout=1500)
        f_hfull = f_hsim = None
        if not quick:
            f_hfull = pool.submit(tlc.run, "ActorTemp", tlc.cfg_text(constants=dict(h0, EMIT=False, LAT="full"), invariants=HIST_INVS), workers=workers, tag="actortemp-full", timeout=3000)
            f_hsim = pool.submit(tlc.run, "ActorTemp", tlc.cfg_text(constants=dict(h0, LAT="full"), invariants=HIST_INVS), workers=1, simulate="num=800", depth=8,
                                 seed=rep.seed * 7 + 6, tag="actortemp-sim", timeout=1500)
        # 1. the relational clauses on the model, exhaustive over the small lattice
        f_inv = pool.submit(tlc.run, "Actor", tlc.cfg_text(constants=base, invariants=INVS), workers=workers, tag="actor-inv", timeout=1500)
        # 2. vectors: the same lattice exhaustively, and seeded random walks over the full lattice (invariants checked there too)
        f_gen = pool.submit(tlc.run, "Actor", tlc.cfg_text(constants=dict(base, EMIT=True)), workers=1, tag="actor-gen", timeout=1500)
        f_inv3 = f_full = None
        if not quick:  # the FULL lattice exhaustively for the kinds whose row lattice is small
            cf = dict(base, EMIT=True, LAT="full", Kinds={"pg", "a2c", "dpg", "td7", "temp", "templa", "ppoupd"})
            f_full = pool.submit(tlc.run, "Actor", tlc.cfg_text(constants=cf, invariants=INVS), workers=1, tag="actor-full", timeout=3000)
        if not quick:  # batches of three rows for the kinds whose small row lattice allows it
            c3 = dict(base, NSet={3}, Kinds={"pg", "a2c", "dpg", "td7", "temp", "templa", "ppoupd", "sac"})
            f_inv3 = pool.submit(tlc.run, "Actor", tlc.cfg_text(constants=c3, invariants=INVS), workers=workers, tag="actor-inv3", timeout=3000)
        f_sim = []
        for si, s in enumerate(sims):
            cc = dict(EMIT=True, Kinds=set(ALL_KINDS), NSet=s["NSet"], LAT=s["LAT"], DEV="")
            f_sim.append(pool.submit(tlc.run, "Actor", tlc.cfg_text(constants=cc, invariants=INVS), workers=1, simulate=f"num={s['num']}", depth=8,
                                     seed=rep.seed * 7 + si + 1, tag=f"actor-sim{si}", timeout=1500))
        _lazy()  # import jax / flax / rl_blox while TLC is running
        from rl_blox.algorithm import a2c, actor_critic, ddpg, mrq, ppo, reinforce, sac, td7  # noqa: F401

        finish_canaries(can)
        r = f_inv.result()
        g = f_gen.result()
        sim_res = [f.result() for f in f_sim]
        r3 = f_inv3.result() if f_inv3 is not None else None
        rf = f_full.result() if f_full is not None else None
        epdev = f_epdev.result()
        if epdev.violated != "EpClippedZero":
            raise tlc.MachineryError(f"canary: a reference refreshed in every epoch is not refuted by EpClippedZero (got {epdev.violated})")
        ep_res = [("ActorEpochs small lattice N=2, 3 epochs: invariants + schedules", f_epsmall.result()),
                  ("ActorEpochs full lattice, random walks: invariants + schedules", f_epsim.result())]
        if f_epfull1 is not None:
            ep_res.append(("ActorEpochs full lattice N=1, 2-4 epochs: invariants + schedules", f_epfull1.result()))
            ep_res.append(("ActorEpochs full lattice N=2, 3 epochs: invariants", f_epfull2.result()))
        hdev = f_hdev.result()
        if hdev.violated != "HistDirection":
            raise tlc.MachineryError(f"canary: the clipped parametrisation alpha = exp(clip(log_alpha, -20, 2)) is not refuted by HistDirection (got {hdev.violated})")
        h_res = [("ActorTemp small lattice, histories of 3-4 updates: invariants + histories", f_hsmall.result())]
        if f_hfull is not None:
            h_res.append(("ActorTemp full lattice, histories of 3-4 updates: invariants", f_hfull.result()))
            h_res.append(("ActorTemp full lattice, random walks: invariants + histories", f_hsim.result()))
    rep.add_tlc(r, "Actor small lattice N in {1,2}: invariants")
    if not r.ok:
        rep.violation(f"spec:Actor:{r.violated}", f"design-level violation of {r.violated}", r.error_trace)
    rep.add_tlc(g, "Actor small lattice: generation")
    if r3 is not None:
        rep.add_tlc(r3, "Actor small lattice N=3 (pg a2c dpg td7 sac temp templa ppoupd): invariants")
        if not r3.ok:
            rep.violation(f"spec:Actor:{r3.violated}", f"design-level violation of {r3.violated} (N=3)", r3.error_trace)
    vectors = list(g.emitted)
    if rf is not None:
        rep.add_tlc(rf, "Actor full lattice N in {1,2} (pg a2c dpg td7 temp templa ppoupd): invariants + generation")
        if not rf.ok:
            rep.violation(f"spec:Actor:{rf.violated}", f"design-level violation of {rf.violated} (full lattice)", rf.error_trace)
        vectors += rf.emitted
        rep.extra["vectors_full_lattice"] = len(rf.emitted)
    sim_total = 0
    for sr in sim_res:
        if sr.violated:
            rep.violation(f"spec:Actor:{sr.violated}", f"design-level violation of {sr.violated} (random walk)", sr.error_trace)
        sim_total += len(sr.emitted)
        vectors += sr.emitted
    tm["tlc"] = round(time.time() - t0, 1)
    seen, uniq = set(), []
    for v in vectors:
        kk = canon(v)
        if kk not in seen:
            seen.add(kk)
            uniq.append(v)
    missing = [k for k in ALL_KINDS if not any(v["kind"] == k for v in uniq)]
    if missing:
        raise tlc.MachineryError(f"no vectors generated for {missing}")
    stats = new_stats()
    total = evaluate(rep, uniq, stats, upd_every=3 if quick else 1)
    check_alpha_order(rep, stats)
    tm["replay"] = round(time.time() - t0, 1)
    # the temperature parameter over a history of updates
    h_vecs, h_seen = [], set()
    for name, hr in h_res:
        if "random walks" not in name:
            rep.add_tlc(hr, name)
        if hr.violated:
            rep.violation(f"spec:ActorTemp:{hr.violated}", f"design-level violation of {hr.violated} ({name})", hr.error_trace)
        for v in hr.emitted:
            kk = canon_hist(v)
            if kk not in h_seen:
                h_seen.add(kk)
                h_vecs.append(v)
    h_sgd, h_ctl = select_hist(rep, h_vecs, quick)
    if not all(any(v["hist"][-1]["dir"] == d for v in h_ctl) for d in ("up", "down")) or not h_sgd:
        raise tlc.MachineryError("temperature histories: no EntropyControl history in both directions / no history on a live EntropyCoefficient")
    total += evaluate_hist(rep, h_sgd + h_ctl, stats)
    tm["temperature_histories"] = round(time.time() - t0, 1)
    # update_ppo over several epochs
    ep_vecs, ep_seen = [], set()
    for name, er in ep_res:
        if "random walks" not in name:
            rep.add_tlc(er, name)
        if er.violated:
            rep.violation(f"spec:ActorEpochs:{er.violated}", f"design-level violation of {er.violated} ({name})", er.error_trace)
        for v in er.emitted:
            kk = canon_ep(v)
            if kk not in ep_seen:
                ep_seen.add(kk)
                ep_vecs.append(v)
    if not quick and len(ep_vecs) > 1500:  # the exhaustive N=1 lattice is large: keep the small lattice and the walks, thin out the rest (seeded)
        order = np.random.default_rng([rep.seed, 1217]).permutation(len(ep_vecs))
        keep = set(order[:1500].tolist()) | set(range(len(ep_res[0][1].emitted)))
        ep_vecs = [v for i, v in enumerate(ep_vecs) if i in keep]
    total += evaluate_epochs(rep, ep_vecs, stats, flat_every=2, flat_ns=(2,) if quick else (1, 2, 3, 4))
    if not EP_REQUIRED <= stats["ep_classes"]:
        raise tlc.MachineryError(f"epoch schedules do not cover the region histories {sorted(EP_REQUIRED - stats['ep_classes'])}")
    tm["epochs"] = round(time.time() - t0, 1)
    try:
        total += real_heads(rep, uniq, stats, scale=1 if quick else 4)
    except tlc.MachineryError:
        raise
    except Exception as ex:  # raised by the code under test on inputs for which the specification defines a result
        tb = traceback.format_exc()
        if "/rl_blox/" not in tb:
            raise
        rep.violation("real_heads:exception", f"an objective raised {type(ex).__name__}: {str(ex).splitlines()[0][:200] if str(ex) else ''} with the repository's own policy head", {"vec": {}, "level": "real", "scenario": "exception", "seed": rep.seed, "traceback": tb[-2000:]})
    try:
        total += real_epochs(rep, ep_vecs, stats, scale=1 if quick else 4)
    except tlc.MachineryError:
        raise
    except Exception as ex:
        tb = traceback.format_exc()
        if "/rl_blox/" not in tb:
            raise
        rep.violation("update_ppo:exception", f"update_ppo over several epochs raised {type(ex).__name__}: {str(ex).splitlines()[0][:200] if str(ex) else ''} with the repository's own networks",
                      {"vec": {}, "level": "real_epochs", "seed": rep.seed, "traceback": tb[-2000:]})
    tm["real_heads"] = round(time.time() - t0, 1)
    binding_canary(rep, uniq, stats["failed"])
    epochs_binding_canary(rep, ep_vecs, stats["failed"])
    hist_binding_canary(rep, h_sgd, stats["failed"])
    tm["binding_canary"] = round(time.time() - t0, 1)
    rep.extra["cumulative_wall_s"] = tm

    rep.traces = len(uniq) + len(ep_vecs) + len(h_sgd) + len(h_ctl)
    rep.evaluations = total
    rep.distinct = (sum(1 for v in uniq if nontrivial(v)) + sum(1 for v in ep_vecs if any(any(h["fav"]) or any(h["expo"]) for h in v["hist"]))
                    + sum(1 for v in h_sgd + h_ctl if any(h["dir"] in ("up", "down") for h in v["hist"])))
    rep.exhaustive = False
    rep.rule = (
        "TLC enumerates every vector of Actor.tla's small lattice (11 objective kinds, batch size 1-2, curated dyadic values: weights / advantages of both signs and 0, "
        "ratios {1/4,3/4,1,5/4,2}, clip ranges {1/4,1/2}, critic slopes, ties of the two critics, temperature above / at / below target) and draws seeded random walks over the "
        "full lattice (batch size 1-4); each vector is a staged choice kind -> parameters -> rows; a vector is non-trivial when its expected objective or some per-sample "
        "coefficient is non-zero; every distinct vector is realised with stub modules (one parameter per sample) and replayed at function level with critic output shapes "
        "(N,1) and (N,), and (kinds with an update function) through one SGD(lr=1) step of the real update. ActorEpochs.tla: TLC enumerates update schedules "
        "(batch size, SGD learning rates of actor and critic, 2-4 epochs, per-sample advantage / value / entropy; small lattice exhaustively, full lattice by seeded random "
        "walks) and emits the expected state after every epoch; update_ppo(epochs=j) is run for j = 1..K from identical entry parameters and compared after every epoch; "
        "a schedule is non-trivial when some sample is clipped on its favoured side or steps at a ratio other than 1. "
        "Kind templa: the temperature loss as a function of its PARAMETER log_alpha = a + k ln 2 over the float32 range in which alpha is a normal number "
        "(0, 2.5, 4, 10, 50, -12, -21, -30, -60 and k ln 2 for k = 3, 72, -30, -86 exhaustively; +-80, +-115 ln 2 and more by random walks): value, gradient and SGD step "
        "are TLC's coefficient times the named constant exp(log_alpha); alpha = 2^k and 'alpha strictly increasing in log_alpha' are order predicates on float32 ordinals. "
        "ActorTemp.tla: TLC enumerates histories of 3-4 updates (start value, estimate below / at / above target per update) on one live EntropyCoefficient + SGD and on one "
        "live EntropyControl (Adam); a history is non-trivial when some update must move alpha"
    )
    for kind, pred in (("ppo", lambda v: len({json.dumps(r["ratio"]) for r in v["rows"]}) > 1 and all(fq(r["adv"]) != 0 for r in v["rows"])),
                       ("reinforce", lambda v: v["par"]["base"] and v["par"]["disc"]), ("sac", lambda v: fq(v["par"]["alpha"]) != 0), ("temp", lambda v: True),
                       ("templa", lambda v: abs(fq(v["par"]["la"]["a"])) > 20)):
        cand = [u for u in uniq if u["kind"] == kind and u["n"] == 2 and nontrivial(u) and pred(u)]
        if cand:
            v = cand[len(cand) // 2]
            rep.sample({"kind": v["kind"], "n": v["n"], "par": v["par"], "rows": v["rows"], "expected": {kk: v["exp"][kk] for kk in ("loss", "g", "ga", "gv", "galpha", "dir", "active") if kk in v["exp"]}})
    rep.extra.update(
        vectors_small_lattice=len(g.emitted), vectors_random_walks=sim_total, distinct_vectors=len(uniq), function_level_evaluations=stats["fn"],
        update_level_evaluations=stats["upd"], per_kind=stats["per_kind"], batch_size_1=stats["batch1"], ppo_samples_at_a_clip_edge=stats["kinks"],
        samples_with_tied_critics=stats["ties"], real_head_scenarios=stats["real"],
        epoch_schedules=len(ep_vecs), update_ppo_runs_epochs=stats["ep_runs"], epoch_region_histories=sorted(stats["ep_classes"]),
        clipped_sample_epochs=stats["ep_clipped"],
        temperature_parameter_values=len(stats.get("alpha_ranks", {})), alpha_is_power_of_two_checks=stats.get("alpha_pow2", 0),
        temperature_histories=stats.get("hist_modes", {}), temperature_history_updates=stats.get("hist_steps", 0),
        temperature_history_updates_beyond_2=stats.get("hist_far", 0),
    )
    ex = next((v for v in ep_vecs if v["n"] == 2 and {"1uA", "1BB"} <= {region_hist(v, 0), region_hist(v, 1)}), None)
    if ex is not None:
        rep.sample({"kind": "ppoep", "n": 2, "par": ex["par"], "rows": ex["rows"], "expected": {"adv": ex["adv"], "region": [h["region"] for h in ex["hist"]],
                    "step_coefficient": [h["c"] for h in ex["hist"]], "clipped_on_favoured_side": [h["fav"] for h in ex["hist"]], "critic": [h["v"] for h in ex["hist"]]}}, cap=5)
    rep.assumptions += [
        "network forward passes are inputs: stub modules (bias-free linear maps on one-hot inputs, one parameter per sample) realise the outputs chosen by TLC",
        "values are decided on dyadic lattices only; with the repository's heads (softmax, Gaussian, tanh-Gaussian, deterministic tanh, ActorSALE) only gradient support and sign",
        "at a clip edge of PPO / a tie of the two critics any value between the one-sided derivatives is accepted",
        "GAE inside update_ppo only with all rows terminated (advantage = reward - value); update gradients observed through SGD(lr=1) steps",
        "update_ppo over epochs: per-sample table policy (no parameter sharing between samples), plain SGD, clip range 0.2 (the default update_ppo uses), 1-4 epochs, ratios whose "
        "logarithm is within 0.0005 of log(0.8) / log(1.2) are excluded from the lattice; steps at a ratio other than 1 are linear forms c * exp(log ratio) with c from TLC and exp evaluated "
        "in Python inside TLC's enclosure",
        "update_ppo over epochs with the repository's own networks (softmax over a shared MLP, Gaussian over tables, rollouts not all terminated): the expectation is ActorEpochs.tla's "
        "schedule executed with the real compute_gae / ppo_loss / optimiser (both sides real code), compared within 16 ulp per epoch of the largest parameter or step",
        "update_critic_and_policy (MR.Q) is not driven; mrq_policy_loss is checked as a function",
        "temperature at every parameter value: exp(log_alpha) is the named constant of a linear form (its float64 value at the float32 parameter is the harness' only contribution); "
        "the float32 exponential is given 2 ulp, loss / gradient 8 ulp of alpha x max(|log pi| + |target|); SGD steps use TLC's step size 2^-floor(log_alpha / ln 2) (- 3 in histories) so that "
        "a step is far above the float32 spacing of log_alpha at every parameter value; EntropyControl (Adam): direction only while all gradients seen agree in sign; |log_alpha| <= 80",
        "trusted: harness/stubs.py, harness/stubs_actor.py, realisation code in c12.py, Exact.tla, TLC",
    ]


def replay(path, rep):
    d = json.load(open(path))
    info = d["replay"]
    if not isinstance(info, dict) or "vec" not in info:
        print("design-level violation; error trace:\n", info)
        return 1
    vec = info["vec"]
    stats = new_stats()
    if info.get("level") == "real_epochs":
        if "scenario_seed" not in info:
            print("update_ppo raised with the repository's own networks:\n", info.get("traceback"))
            return 1
        print(f"update_ppo(epochs={len(vec['hist'])}) with the repository's own networks ({info['head']}), schedule par={vec['par']}")
        real_epochs_one(rep, info["head"], vec, int(info["scenario_seed"]))
    elif info.get("level") == "epochs":
        c = realise_epochs(vec, tuple(info["fill_seed"]), info.get("vshape", "n1"))
        K = len(vec["hist"])
        print(f"update_ppo over {K} epochs: n={vec['n']} par={vec['par']} rows={json.dumps(vec['rows'])} critic output shape={'(N,)' if c.vshape == 'n' else '(N,1)'}")
        print("expected region of each sample per epoch (TLC):", [region_hist(vec, i) for i in range(vec["n"])], "step coefficients:", [h["c"] for h in vec["hist"]])
        try:
            results = [run_epochs(c, j) for j in range(1, K + 1)]
        except Exception as ex:
            print("code under test raised:", type(ex).__name__, str(ex)[:300])
            if vec["n"] == 1:
                return 0
            print("VIOLATION property=C12 replay=" + path)
            return 1
        lp0 = np.asarray(c.leaves[0]["lp"], dtype=np.float64)[: vec["n"]]
        for j, (loss, lv) in enumerate(results, start=1):
            print(f"after {j} epoch(s): loss {float(loss)!r}, log pi - log pi_0 = {(np.asarray(lv[0]['lp'], dtype=np.float64)[: vec['n']] - lp0).tolist()}, critic {np.asarray(lv[1]['kernel']).reshape(-1)[: vec['n']].tolist()}")
        check_epochs(c, results, rep, stats)
    elif info.get("level") == "hist":
        fs = tuple(info["fill_seed"])
        print(f"temperature history ({vec['par']['mode']}): par={vec['par']} estimate={fq(vec['est'])} targets={[str(fq(h['tgt'])) for h in vec['hist']]}")
        print("expected direction of each update (TLC):", [h["dir"] for h in vec["hist"]], "coefficients of exp(log_alpha) in the gradient:", [str(fq(h["gc"])) for h in vec["hist"]])
        try:
            steps, untouched = run_hist(vec, fs)
        except Exception as ex:
            print("code under test raised:", type(ex).__name__, str(ex)[:300])
            print("VIOLATION property=C12 replay=" + path)
            return 1
        for t, o in enumerate(steps, start=1):
            print(f"update {t}: log_alpha {o['la_before']!r} -> {o['la_after']!r}, alpha {o['alpha_before']!r} -> {o['alpha']!r}, loss {o['loss']!r}")
        check_hist(vec, steps, untouched, rep, stats, fs)
    elif info.get("level") == "order":
        print("alpha must be strictly increasing in log_alpha: parameter values", vec["par"]["la"], "(larger) and", info["vec_lo"]["par"]["la"])
        for v2 in (info["vec_lo"], vec):
            c = realise(v2, tuple(info["fill_seed"]), "n1")
            res = run_fn(c)
            print(f"log_alpha = {c.aux['la']!r}: alpha = {np.asarray(res[0]['alpha']).tolist()!r} (specification exp(log_alpha) = {c.aux['atom']!r})")
            check_fn(c, res[0], res[1], rep, stats)
        check_alpha_order(rep, stats)
    elif info.get("level") == "real":
        print("scenario with the repository's own head:", info.get("scenario"), "- re-running all real-head scenarios with seed", info.get("seed"))
        tlc.sany("Actor")
        g = tlc.run("Actor", tlc.cfg_text(constants=dict(EMIT=True, Kinds=set(ALL_KINDS), NSet={2}, LAT="small", DEV="")), workers=1, tag="actor-replay")
        rep.seed = info.get("seed", rep.seed)
        real_heads(rep, g.emitted, stats)
    else:
        c = realise(vec, tuple(info["fill_seed"]), info.get("vshape", "n1"))
        print(f"kind={vec['kind']} n={vec['n']} par={vec['par']} critic output shape={'(N,)' if c.vshape == 'n' else '(N,1)'}")
        print("rows:", json.dumps(vec["rows"]))
        print("expected (TLC):", json.dumps(vec["exp"])[:1500])
        level = info.get("level", "fn")
        try:
            res = run_fn(c) if level == "fn" else run_update(c)
        except Exception as ex:
            print("code under test raised:", type(ex).__name__, str(ex)[:300])
            if vec["n"] == 1:
                return 0
            print("VIOLATION property=C12 replay=" + path)
            return 1
        print("outputs:", {kk: np.asarray(v).tolist() for kk, v in res[0].items()})
        if level == "fn":
            print("gradients:", {f"{mi}.{kk}": np.asarray(v).reshape(-1).tolist() for (mi, kk), v in res[1].items() if (mi, kk) in c.exp_grad})
            check_fn(c, res[0], res[1], rep, stats)
        else:
            print("parameter moves (old - new):", {f"{mi}.{kk}": (o.astype(np.float64) - np.asarray(nw, dtype=np.float64)).reshape(-1).tolist() for (mi, kk), (o, nw) in res[1].items()})
            check_update(c, res[0], res[1], rep, stats)
    hit = [v for v in rep.violations if v["key"] == d["key"]] or rep.violations
    if hit:
        print("VIOLATION property=C12 replay=" + path)
        for v in hit[:3]:
            print("  ", v["key"], "::", v["what"][:700])
        return 1
    return 0
